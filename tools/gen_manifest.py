#!/usr/bin/env python3
"""Regenerate MANIFEST.json from the per-property table below (so it is always schema-valid)."""
import json, os
HERE = os.path.dirname(os.path.dirname(os.path.abspath(__file__)))
props = [json.loads(l) for l in open(os.path.join(HERE, 'properties.jsonl'))]
CLAIMED = {
 'C07': dict(
   text='Machine-checked theorems (Coq 8.16.1) about the switch state machine regenerated from deal/_state.py on every run: every history of enable/disable/reset/permanent-disable refines a two-boolean machine; last effective switch wins; permanent disable is final; nothing else is touched. The model is tied to the code by the translator (re-run each time) and by exhaustive differential execution of all histories up to length 5 (quick) / 6 (thorough) under python and python -O, plus an independent monitor.',
   design_ref='DESIGN.md 4.7',
   note='Trusted: Coq kernel + VM, tools/py2coq translator (abstracts warnings/colour statements, listed in the evidence), the harness; Print Assumptions: closed under the global context.',
   technique='Coq proof over a model regenerated from source + exhaustive correspondence check'),
}
GENERIC_NOTE = 'Trusted: Coq kernel + VM, tools/py2coq translator (abstracted statements listed in the evidence), hand-written CPython slice coq/Py (validated differentially, not verified), the scenario harness and monitors; Print Assumptions: closed under the global context.'
CLAIMED['C01'] = dict(
   text='Machine-checked theorems about the _run_sync/_run_async/_run_iter wrappers regenerated from deal/_runtime/_contracts.py and _validators.py on every run: for every registry, validator list (arbitrary user code), arguments, world and fuel, a non-accepting precondition ends the call with its error before anything after the pre block runs and restores the switch; if all accept, execution continues with the body part with the caller arguments. Binding of the `_` container and validator forms are tied by the correspondence check (random signatures x validator forms x bindings x kinds, model vs real deal) and an independent monitor using CPython itself as binding oracle.',
   design_ref='DESIGN.md 4.1', note=GENERIC_NOTE,
   technique='Coq proof over wrappers regenerated from source + differential correspondence + monitor')
CLAIMED['C02'] = dict(
   text='Machine-checked theorems about the post-validation block of the wrappers regenerated from _contracts.py: for every registry, value, arguments, world and fuel, the value is returned / yielded iff every post accepts it and every ensure accepts it with the original arguments (reference run_posts), otherwise the first failure is raised; the switch is restored; a rejected yielded value ends the wrapper loop so the inner generator is never resumed. Tied to the code by regeneration, by differential execution of random post/ensure stacks, result values and yield sequences, and by an independent monitor.',
   design_ref='DESIGN.md 4.2', note=GENERIC_NOTE,
   technique='Coq proof over wrappers regenerated from source + differential correspondence + monitor')
CLAIMED['C03'] = dict(
   text='Machine-checked theorems about the try/except/finally around the body call of the wrappers regenerated from _contracts.py, for arbitrary class tables: ContractError and non-Exception BaseException propagate as the same object; an exception admitted by the raises contracts and by the reason contracts registered for its type propagates as the same object; otherwise it is replaced by the validator-built violation chained to the original; and RaisesValidator._validate admits exactly instances of declared classes (subclass-aware). Proven for sync, async and per generator step. Tied to the code by regeneration, by differential execution on random hierarchies/declarations/stackings, a monitor, and a three-way runtime / linter (both back-ends) / deal.cases comparison of admitted exception types.',
   design_ref='DESIGN.md 4.3', note=GENERIC_NOTE + ' The agreement of linter and deal.cases with the runtime is decided by exhaustive differential testing over builtin classes, not by a theorem (the linter model of CheckRaises is not generated yet).',
   technique='Coq proof over wrappers regenerated from source + differential correspondence + monitor')
CLAIMED['C08'] = dict(
   text='Machine-checked frame theorem (Coq) for the synchronous fragment in full generality: for every table of contracted plain functions (bodies and validators arbitrary user code, recursion and nesting of any depth, any registry and any shared or distinct has() patcher), whatever the outcome at every node, once the outermost call finished the switch, sys.stdout, sys.stderr, socket.socket and every patcher depth are what they were -- proved by induction on fuel and on the program, through the wrapper _run_sync and patch/unpatch as regenerated from the source on every run. Generators, coroutines, dispatch, tracing and the CLI helpers are covered by the correspondence check (random call trees with exceptions injected at validator / body / yield positions, abandoned and closed generators; model vs real deal) and by the snapshot monitor, not by the theorem.',
   design_ref='DESIGN.md 4.8', note=GENERIC_NOTE + ' Partial: the theorem covers plain functions; generators / coroutines / dispatch / trace / memtest restoration is decided by differential testing and the monitor only.',
   technique='Coq frame theorem over wrappers regenerated from source + differential correspondence + snapshot monitor')
CLAIMED['C04'] = dict(
   text='Machine-checked theorems over ALL marker lists (custom markers included): the has_* predicates regenerated from _has_patcher.py, the coverage decision of CheckMarkers regenerated from linter/_rules.py and the table + runtime bullets parsed from docs/basic/side-effects.md on every run all equal one reference implication table (io covers every I/O sub-marker; the four aliases); patching replaces stdout / stderr / socket iff the marker list lacks io/print/stdout, io/stderr, io/network/socket and installs the documented or configured error; an allowed effect reaches the real stream unchanged. Tied to the code by regeneration, by correspondence on every subset of the 16 known markers (exhaustive 2^16 in the thorough tier) for 9 runtime predicates and 12 linter decisions, by has(M) x effect x kind x customisation scenarios, and by the real linter on generated sources.',
   design_ref='DESIGN.md 4.4', note=GENERIC_NOTE,
   technique='Coq proof over predicates/tables regenerated from source and docs + exhaustive correspondence')
CLAIMED['C10'] = dict(
   text='Machine-checked closed form of Validator._exception and Validator.__init__ (regenerated from _validators.py) over the entire configuration space: the raised object has the configured class; message precedence (validator-returned text, else the configured message / exception-instance text); ContractError subclasses carry exactly the given params, the violated function and the validator; other classes are built from (message, errors); per-kind defaults read from _decorators.py / _exceptions.py are ContractError subclasses and ContractError is an AssertionError. Tied to the code by regeneration and by a complete configuration matrix (kind x message x exception form x validator outcome x signature shape) run on model and implementation, with a monitor that also probes str() and pickling on the real objects.',
   design_ref='DESIGN.md 4.10', note=GENERIC_NOTE + ' Partial: str() rendering and pickling are observed on the implementation only (source extraction, repr and pickle are outside the model).',
   technique='Coq proof (closed form by exhaustive case analysis) over code regenerated from source + exhaustive matrix correspondence')
CLAIMED['C06'] = dict(
   text='Machine-checked theorems on the wrappers regenerated from _contracts.py: when every pre/post/ensure accepts, the sync and async wrappers call the original with exactly the caller arguments and return exactly its value; with contracts disabled the wrapper is the original call (same outcome object, same final state); and a machine-checked REFUTATION of the full generator protocol on the current tree (sent values are not forwarded, the return value is lost) -- listed as known findings. Identity of argument/result objects, self/cls binding, name/doc/signature/kind/__wrapped__ and generator driver scripts are decided by the side-by-side correspondence (decorated vs bare, model vs real deal) and the metadata monitor.',
   design_ref='DESIGN.md 4.6', note=GENERIC_NOTE + ' Partial: functools.update_wrapper metadata and descriptor binding are checked on the implementation only.',
   technique='Coq proof over wrappers regenerated from source + side-by-side differential correspondence')
CLAIMED['C12'] = dict(
   text='Machine-checked theorems on Dispatch.__call__ regenerated from _dispatch.py, for every registry of implementations, function table, arguments and fuel: the outcome is that of the first implementation, in registration order, that does not fail with a PreContractError of its own function; later implementations are not called; if all mismatch, NoMatchError lists one failure per implementation in order; any other exception (custom-typed precondition errors, precondition errors of deeper calls) propagates; the switch is forced on during the search and restored. Tied to the code by regeneration, differential execution over random registries and an independent monitor.',
   design_ref='DESIGN.md 4.12', note=GENERIC_NOTE,
   technique='Coq proof over code regenerated from source + differential correspondence + monitor')
CLAIMED['C13'] = dict(
   text='Generators: machine-checked theorem on the wrapper loop regenerated from _run_iter: every iteration, from resumption to the next suspension or to the error that ends it, hands the switch and the streams back as it found them, so between the steps of any interleaving the globals are original. Coroutines: machine-checked REFUTATION on the current tree (a has() patch spans the awaits) -- a known finding. All interleavings of the steps of 2-3 live contracted generators / coroutines (exhaustive in the thorough tier) are executed on model and implementation and compared task by task with the sequential schedule. Preemptive threads are outside the model: a deterministic two-thread probe on the implementation exhibits the known race.',
   design_ref='DESIGN.md 4.13', note=GENERIC_NOTE + ' Partial: CPython thread scheduling is not modelled; per-task outcome independence is decided by exhaustive schedule enumeration, not by a theorem.',
   technique='Coq proof over the wrapper loop regenerated from source + exhaustive interleaving correspondence')
CLAIMED['C09'] = dict(
   text='Machine-checked theorems on a heap model of function objects, registries and validator objects (attach / attach_has / _ensure_wrapped / update_wrapper / chain / foreign decorators): any sequence of deal decorators on a function yields one registry holding exactly the applied contracts in application order; grouping with chain or splitting the stack anywhere changes nothing; a functools.wraps-style foreign layer is never mistaken for a deal wrapper, so the next decorator opens a new registry over it and it stays in the call chain. The model is hand-written; the source of the modelled functions is pinned (a change fails the translation) and random compositions (stacks, chains, shared contract objects, wraps-style and plain foreign decorators) are executed on model and real deal with the generated wrappers, plus an independent monitor.',
   design_ref='DESIGN.md 4.9', note=GENERIC_NOTE + ' The definition-phase functions are modelled by hand (pinned source + correspondence), not regenerated.',
   technique='Coq proof over a hand-written heap model (source-pinned) + differential correspondence + monitor')
CLAIMED['C14'] = dict(
   text='Machine-checked theorems on the heap model of function objects and registries: for a function decorated by any sequence of deal decorators (stacked or chained) get_contracts yields exactly one record per applied validator, kinds in the documented order and each kind in application order, plus the patcher in force; the records are the registry entries the wrapper itself runs; unwrap returns the original; a registry reachable several times along the __wrapped__ chain is reported once. Model hand-written with pinned source; random compositions with introspection queries are executed on model and real deal; record.validate vs the runtime verdict and init_all idempotence are probed on the implementation.',
   design_ref='DESIGN.md 4.14', note=GENERIC_NOTE + ' The introspection functions are modelled by hand (pinned source + correspondence); inheritance through Inherit is covered under C11.',
   technique='Coq proof over a hand-written heap model (source-pinned) + differential correspondence + monitor')
CLAIMED['C11'] = dict(
   text='Machine-checked theorems on a class-table model of Inherit._patch over a C3 linearisation: a method marked inherit enforces its own contracts and, for every class after the defining class in its MRO, every contract of the method that class resolves the name to (transitively through inherit-marked ancestors); methods not marked keep exactly their own. The model is hand-written with pinned source; on random hierarchies (single, multiple, diamond; inherit on methods; own contracts below inherit) the registry the real get_contracts reports equals the model\'s (order and multiplicity included) and CPython\'s MRO equals the C3 model; an independent monitor checks enforcement by calls on the first and on later calls and that the body sees the instance as self.',
   design_ref='DESIGN.md 4.11', note=GENERIC_NOTE + ' Inherit._patch and type.mro() are modelled by hand (pinned source + correspondence with the real class machinery).',
   technique='Coq proof over a hand-written class-table model (source-pinned) + differential correspondence + monitor')
CLAIMED['C05'] = dict(
   text='Machine-checked theorems on a state-machine model of InvariantedClass over attribute dictionaries, for every class, invariant stack, instance state and operation: an assignment or instance-method call that completes leaves every invariant true; a method is not entered when an invariant is already false; a violating assignment is not rolled back; static methods / properties / reads are untouched; nothing is validated while contracts are disabled; and a refutation of the `_` form on class-level attributes (known finding). The model is hand-written with pinned source; real deal.inv classes (stacked invariants in both forms, subclasses) are driven through random histories and compared step by step with the model; an independent monitor re-evaluates the invariants on vars(obj) after every step.',
   design_ref='DESIGN.md 4.5', note=GENERIC_NOTE + ' InvariantedClass is modelled by hand (pinned source + correspondence); invariants are drawn from a small predicate grammar over integer attributes.',
   technique='Coq proof over a hand-written state-machine model (source-pinned) + differential correspondence + monitor')
CLAIMED['C20'] = dict(
   text='Machine-checked theorems on a state-machine model of deal/_imports.py (activate / deactivate / module_load / DealLoader.exec_module / _get_contracts / _exec_contract): activation is idempotent and reversible and inert when disabled; a module that declares module-load contracts imported without activation raises RuntimeError; a module without declaration imports as without deal; an unsupported declaration is rejected and nothing is registered; a failed import leaves no module registered; plus a machine-checked refutation for aliased declarations (known finding). The model is hand-written with pinned source; random action lists (activate / deactivate / enable / disable / import of freshly generated modules of every declaration form and import-time behaviour) run through the real import system in a fresh process per case and are compared with the model; an independent monitor restates the property.',
   design_ref='DESIGN.md 4.20', note=GENERIC_NOTE + ' importlib is an oracle (a module whose execution raised is not registered); _imports.py is modelled by hand (pinned source + correspondence).',
   technique='Coq proof over a hand-written state-machine model (source-pinned) + differential correspondence through the real import system')
CLAIMED['C15'] = dict(
   text='Machine-checked theorems on TestCase.__call__, the wrapper of deal.cases and cases.exceptions regenerated from deal/_testing.py, with hypothesis as an oracle handing over candidates: a candidate reaches the test function iff every precondition accepts it and the case carries exactly that candidate; a rejected candidate is discarded without running the test; executing a case returns the result, NoReturn exactly for an exception admitted by the raises contracts, and propagates everything else as the same object. Seed determinism, explicit kwargs, annotation-driven strategies, counts and example contracts are decided on the implementation only: the real deal.cases is driven over generated annotated functions and every emitted case is checked (paired runs with equal seeds).',
   design_ref='DESIGN.md 4.15', note=GENERIC_NOTE + ' Partial: the hypothesis engine (strategies, seeds, number of examples) is an oracle, not modelled.',
   technique='Coq proof over code regenerated from source (hypothesis as oracle) + implementation-level exhaustive check of emitted cases')
CLAIMED['C19'] = dict(
   text='Machine-checked theorems on the mutation algebra regenerated from deal/linter/_transformer.py (the four mutation classes, their sort keys, _apply_mutations) and on a hand-written, source-pinned model of the planner (transform, _mutations_excs/_markers/_property/_pure/_import, _get_insert_line, _remove_contract): for every file and every list of in-range mutations, applying them in the implementation\'s order equals the per-line nested reading (no mutation shifts a line another one addresses); under the planner\'s well-formedness conditions (at most one Remove per line, appended comments on otherwise untouched lines) the output is the original lines minus the removed ones plus inserted lines plus appended comments, the surviving original lines being exactly the non-removed ones in order; a replaced raises / has contract lists everything declared before plus what is new; only lines of existing contracts are removed, completely; nothing is removed for a disabled type; the import goes after the docstring. Plan and output of the model are compared with Transformer.transform() on grammar-generated modules (every layout the property lists) and repository / standard-library files; what lives in the Python grammar is decided on the implementation: the output parses, normalised AST + docstring + shebang unchanged, declarations only grow, a fixpoint is reached, the linter is clean at the fixpoint, the same names are defined.',
   design_ref='DESIGN.md 4.19', note=GENERIC_NOTE + ' Partial: validity of the output as Python, AST equality and linter-cleanliness are monitors on the implementation (CPython\'s parser, the linter), not theorems; what the linter reports as undeclared is an input of the planner model (C18\'s subject); execution equivalence is checked only as "the same names are defined".',
   technique='Coq proof over code regenerated from source + a hand-written planner model (source-pinned) + differential correspondence + monitors with CPython\'s parser and the linter')
UNCLAIMED_REASON = 'not claimed yet: the Coq model and check for this property are still under construction in this round (no technique switch intended)'
checks, na = [], []
for p in props:
    pid = p['id']
    if pid in CLAIMED:
        c = CLAIMED[pid]
        checks.append({
            'property_id': pid,
            'quick_cmd': f'./check {pid} --tier quick',
            'thorough_cmd': f'./check {pid} --tier thorough',
            'evidence_file': f'/verif/evidence/{pid}.json',
            'replay_cmd_template': f'./check {pid} --replay {{path}}',
            'engine': 'coq-deal',
            'level_claimed': {'category': 'proof', 'text': c['text'], 'design_ref': c['design_ref']},
            'level_note': c['note'],
            'technique': c['technique'],
        })
    else:
        na.append({'property_id': pid, 'reason': UNCLAIMED_REASON})
m = {
 'version': 1,
 'setup_cmd': './setup.sh',
 'hooks': {'guard': 'DEAL_VERIF', 'enable': 'no hooks: the checks import /repo as it is (PYTHONPATH=/repo); the guard name is reserved', 
           'baseline_off_cmd': 'cd /repo && /venv/bin/python -m pytest -ra -q -p no:cacheprovider --timeout=900 --continue-on-collection-errors',
           'source_commits': [], 'add_only': True},
 'engines': [{'name': 'coq-deal', 'path': '/verif/coq', 'serves_properties': sorted(CLAIMED),
              'kind_free_text': 'Coq 8.16.1 development: Core (free monad, statements), Sem (handler, scenarios), Gen (regenerated from /repo by tools/py2coq), Thm + Props (theorems); correspondence harness in tools/'}],
 'checks': checks,
 'not_applicable': na,
 'notes': 'Every check: regenerate coq/Gen from /repo, rebuild Props/<id>.vo, run correspondence + monitors, write evidence/<id>.json. See DESIGN.md and TRUSTED_BASE.md.',
}
json.dump(m, open(os.path.join(HERE, 'MANIFEST.json'), 'w'), indent=1)
print('claimed', sorted(CLAIMED), 'unclaimed', len(na))
