"""C20 on the implementation: real modules imported through the real import system, with deal.activate / deactivate / enable / disable.
stdin: list of cases, each a list of actions: ["activate"] | ["deactivate"] | ["enabled", bool] | ["import", name, source_text].
Each case runs in a forked child. stdout: list of observation strings (same text as Sem/ImportModel.show_imports)."""
import sys, os, json, importlib, shutil, warnings, io, signal
warnings.simplefilter('ignore')
import deal
from deal._imports import DealFinder

ROOT = os.path.join(os.path.dirname(os.path.dirname(os.path.dirname(os.path.abspath(__file__)))), '_build', 'tmp')

def run(case, idx):
    d = os.path.join(ROOT, f'c20_{os.getpid()}_{idx}')
    os.makedirs(d, exist_ok=True)
    sys.path.insert(0, d)
    sys.dont_write_bytecode = True
    out = []
    real_out = sys.stdout
    sys.stdout = io.StringIO()
    try:
        for a in case:
            if a[0] == 'activate': o = f'activate={int(deal.activate())}'
            elif a[0] == 'deactivate':
                from deal._imports import deactivate
                o = f'deactivate={int(deactivate())}'
            elif a[0] == 'enabled':
                (deal.enable if a[1] else deal.disable)(); o = f'enabled={int(a[1])}'
            elif a[0] == 'reimport':
                # the source of an already imported plain module is rewritten and the module is imported afresh
                name, src = a[1], a[2]
                path = os.path.join(d, name + '.py')
                with open(path, 'w') as f: f.write(src)
                shutil.rmtree(os.path.join(d, '__pycache__'), ignore_errors=True)
                sys.modules.pop(name, None)
                importlib.invalidate_caches()
                try:
                    mod = importlib.import_module(name); r = 'ok'
                    if 'c20_done = 1' in src and getattr(mod, 'c20_done', None) != 1: r = 'ok-but-body-not-executed'
                except BaseException as e:
                    r = type(e).__name__
                o = f'reimport {name}={r} registered={int(name in sys.modules)}'
            elif a[0] == 'import_ext':
                # a compiled extension module of the standard library, not imported yet in this process: it must be the real module
                name = a[1]
                try:
                    mod = importlib.import_module(name); r = 'ok'
                    if not [k for k in vars(mod) if not k.startswith('_')]: r = 'ok-but-empty-module'
                except ModuleNotFoundError:
                    r = 'ok'          # not built on this platform: nothing to observe
                    sys.modules[name] = None
                except BaseException as e:
                    r = type(e).__name__
                o = f'import {name}={r} registered={int(name in sys.modules)}'
            else:
                name, src = a[1], a[2]
                layout = a[3] if len(a) > 3 else 'module'
                real = name
                if layout == 'package':
                    os.makedirs(os.path.join(d, name)); path = os.path.join(d, name, '__init__.py')
                elif layout == 'submodule':
                    os.makedirs(os.path.join(d, 'pk_' + name))
                    open(os.path.join(d, 'pk_' + name, '__init__.py'), 'w').close()
                    path = os.path.join(d, 'pk_' + name, name + '.py'); real = f'pk_{name}.{name}'
                elif layout == 'namespace':
                    # a namespace package: a directory without __init__.py
                    os.makedirs(os.path.join(d, 'ns_' + name))
                    path = os.path.join(d, 'ns_' + name, name + '.py'); real = f'ns_{name}.{name}'
                else:
                    path = os.path.join(d, name + '.py')
                with open(path, 'w') as f: f.write(src)
                importlib.invalidate_caches()
                try:
                    mod = importlib.import_module(real); r = 'ok'
                    # the last statement of every generated module that does not raise sets c20_done: an import that "succeeds" without it never ran the body
                    if 'c20_done = 1' in src and getattr(mod, 'c20_done', None) != 1: r = 'ok-but-body-not-executed'
                except BaseException as e:
                    r = type(e).__name__
                o = f'import {name}={r} registered={int(real in sys.modules)}'
            from deal._state import state as _st
            out.append(o + f' active={int(DealFinder in sys.meta_path)} enabled={int(bool(_st.debug))}')
    finally:
        sys.stdout = real_out
        shutil.rmtree(d, ignore_errors=True)
    return '|'.join(out)

def main():
    cases = json.load(sys.stdin)
    os.makedirs(ROOT, exist_ok=True)
    results = []
    for i, c in enumerate(cases):
        r, w = os.pipe()
        pid = os.fork()
        if pid == 0:
            os.close(r)
            try:
                signal.alarm(20); res = run(c, i)
            except BaseException as e:
                res = '<child crashed: ' + repr(e) + '>'
            with os.fdopen(w, 'w') as f: f.write(res)
            os._exit(0)
        os.close(w)
        with os.fdopen(r) as f: data = f.read()
        os.waitpid(pid, 0)
        results.append(data or '<child died>')
    json.dump(results, sys.stdout)

main()
