"""Execute a harness-supplied Python source against the real deal and call functions of it.
stdin: {"src": text, "calls": [[name, [args]]...]}; stdout: JSON list of results (or {"error": ...})."""
import sys, json, traceback, warnings
warnings.simplefilter('ignore')
req = json.load(sys.stdin)
ns = {}
exec(compile(req['src'], '<pyexec>', 'exec'), ns)
out = []
for name, args in req['calls']:
    try:
        out.append(ns[name](*args))
    except BaseException as e:
        out.append({'error': ''.join(traceback.format_exception_only(type(e), e)).strip()})
json.dump(out, sys.stdout, default=str)
