"""Execute a harness-supplied Python source against the real deal and call functions of it.
stdin: {"src": text, "calls": [[name, [args]]...]}; stdout: JSON list of results (or {"error": ...}).
Whatever the executed code prints goes to a buffer (a probe may exercise code that prints exactly when the code under test is
broken); the JSON result is written to the real standard output at the end."""
import sys, json, traceback, warnings, io
warnings.simplefilter('ignore')
req = json.load(sys.stdin)
real_out = sys.stdout
sys.stdout = io.TextIOWrapper(io.BytesIO(), encoding='utf-8', write_through=True)      # a real text stream object, not the terminal's
ns = {}
out = []
try:
    exec(compile(req['src'], '<pyexec>', 'exec'), ns)
    for name, args in req['calls']:
        try:
            out.append(ns[name](*args))
        except BaseException as e:
            out.append({'error': ''.join(traceback.format_exception_only(type(e), e)).strip()})
except BaseException as e:
    out = [{'error': 'module level: ' + ''.join(traceback.format_exception_only(type(e), e)).strip()}] * max(1, len(req.get('calls', [])))
json.dump(out, real_out, default=str)
real_out.flush()
