"""C04 tables on the implementation: for each marker list, the nine has_* properties of a real HasPatcher and the linter's
coverage decision for every documented marker (the very expression CheckMarkers.get_undeclared evaluates).
stdin: {"sets": [[markers]...], "doc_markers": [names]} ; stdout: list of strings."""
import sys, json, inspect, ast, textwrap
from deal._runtime._has_patcher import HasPatcher
from deal.linter import _rules

PRED = ['has_network', 'has_io', 'has_stdout', 'has_stderr', 'has_global', 'has_read', 'has_stdin', 'has_syscall', 'has_write']

# the linter's decision, taken from the source of CheckMarkers.get_undeclared itself (so a change there is seen here)
src = textwrap.dedent(inspect.getsource(_rules.CheckMarkers.get_undeclared.__func__))
fn = ast.parse(src).body[0]
loop = [n for n in fn.body if isinstance(n, ast.For)][0]
decide = ast.Module(body=[s for s in loop.body if not isinstance(s, (ast.Assert,)) and not (isinstance(s, ast.Expr) and isinstance(s.value, ast.Yield)) and not (isinstance(s, ast.If) and isinstance(s.body[0], ast.Continue))], type_ignores=[])
code = compile(ast.fix_missing_locations(decide), '<decide>', 'exec')

class Tok:
    def __init__(self, m): self.marker = m

def covers(has, m):
    ns = {'has': has, 'token': Tok(m), 'cls': _rules.CheckMarkers}
    exec(code, ns)
    return bool(ns['has_marker'])

req = json.load(sys.stdin)
out = []
for M in req['sets']:
    has = HasPatcher(M)
    out.append(''.join(('1' if getattr(has, p) else '0') if hasattr(has, p) else '-' for p in PRED) + '/' + ''.join('1' if covers(has, m) else '0' for m in req['doc_markers'])
               + '/' + ''.join('1' if covers(has, m) else '0' for m in getattr(_rules.CheckMarkers, 'aliases', {})))
json.dump(out, sys.stdout)
