"""C05 on the implementation: real classes decorated with deal.inv, driven through a history of operations.
stdin: list of cases {cls_attrs: {n: int}, invs: [{form, pred: [op, a, (b), k]}], init: [[n, v]], history: [op...], subclass: bool}
stdout: list of observation strings (same text as Sem/InvModel.show_history) plus monitor data."""
import sys, json, warnings
warnings.simplefilter('ignore')
import deal

def show(v):
    if v is None: return 'N'
    if isinstance(v, bool): return 'T' if v else 'F'
    if isinstance(v, int): return f'i{v}'
    if isinstance(v, str): return f's<{v}>'
    return '?'

def show_attrs(d): return '{' + ','.join(f'{k}:{show(d[k])}' for k in sorted(d)) + '}'

def mk_inv(i):
    p = i['pred']
    if i['form'] == 'explicit':
        if p[0] == 'ge': return lambda obj: getattr(obj, p[1]) >= p[2]
        if p[0] == 'le': return lambda obj: getattr(obj, p[1]) <= p[2]
        return lambda obj: getattr(obj, p[1]) + getattr(obj, p[2]) >= p[3]
    if p[0] == 'ge': return lambda _: getattr(_, p[1]) >= p[2]
    if p[0] == 'le': return lambda _: getattr(_, p[1]) <= p[2]
    return lambda _: getattr(_, p[1]) + getattr(_, p[2]) >= p[3]

def run(case):
    deal.enable()
    hist = case['history']
    ns = dict(case['cls_attrs'])
    def __init__(self):
        for n, v in case['init']: setattr(self, n, v)
    ns['__init__'] = __init__
    def call(self, sets, raises, ret):
        for n, v in sets: setattr(self, n, v)
        if raises: raise ValueError('body')
        return ret
    ns['call'] = call
    def inner(self, items, raises):
        for raw, n, v in items:
            if raw: self.__dict__[n] = v      # a change of the state that no __setattr__ sees
            else: setattr(self, n, v)
        if raises: raise ValueError('inner')
    def callb(self, body, raises, ret):
        for it in body:
            if it[0] == 'set': setattr(self, it[1], it[2])
            elif it[0] == 'raw': self.__dict__[it[1]] = it[2]
            else: self.inner(it[1], it[2])
        if raises: raise ValueError('body')
        return ret
    ns['inner'] = inner; ns['callb'] = callb
    for alias in ('patch', 'validate', 'deal', 'd', 'id', 'items', 'update'):      # the same method under other names (some collide with names the machinery uses)
        ns[alias] = call
    # the same method carrying other (satisfied) contracts: an invariant violation inside it is still the invariant's error
    ns['c_raises'] = deal.raises(ValueError)(call)
    ns['c_has'] = deal.has()(call)
    ns['c_pre'] = deal.pre(lambda self, sets, raises, ret: True)(deal.post(lambda r: True)(call))
    ns['smethod'] = staticmethod(lambda ret: ret)
    ns['cmethod'] = classmethod(lambda cls, ret: ret)
    ns['prop'] = property(lambda self: 42)
    Base = type('Plain', (), ns)
    K = Base
    split = case.get('split')
    if case.get('subclass') and split is not None:
        # a subclass of an invariant class that is decorated itself: it carries the inherited invariants and its own
        for i in case['invs'][:split]:
            K = deal.inv(mk_inv(i))(K)
        K = type('Sub', (K,), {})
        for i in case['invs'][split:]:
            K = deal.inv(mk_inv(i))(K)
    else:
        for i in case['invs']:
            K = deal.inv(mk_inv(i))(K)
        if case.get('subclass'):
            K = type('Sub', (K,), {})
    out = []
    try:
        obj = K()
        out.append('new ok')
    except deal.InvContractError:
        return 'new InvContractError ?', None
    except BaseException as e:
        return 'new exc ' + type(e).__name__ + ' ?', None
    meta = {'isinstance': isinstance(obj, Base), 'prop': obj.prop == 42}
    for op in hist:
        try:
            if op[0] == 'set': setattr(obj, op[1], op[2]); r = 'ok N'
            elif op[0] == 'call': r = 'ok ' + show(getattr(obj, op[4] if len(op) > 4 else 'call')(op[1], op[2], op[3]))
            elif op[0] == 'callb': r = 'ok ' + show(obj.callb(op[1], op[2], op[3]))
            elif op[0] == 'static': r = 'ok ' + show(obj.smethod(op[1]) if op[1] % 2 else obj.cmethod(op[1]))
            elif op[0] == 'switch':
                (deal.enable if op[1] else deal.disable)(); r = 'ok N'
        except deal.InvContractError:
            r = 'InvContractError'
        except BaseException as e:
            r = 'exc ' + type(e).__name__
        out.append(r + ' ' + show_attrs(vars(obj)))
    deal.enable()
    return '|'.join(out), meta

res = []
for c in json.load(sys.stdin):
    o, meta = run(c)
    res.append({'obs': o, 'meta': meta})
json.dump(res, sys.stdout)
