"""Implementation side of the scenario correspondence (DESIGN appendix A). Runs under /venv/bin/python with PYTHONPATH=/repo.
stdin: JSON list of scenarios; stdout: JSON list of observation strings (same text the Coq model prints).
Each scenario runs in a forked child of a warm parent, so corrupted process globals cannot leak."""
import sys, os, json, io, socket, inspect, warnings, traceback, signal
warnings.simplefilter('ignore')
import deal
from deal._runtime import _has_patcher
from deal import _state

REAL_SOCKET = socket.socket
SINK_OUT, SINK_ERR = io.StringIO(), io.StringIO()
REAL_STDOUT = sys.stdout


CREATED = set()


class Obj:
    def __init__(self, n):
        self.n = n
        CREATED.add(id(self))
    def __repr__(self): return f'o{self.n}'
    def __copy__(self): return object.__new__(Obj).__init_copy(self.n)
    def __deepcopy__(self, memo): return object.__new__(Obj).__init_copy(self.n)
    def _Obj__init_copy(self, n):
        self.n = n
        return self


def val(j):
    if j == 'N': return None
    if j == 'E': return inspect._empty
    if 'i' in j: return int(j['i'])
    if 's' in j: return j['s']
    if 'b' in j: return bool(j['b'])
    if 't' in j: return tuple(val(x) for x in j['t'])
    if 'd' in j: return {k: val(v) for k, v in j['d']}
    if 'o' in j: return Obj(j['o'])
    raise ValueError(j)


def show(v):
    if v is None: return 'N'
    if v is inspect._empty: return 'E'
    if v is True: return 'T'
    if v is False: return 'F'
    if isinstance(v, int): return f'i{v}'
    if isinstance(v, str): return f's<{v}>'
    if isinstance(v, tuple): return '(' + ','.join(show(x) for x in v) + ')'
    if isinstance(v, dict): return '{' + ','.join(f'{k}:{show(x)}' for k, x in v.items()) + '}'
    if isinstance(v, Obj): return f'o{v.n}' + ('' if id(v) in CREATED else '?copy')
    if inspect.isgenerator(v) or inspect.iscoroutine(v): return 'g'
    if isinstance(v, type): return f'c<{v.__name__}>'
    return f'?<{type(v).__name__}>'


def show_dict(d):
    return '{' + ','.join(f'{k}:{show(d[k])}' for k in sorted(d)) + '}'


class Suspend:
    def __await__(self):
        yield None


class World:
    def __init__(self):
        self.log = []
        self.reg = {}        # id(exception object) -> tag ; objects kept alive in self.keep
        self.keep = []
        self.classes = {}
        self.funcs = {}

    # ----- classes -----
    def cls(self, j):
        name = j['name']
        if name in self.classes: return self.classes[name]
        import builtins
        if hasattr(builtins, name): c = getattr(builtins, name)
        elif hasattr(deal, name): c = getattr(deal, name)
        else:
            bases = tuple(self.cls({'name': b, 'bases': []}) if isinstance(b, str) else self.cls(b) for b in j['bases'])
            c = type(name, bases, {})
        self.classes[name] = c
        return c

    def user_exn(self, cj, tag):
        e = self.cls(cj)(tag)
        self.reg[id(e)] = tag
        self.keep.append(e)
        return e

    # ----- expressions -----
    def ev(self, e, env):
        k = e[0]
        if k == 'const': return val(e[1])
        if k == 'var':
            if e[1] not in env: raise NameError(e[1])
            return env[e[1]]
        if k == 'attr':
            if '_' not in env: raise NameError('_')
            return getattr(env['_'], e[1])
        if k == 'bin':
            op = e[1]
            if op == 'and':
                x = self.ev(e[2], env); return self.ev(e[3], env) if x else x
            if op == 'or':
                x = self.ev(e[2], env); return x if x else self.ev(e[3], env)
            x, y = self.ev(e[2], env), self.ev(e[3], env)
            if op == 'eq': return x == y
            if op == 'ne': return x != y
            if op == 'gt': return x > y
            if op == 'ge': return x >= y
            if op == 'add': return x + y
            if op == 'sub': return x - y
            raise ValueError(op)
        if k == 'not': return not self.ev(e[1], env)
        if k == 'len': return len(self.ev(e[1], env))
        if k == 'isnone': return self.ev(e[1], env) is None
        if k == 'ormsg': return self.ev(e[1], env) or e[2]
        if k == 'raise': raise self.user_exn(e[1], e[2])
        if k == 'locals': return dict(env)
        raise ValueError(k)

    # ----- body scripts: generators so that yield / await can be interpreted uniformly -----
    def effect(self, kind):
        if kind == 'out':
            blocked = isinstance(sys.stdout, _has_patcher.PatchedStringIO)
            self.log.append(('K ' if blocked else 'E ') + 'out')
            print('x')
        elif kind == 'err':
            blocked = isinstance(sys.stderr, _has_patcher.PatchedStringIO)
            self.log.append(('K ' if blocked else 'E ') + 'err')
            if sys.stderr is not None: sys.stderr.write('x')
        else:
            blocked = isinstance(socket.socket, _has_patcher.PatchedSocket)
            self.log.append(('K ' if blocked else 'E ') + 'sock')
            s = socket.socket()
            s.close()

    def switch(self, op):
        if op == 'enable': deal.enable()
        elif op == 'disable': deal.disable()
        elif op == 'reset': deal.reset()
        elif op == 'perm': deal.disable(permament=True)

    def block(self, stmts, env, mode):
        """generator: yields ('yield', v) / ('await',) requests; returns ('ret', v) or None"""
        for s in stmts:
            k = s[0]
            if k == 'return': return ('ret', self.ev(s[1], env))
            elif k == 'raise': raise self.user_exn(s[1], s[2])
            elif k == 'effect': self.effect(s[1])
            elif k == 'call':
                a = [self.ev(x, env) for x in s[2]]
                kw = {n: self.ev(x, env) for n, x in s[3]}
                f = self.funcs[s[1]]
                if self.kinds.get(s[1]) == 'async':
                    co = f(*a, **kw)
                    r = yield ('await_co', co)
                    env['r'] = r
                else:
                    env['r'] = f(*a, **kw)
            elif k == 'yield':
                env['sent'] = yield ('yield', self.ev(s[1], env))
            elif k == 'await':
                yield ('await',)
            elif k == 'switch': self.switch(s[1])
            elif k == 'if':
                r = yield from self.block(s[2] if self.ev(s[1], env) else s[3], env, mode)
                if r is not None: return r
            elif k == 'assign': env[s[1]] = self.ev(s[2], env)
            elif k == 'tryexcept':
                try:
                    r = yield from self.block(s[1], env, mode)
                    if r is not None: return r
                except BaseException as ex:
                    if not isinstance(ex, self.cls({'name': s[2], 'bases': []})): raise
                    r = yield from self.block(s[3], env, mode)
                    if r is not None: return r
            elif k == 'tryfinally':
                try:
                    r = yield from self.block(s[1], env, mode)
                    if r is not None: return r
                finally:
                    r2 = yield from self.block(s[2], env, mode)
                    if r2 is not None: return r2
            else: raise ValueError(k)
        return None

    def run_sync(self, name, env):
        self.log.append(f'B {name} {show_dict(env)}')
        g = self.block(self.bodies[name], env, 'sync')
        try:
            req = next(g)
        except StopIteration as st:
            return st.value[1] if st.value else None
        raise RuntimeError('yield/await in a sync body: ' + repr(req))

    def run_gen(self, name, env):
        self.log.append(f'B {name} {show_dict(env)}')
        g = self.block(self.bodies[name], env, 'gen')
        r = yield from self._gen_bridge(g)
        return r

    def _gen_bridge(self, g):
        try:
            req = next(g)
        except StopIteration as st:
            return st.value[1] if st.value else None
        while True:
            pending = None
            try:
                sent = yield req[1]
            except GeneratorExit:
                g.close(); raise
            except BaseException as ex:
                pending = ex
            # the exception is thrown into the body only after this handler is left: otherwise whatever the body raises later
            # would carry it as __context__ (an artefact of the interpreter, not of the program it interprets)
            if pending is not None:
                try: req = g.throw(pending)
                except StopIteration as st: return st.value[1] if st.value else None
            else:
                try: req = g.send(sent)
                except StopIteration as st: return st.value[1] if st.value else None

    async def run_async(self, name, env):
        self.log.append(f'B {name} {show_dict(env)}')
        g = self.block(self.bodies[name], env, 'async')
        try:
            req = next(g)
        except StopIteration as st:
            return st.value[1] if st.value else None
        while True:
            pending = None
            try:
                if req[0] == 'await_co': res = await req[1]
                else: res = await Suspend()
            except BaseException as ex:
                pending = ex
            if pending is not None:
                try: req = g.throw(pending)
                except StopIteration as st: return st.value[1] if st.value else None
            else:
                try: req = g.send(res)
                except StopIteration as st: return st.value[1] if st.value else None

    # ----- definitions -----
    def sig_text(self, sig, ns):
        parts, seen_slash_needed, star_done = [], False, False
        kinds = [p[1] for p in sig]
        for i, (n, k, d) in enumerate(sig):
            dv = ''
            if d is not None:
                key = f'__d{len(ns)}'
                ns[key] = val(d); dv = f'={key}'
            if k == 'KwOnly' and not star_done and 'VarPos' not in kinds[:i]:
                parts.append('*'); star_done = True
            if k == 'VarPos': parts.append('*' + n); star_done = True
            elif k == 'VarKw': parts.append('**' + n)
            else: parts.append(n + dv)
            if k == 'PosOnly' and (i + 1 == len(sig) or sig[i + 1][1] != 'PosOnly'):
                parts.append('/')
        return ', '.join(parts)

    def mk_validator(self, v):
        ns = {'__w': self, '__e': v['expr'], '__id': v['id']}
        st = self.sig_text(v['sig'], ns)
        if [p[0] for p in v['sig']] == ['_']:
            src = f'lambda {st}: __w.validator_hook(__id, dict(_), {{"_": _}}, __e)'
        else:
            src = f'lambda {st}: __w.validator_hook(__id, dict(locals()), dict(locals()), __e)'
        return eval(src, ns)

    def validator_hook(self, vid, received, env, expr):
        received = {k: v for k, v in received.items() if not k.startswith('__')}
        env = {k: v for k, v in env.items() if not k.startswith('__')}
        self.log.append(f'V {vid} {show_dict(received)}')
        return self.ev(expr, env)

    def excspec(self, x):
        if x is None: return None
        c = self.cls(x[1])
        return c if x[0] == 'class' else c(*[val(a) for a in x[2]])

    def define(self, sc):
        self.bodies, self.kinds = {}, {}
        for f in sc['funs']:
            ns = {'__w': self, '__name': f['name']}
            st = self.sig_text(f['sig'], ns)
            names = [p[0] for p in f['sig']]
            envexpr = '{' + ', '.join(f'{n!r}: {n}' for n in names) + '}'
            if f['kind'] == 'sync':
                src = f'def {f["name"]}({st}):\n    return __w.run_sync(__name, {envexpr})\n'
            elif f['kind'] == 'gen':
                src = f'def {f["name"]}({st}):\n    return (yield from __w.run_gen(__name, {envexpr}))\n'
            else:
                src = f'async def {f["name"]}({st}):\n    return await __w.run_async(__name, {envexpr})\n'
            if f.get('clone_of'):
                # the same code object as the function it is cloned from, with its own defaults (what a factory / a loop over `def` produces)
                import types
                base = self.raw[f['clone_of']]
                g2 = dict(base.__globals__); g2['__name'] = f['name']
                posd = tuple(val(p[2]) for p in f['sig'] if p[1] in ('PosOnly', 'PosOrKw') and p[2] is not None)
                fn = types.FunctionType(base.__code__, g2, f['name'], posd or None, base.__closure__)
                kwd = {p[0]: val(p[2]) for p in f['sig'] if p[1] == 'KwOnly' and p[2] is not None}
                if kwd: fn.__kwdefaults__ = kwd
            else:
                exec(src, ns)
                fn = ns[f['name']]
            self.raw = getattr(self, 'raw', {}); self.raw[f['name']] = fn
            self.bodies[f['name']] = f['body']; self.kinds[f['name']] = f['kind']
            for it in f['stack']:
                k = it[0]
                if k in ('pre', 'post', 'ensure'):
                    v = it[1]
                    dec = getattr(deal, k)(self.mk_validator(v), message=v['msg'], exception=self.excspec(v['exc']))
                elif k == 'raises':
                    dec = deal.raises(*[self.cls(c) for c in it[2]], message=it[3], exception=self.excspec(it[4]))
                elif k == 'reason':
                    v = it[2]
                    dec = deal.reason(self.cls(it[1]), self.mk_validator(v), message=v['msg'], exception=self.excspec(v['exc']))
                elif k == 'has':
                    dec = deal.has(*it[2], message=it[3], exception=self.excspec(it[4]))
                else: raise ValueError(k)
                fn = dec(fn)
            self.funcs[f['name']] = fn
        for name, impls in sc.get('dispatch', []):
            ns = {}
            exec(f'def {name}(*args, **kwargs):\n    pass\n', ns)
            d = deal.dispatch(ns[name])
            for i in impls:
                d.register(self.funcs[i])
            self.funcs[name] = d
            self.kinds[name] = 'sync'

    # ----- composition scenarios: shared contract objects, chain, foreign decorators -----
    def define_obj(self, sc):
        import functools
        from deal._runtime._validators import Validator
        from deal._runtime._has_patcher import HasPatcher
        self.bodies, self.kinds, self.cid_of = {}, {}, {}
        decs = {}
        for cid, it in sc['contracts']:
            k = it[0]
            if k in ('pre', 'post', 'ensure'):
                v = dict(it[1], id=cid)
                dec = getattr(deal, k)(self.mk_validator(v), message=v['msg'], exception=self.excspec(v['exc']))
            elif k == 'raises':
                dec = deal.raises(*[self.cls(c) for c in it[2]], message=it[3], exception=self.excspec(it[4]))
            elif k == 'reason':
                v = dict(it[2], id=cid)
                dec = deal.reason(self.cls(it[1]), self.mk_validator(v), message=v['msg'], exception=self.excspec(v['exc']))
            elif k == 'has':
                dec = deal.has(*it[2], message=it[3], exception=self.excspec(it[4]))
            else: raise ValueError(k)
            for cell in dec.__closure__ or ():
                if isinstance(cell.cell_contents, (Validator, HasPatcher)):
                    self.cid_of[id(cell.cell_contents)] = cid
            decs[cid] = dec
        self.keep.append(decs)
        def foreign(tag, wraps):
            def deco(fn):
                def inner(*args, **kwargs):
                    self.log.append(f'F {tag}')
                    return fn(*args, **kwargs)
                return functools.wraps(fn)(inner) if wraps else inner
            return deco
        chains = {}
        for f in sc['funs']:
            ns = {'__w': self, '__name': f['name']}
            st = self.sig_text(f['sig'], ns)
            names = [p[0] for p in f['sig']]
            envexpr = '{' + ', '.join(f'{n!r}: {n}' for n in names) + '}'
            exec(f'def {f["name"]}({st}):\n    return __w.run_sync(__name, {envexpr})\n', ns)
            fn = ns[f['name']]
            self.bodies[f['name']] = f['body']; self.kinds[f['name']] = 'sync'
            for b in f['build']:
                if b[0] == 'use': fn = decs[b[1]](fn)
                elif b[0] == 'wraps': fn = foreign(b[1], True)(fn)
                elif b[0] == 'plain': fn = foreign(b[1], False)(fn)
                elif b[0] == 'chain':
                    key = b[2] if len(b) > 2 else None
                    if key is None or key not in chains:
                        ch = deal.chain(*[decs[c] for c in b[1]])
                        if key is not None: chains[key] = ch
                    else:
                        ch = chains[key]
                    fn = ch(fn)
                else: raise ValueError(b)
            self.funcs[f['name']] = fn

    def answer(self, q):
        import deal.introspection as di
        kind, name = q
        f = self.funcs[name]
        if kind == 'contracts':
            out = []
            for r in di.get_contracts(f):
                w = r._patcher if isinstance(r, di.Has) else r._wrapped
                out.append(f'{type(r).__name__.lower()}:{self.cid_of.get(id(w), "?")}')
            return f'Q contracts {name} ' + ','.join(out)
        u = di.unwrap(f)
        nm = getattr(u, '__name__', '?')
        return f'Q unwrap {name} ' + (nm if nm in self.bodies and getattr(u, '__wrapped__', None) is None and nm != 'inner' else ('foreign' if nm == 'inner' or hasattr(u, '__wrapped__') else nm))

    # ----- observations -----
    def rel(self, x):
        if x is None: return '-'
        return f't{self.reg[id(x)]}' if id(x) in self.reg else 'o'

    def show_exn(self, e):
        tag = str(self.reg[id(e)]) if id(e) in self.reg and e.args == (self.reg[id(e)],) else '-'
        out = f'X {type(e).__name__} tag={tag}'
        if isinstance(e, deal.NoMatchError):
            names = tuple(getattr(x.origin, '__name__', None) for x in e.exceptions)
            out += ' args=[' + show(names) + ']'
        elif isinstance(e, deal.ContractError):
            o = e.origin
            out += f' msg=<{e.message}> params={show_dict(e.params)} origin={getattr(o, "__name__", "-") if o is not None else "-"}'
        else:
            if isinstance(e, (TypeError, NameError, KeyError)) and tag == '-':
                out += ' args=*'
            else:
                out += ' args=[' + ','.join(show(a) for a in e.args) + ']'
        ctx = self.rel(e.__context__)
        out += f' cause={self.rel(e.__cause__)} ctx={"-" if ctx == "o" else ctx}'
        if getattr(self, 'probes', False):
            import pickle
            try:
                t = str(e); ok = isinstance(t, str)
                out += ' str=' + ('ok' if ok else 'err')
            except BaseException as x:
                out += ' str=err:' + type(x).__name__
            try:
                e2 = pickle.loads(pickle.dumps(e))
                out += ' pickle=' + ('ok' if type(e2) is type(e) and e2.args == e.args else 'changed')
            except BaseException as x:
                out += ' pickle=err:' + type(x).__name__
        return out

    def snapshot(self):
        st = _state.state
        return 'S ' + ''.join('1' if b else '0' for b in (st.debug, st.removed, sys.stdout is SINK_OUT, sys.stderr is SINK_ERR, socket.socket is REAL_SOCKET))

    def pump(self, co):
        while True:
            try: co.send(None)
            except StopIteration as st: return st.value

    def drive(self, sc):
        self.probes = bool(sc.get('probes'))
        out, vars = [], {}
        for a in sc['driver']:
            k = a[0]
            try:
                if k == 'call':
                    r = self.funcs[a[1]](*[val(x) for x in a[2]], **{n: val(x) for n, x in a[3]})
                    if inspect.iscoroutine(r): r = self.pump(r)
                    o = 'R ' + show(r)
                elif k in ('gennew', 'conew'):
                    vars[a[1]] = self.funcs[a[2]](*[val(x) for x in a[3]], **{n: val(x) for n, x in a[4]})
                    o = 'R g'
                elif k in ('next', 'send', 'throw'):
                    g = vars[a[1]]
                    try:
                        if k == 'next': v = g.send(None)
                        elif k == 'send': v = g.send(val(a[2]))
                        else: v = g.throw(self.user_exn(a[2], a[3]))
                        o = 'Y ' + show(v)
                    except StopIteration as st:
                        o = 'STOP ' + show(st.value)
                elif k == 'close':
                    vars[a[1]].close(); o = 'R N'
                elif k == 'switch':
                    self.switch(a[1]); o = 'R N'
                else: raise ValueError(k)
            except BaseException as e:
                if isinstance(e, (ValueError,)) and not id(e) in self.reg and str(e) in ('call', k):
                    raise
                o = self.show_exn(e)
            out += self.log; self.log = []
            out.append(o); out.append(self.snapshot())
        return '|'.join(out)


def run_one(sc):
    global SINK_OUT, SINK_ERR
    w = World()
    if sc.get('null_streams'):
        SINK_OUT = SINK_ERR = None      # a process without standard streams (pythonw, a daemon): None is the value to restore
    sys.stdout, sys.stderr = SINK_OUT, SINK_ERR
    try:
        if 'contracts' in sc:
            w.define_obj(sc)
            return '|'.join([w.drive(sc)] + [w.answer(q) for q in sc.get('queries', [])])
        w.define(sc)
        return w.drive(sc)
    except BaseException as e:
        return '<harness error: ' + ''.join(traceback.format_exception_only(type(e), e)).strip().replace('\n', ' ') + '>'


def main():
    scs = json.load(sys.stdin)
    # warm-up: lazy imports of deal's validation path
    @deal.pre(lambda x: x > 0)
    def _w(x): return x
    _w(1)
    results = []
    for sc in scs:
        r, wfd = os.pipe()
        pid = os.fork()
        if pid == 0:
            os.close(r)
            try:
                signal.alarm(20)
                res = run_one(sc)
            except BaseException as e:
                res = '<child crashed: ' + repr(e) + '>'
            with os.fdopen(wfd, 'w') as f:
                f.write(res)
            os._exit(0)
        os.close(wfd)
        with os.fdopen(r) as f:
            data = f.read()
        _, status = os.waitpid(pid, 0)
        results.append(data if data else f'<child died status={status}>')
    sys.stdout = REAL_STDOUT
    json.dump(results, sys.stdout)


if __name__ == '__main__':
    main()
