"""C19 on the implementation: deal's decorate transformation on module sources.
stdin: list of cases {src, types: [...], quote}; stdout: list of results:
  lines   : the original lines (terminators stripped)
  descr   : what the planner model takes as input: module body statements, and per function (in Func.from_astroid order) position,
            decorators, existing contracts, and what the linter rules report as still undeclared
  plan    : the mutations handed to _apply_mutations (before the sort), canonical text; None when transform() raised
  out     : the output lines; exc: the exception class name when transform() raised
  mon     : monitor data computed with Python's own parser / the linter: parses, normalised-AST equality, docstring, declarations kept,
            passes to the fixpoint, monotone growth, findings left at the fixpoint, names defined by executing both modules"""
import sys, os, json, ast, warnings, io, contextlib
warnings.simplefilter('ignore')
from pathlib import Path
import astroid
from deal.linter._transformer import Transformer, TransformationType, AppendText, InsertText, InsertContract, Remove
from deal.linter._func import Func
from deal.linter._rules import CheckRaises, CheckMarkers
from deal.linter._contract import Category
from deal.linter._extractors import get_value

CATS = {'raises': 'raises', 'safe': 'safe', 'pure': 'pure', 'has': 'has'}


def exc_str(e): return e if isinstance(e, str) else (getattr(e, '__name__', None) or repr(e))


def canon(m):
    if isinstance(m, AppendText): return f'A {m.line} {m.text}'
    if isinstance(m, InsertText): return f'T {m.line} {m.text}'
    if isinstance(m, InsertContract): return f'C {m.line} {m.contract.value} {m.indent} [{"; ".join(m.args)}]'
    if isinstance(m, Remove): return f'R {m.line}'
    return f'? {m!r}'


def plines(text):
    """the lines of a source text as the Python parser counts them (not str.splitlines, which also splits on form feeds)"""
    return io.StringIO(text, newline='').readlines()


def describe(src):
    tree = astroid.parse(src, path=Path('mod.py'))
    body = []
    for st in tree.body:
        # the line is the last line of the statement; a name imported under an alias is shown as such (it does not bind `deal`)
        if isinstance(st, astroid.Import): body.append(['I', st.end_lineno or st.lineno, [n if a in (None, n) else f'{n} as {a}' for n, a in st.names]])
        elif isinstance(st, astroid.ImportFrom): body.append(['F', st.end_lineno or st.lineno, st.modname])
        else: body.append(['O'])
    funcs = []
    for func in Func.from_astroid(tree):
        decos = []
        if func.node.decorators is not None:
            for d in func.node.decorators.nodes:
                if isinstance(d, astroid.Name): decos.append(['N', d.lineno, d.name])
                elif isinstance(d, astroid.Attribute) and d.as_string() == 'deal.inherit': decos.append(['H', d.lineno])
                else: decos.append(['O', d.lineno])
        contracts = []
        for c in func.contracts:
            markers = []
            for arg in c.args:
                v = get_value(arg)
                if isinstance(v, str): markers.append(v)
            last = c.line
            if func.node.decorators is not None:
                for d in func.node.decorators.nodes:
                    if d.lineno == c.line and d.end_lineno: last = d.end_lineno
            contracts.append({'cat': CATS.get(c.category.value, 'other'), 'line': c.line, 'last': last, 'inherited': bool(getattr(c, 'inherited', False)),
                              'excs': [exc_str(e) for e in c.exceptions] if c.category.value in ('raises', 'safe', 'pure') else [],
                              'markers': markers if c.category.value in ('has', 'pure') else []})
        declared = []
        for c in func.contracts:
            if c.category in (Category.RAISES, Category.SAFE, Category.PURE): declared.extend(c.exceptions)
        new_excs = sorted({e.value for e in CheckRaises().get_undeclared(func, declared)})
        dm = []
        for c in func.contracts:
            if c.category in (Category.HAS, Category.PURE):
                for arg in c.args:
                    v = get_value(arg)
                    if isinstance(v, str): dm.append(v)
        new_markers = sorted({e.value for e in CheckMarkers().get_undeclared(func, set(dm))})
        funcs.append({'name': func.name, 'line': func.line, 'col': func.col, 'decos': decos, 'contracts': contracts,
                      'new_excs': new_excs, 'new_markers': new_markers})
    return {'body': body, 'funcs': funcs, 'doc_end': tree.doc_node.end_lineno if tree.doc_node is not None else None, 'shebang': src.startswith('#!')}


def transform(src, types, quote, capture=None):
    t = Transformer(content=src, path=Path('mod.py'), types={TransformationType(x) for x in types}, mutations=[], quote=quote)
    if capture is not None:
        orig = Transformer._apply_mutations
        def spy(self, content):
            capture.extend(canon(m) for m in self.mutations)
            return orig(self, content)
        Transformer._apply_mutations = spy
        try: return t.transform()
        finally: Transformer._apply_mutations = orig
    return t.transform()


def is_deal_deco(d):
    f = d.func if isinstance(d, ast.Call) else d
    return isinstance(f, ast.Attribute) and isinstance(f.value, ast.Name) and f.value.id == 'deal'


def normalised(src):
    tree = ast.parse(src)
    for node in ast.walk(tree):
        if isinstance(node, (ast.FunctionDef, ast.AsyncFunctionDef)):
            node.decorator_list = [d for d in node.decorator_list if not is_deal_deco(d)]
    tree.body = [s for s in tree.body if not (isinstance(s, ast.Import) and [a.name for a in s.names] == ['deal'] and s.names[0].asname is None)]
    return ast.dump(tree, include_attributes=False)


def declarations(src):
    """function name -> (set of declared exception names, set of declared markers, has raises-family contract, has has-family contract)"""
    out = {}
    for func in Func.from_text(src):
        ex, mk = set(), set()
        for c in func.contracts:
            if c.category in (Category.RAISES, Category.SAFE, Category.PURE):
                ex |= {exc_str(e) for e in c.exceptions}
                # a starred argument declares whatever the sequence holds: it has to stay (as text)
                for a in c.args:
                    if type(a).__name__ == 'Starred':
                        try: ex.add('*' + (a.value.as_string() if hasattr(a.value, 'as_string') else ast.unparse(a.value)))
                        except Exception: ex.add('*?')
            if c.category in (Category.HAS, Category.PURE):
                for arg in c.args:
                    v = get_value(arg)
                    if isinstance(v, str): mk.add(v)
        key = f'{func.name}@{len([k for k in out if k.split("@")[0] == func.name])}'
        out[key] = [sorted(ex), sorted(mk)]
    return out


def findings(src):
    res = []
    for func in Func.from_text(src):
        for rule in (CheckRaises(), CheckMarkers()):
            for e in rule(func):
                res.append(f'{func.name}: DEL{e.code:03d} {e.text} ({e.value})')
    return res


def defined_names(src):
    ns = {'__name__': 'c19_mod'}
    with contextlib.redirect_stdout(io.StringIO()), contextlib.redirect_stderr(io.StringIO()):
        exec(compile(src, 'mod.py', 'exec'), ns)
    return sorted((k, type(v).__name__) for k, v in ns.items() if not k.startswith('__') and k != 'deal')


def probe(src, expr):
    ns = {'__name__': 'c19_mod'}
    with contextlib.redirect_stdout(io.StringIO()), contextlib.redirect_stderr(io.StringIO()):
        exec(compile(src, 'mod.py', 'exec'), ns)
        try: return ['ok', repr(eval(expr, ns))[:80]]
        except BaseException as e: return ['exc', type(e).__name__]


def run(case):
    src, types, quote = case['src'], case['types'], case.get('quote', "'")
    res = {'lines': [l.rstrip('\n') for l in plines(src)]}
    try:
        res['descr'] = describe(src)
    except Exception as e:
        res['descr'] = None; res['descr_error'] = repr(e)
    cap = []
    try:
        out = transform(src, types, quote, cap)
        res['plan'] = cap; res['out'] = [l.rstrip('\n') for l in plines(out)]; res['exc'] = None
    except Exception as e:
        res['plan'] = None; res['out'] = None; res['exc'] = type(e).__name__ + ': ' + str(e)[:200]
        res['mon'] = {'crash': res['exc']}
        return res
    mon = {}
    try:
        ast.parse(out); mon['parses'] = True
    except SyntaxError as e:
        mon['parses'] = False; mon['syntax_error'] = f'{e.msg} at line {e.lineno}'
        res['mon'] = mon
        return res
    mon['ast_equal'] = normalised(out) == normalised(src)
    mon['shebang_kept'] = (not src.startswith('#!')) or out.split('\n')[0] == src.split('\n')[0]
    mon['docstring_kept'] = ast.get_docstring(ast.parse(src)) == ast.get_docstring(ast.parse(out))
    try:
        before, after = declarations(src), declarations(out)
        lost = []
        for k, (ex, mk) in before.items():
            a = after.get(k)
            if a is None: lost.append(f'{k}: function lost'); continue
            if not set(ex) <= set(a[0]): lost.append(f'{k}: exceptions {sorted(set(ex) - set(a[0]))} no longer declared')
            if not set(mk) <= set(a[1]): lost.append(f'{k}: markers {sorted(set(mk) - set(a[1]))} no longer declared')
        mon['lost'] = lost
        # repeated application: growth and fixpoint
        cur, passes, grow_ok, hist = out, 1, True, [after]
        while passes < 8:
            try:
                nxt = transform(cur, types, quote)
            except Exception as e:
                mon['later_pass_crash'] = f'pass {passes + 1}: {type(e).__name__}: {e}'; break
            if nxt == cur: break
            try: ast.parse(nxt)
            except SyntaxError as e:
                mon['later_pass_syntax'] = f'pass {passes + 1}: {e.msg} at line {e.lineno}'; break
            d = declarations(nxt)
            for k, (ex, mk) in hist[-1].items():
                if k not in d or not set(ex) <= set(d[k][0]) or not set(mk) <= set(d[k][1]): grow_ok = False
            hist.append(d); cur = nxt; passes += 1
        mon['passes'] = passes; mon['fixpoint'] = passes < 8 and 'later_pass_crash' not in mon and 'later_pass_syntax' not in mon
        mon['monotone'] = grow_ok
        if mon['fixpoint'] and set(types) >= {'raises', 'has', 'safe', 'pure', 'import'}:
            mon['findings_at_fixpoint'] = findings(cur)
        try:
            before_names = defined_names(src)
        except BaseException as e:
            before_names = None; mon['exec_error'] = repr(e)[:200]
        if before_names is not None:
            try:
                mon['same_definitions'] = before_names == defined_names(cur)
            except BaseException as e:
                mon['new_exec_error'] = repr(e)[:200]      # the original module executes, the transformed one does not
        # behaviour probes of hand-written cases: the same expression evaluated in both modules
        if case.get('probes') and before_names is not None and 'new_exec_error' not in mon:
            diffs = []
            for pr in case['probes']:
                a, b = probe(src, pr), probe(cur, pr)
                if a != b: diffs.append(f'{pr}: original {a}, transformed {b}')
            mon['probe_diffs'] = diffs
    except Exception as e:
        mon['monitor_error'] = repr(e)[:300]
    res['mon'] = mon
    return res


def main():
    cases = json.load(sys.stdin)
    out = []
    for c in cases:
        try: out.append(run(c))
        except BaseException as e: out.append({'harness_error': repr(e)[:300]})
    json.dump(out, sys.stdout)


main()
