"""C17 on the implementation. stdin: list of cases {src, items}. For each case:
  lint  : findings (code, row, col, text, value) of the linter on the module through the ast back-end (stdin) and the astroid back-end (file)
  items : for every described check the verdict of the *runtime*: the same validator, wrapped by the real decorator around a stand-in
          with the function's signature, called with the same values: 'accept' | ['reject', message or None] | ['crash', class]"""
import sys, os, json, ast, warnings, shutil, io, contextlib
warnings.simplefilter('ignore')
from pathlib import Path
import deal
from deal.linter import Checker

ROOT = os.path.join(os.path.dirname(os.path.dirname(os.path.dirname(os.path.abspath(__file__)))), '_build', 'tmp')


def lint(mk):
    try:
        with contextlib.redirect_stdout(io.StringIO()):
            return [[e.code, e.row, e.col, e.text, e.value] for e in mk().get_errors() if e.code in (11, 12, 13)]
    except BaseException as e:
        import traceback
        return {'crash': type(e).__name__ + ': ' + str(e)[:200] + ' @ ' + traceback.format_exc()[-500:]}


def verdict(call, exc_type):
    try:
        call()
        return 'accept'
    except exc_type as e:
        a = e.args[0] if e.args else None
        return ['reject', a if (a is None or isinstance(a, str)) else repr(a)]
    except BaseException as e:
        return ['crash', type(e).__name__]


def standin(sig, result_src, ns):
    exec(f'def standin({sig}):\n    return {result_src}\n', ns)
    return ns['standin']


def runtime(item, helpers):
    ns = {'deal': deal}
    exec(helpers, ns)
    kind = item['kind']
    out = []
    if kind == 'post':
        for v in item['validators']:
            try: val = eval(v, ns)
            except BaseException as e: out.append(['crash', type(e).__name__]); continue
            f = deal.post(val)(standin('', item['value'], ns))
            out.append(verdict(lambda: f(), deal.PostContractError))
    else:
        args = [eval(a, ns) for a in item['args']]
        kwargs = {k: eval(a, ns) for k, a in item['kwargs'].items()}
        for cat, v in item['validators']:
            if cat == 'post':
                if item.get('result') is None: out.append('skip'); continue
                try: val = eval(v, ns)
                except BaseException as e: out.append(['crash', type(e).__name__]); continue
                f = deal.post(val)(standin('', item['result'], ns))
                out.append(verdict(lambda: f(), deal.PostContractError)); continue
            if cat == 'ensure' and item.get('result') is None: out.append('skip'); continue
            try: val = eval(v, ns)
            except BaseException as e: out.append(['crash', type(e).__name__]); continue
            if cat == 'pre':
                f = deal.pre(val)(standin(item['sig'], '0', ns))
                out.append(verdict(lambda: f(*args, **kwargs), deal.PreContractError))
            else:
                f = deal.ensure(val)(standin(item['sig'], item['result'], ns))
                out.append(verdict(lambda: f(*args, **kwargs), deal.PostContractError))
    return out


def main():
    cases = json.load(sys.stdin)
    os.makedirs(ROOT, exist_ok=True)
    d = os.path.join(ROOT, f'c17_{os.getpid()}')
    shutil.rmtree(d, ignore_errors=True); os.makedirs(d)
    out = []
    try:
        for i, c in enumerate(cases):
            import astroid
            astroid.manager.AstroidManager().clear_cache()
            p = os.path.join(d, f'mod17_{i}.py')
            open(p, 'w').write(c['src'])
            r = {'ast': lint(lambda: Checker(tree=ast.parse(c['src']))), 'astroid': lint(lambda: Checker.from_path(Path(p)))}
            items = []
            for it in c['items']:
                try: items.append(runtime(it, c.get('helpers', '')))
                except BaseException as e: items.append({'harness_error': repr(e)[:300]})
            r['items'] = items
            out.append(r)
    finally:
        shutil.rmtree(d, ignore_errors=True)
    json.dump(out, sys.stdout)


main()
