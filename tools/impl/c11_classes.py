"""C11 on the implementation: build real class hierarchies with contracted / inherit-marked methods and report, per query (class, method):
the contract ids get_contracts reports on the resolved method (in order), the ids actually enforced by calls (first and second call), what
the body sees as self, and the MRO. stdin: list of {"classes": [{name, bases, methods: [[mname, {contracts: [cid], inherit: bool, via_class}]]}], queries: [[cls, m]]}."""
import sys, json, warnings
warnings.simplefilter('ignore')
import deal
import deal.introspection as di

def run(case):
    use = (lambda g: next(iter(g))) if case.get('gen_methods') else (lambda v: v)
    env = {}
    cid_of = {}
    out = []
    kinds = {int(k): v for k, v in case.get('kinds', {}).items()}
    raises_ids = sorted(k for k, v in kinds.items() if v == 'raises')
    excs = {cid: type(f'E{cid}', (Exception,), {}) for cid in raises_ids}
    for c in case['classes']:
        body = {}
        for mname, md in c['methods']:
            def mk(mname=mname, cname=c['name']):
                if case.get('gen_methods'):
                    def m(self, x):
                        if isinstance(x, tuple) and x[0] == 'raise': raise excs[x[1]]()
                        yield ('body', cname, mname, self, x)
                else:
                    def m(self, x):
                        if isinstance(x, tuple) and x[0] == 'raise': raise excs[x[1]]()
                        return ('body', cname, mname, self, x)
                m.__name__ = mname
                return m
            fn = mk()
            for cid in md['contracts']:
                if kinds.get(cid) == 'raises':
                    # a raises contract that forbids exactly its own exception class among the scenario's classes
                    dec = deal.raises(*[excs[j] for j in raises_ids if j != cid])
                elif kinds.get(cid) == 'post':
                    dec = deal.post((lambda cid: (lambda r: r[4] != ('out', cid)))(cid))
                elif kinds.get(cid) == 'ensure':
                    dec = deal.ensure((lambda cid: (lambda _: _.result[4] != ('out', cid)))(cid))
                else:
                    dec = deal.pre((lambda cid: (lambda self, x: x != cid))(cid))
                for cell in dec.__closure__ or ():
                    if type(cell.cell_contents).__name__ in ('Validator', 'RaisesValidator'): cid_of[id(cell.cell_contents)] = cid
                fn = dec(fn)
            if md['inherit'] and not c.get('inherit_class'):
                fn = deal.inherit(fn)
            body[mname] = fn
        if case.get('falsy') and not c['bases']:
            body['__bool__'] = lambda self: False        # instances whose truth value is False (an empty container)
        cls = type(c['name'], tuple(env[b] for b in c['bases']), body)
        if c.get('inherit_class'):
            cls = deal.inherit(cls)
        env[c['name']] = cls
    for cname, mname in case['queries']:
        cls = env[cname]
        if case.get('first_disabled'):
            deal.disable()        # the very first lookup of the method (the one that patches it) happens while contracts are disabled
            try: getattr(cls(), mname, None)
            except BaseException: pass
            finally: deal.enable()
        if not any(mname in vars(k) for k in cls.__mro__):       # (not hasattr: the first look-up shall be the one through the instance)
            out.append({'line': f'{cname}.{mname}= mro=' + '>'.join(k.__name__ for k in cls.__mro__), 'enforced_first': [], 'enforced_second': [], 'self_first': [], 'self_second': []})
            continue
        all_ids = sorted({cid for c in case['classes'] for _, md in c['methods'] for cid in md['contracts']})
        inst = cls()
        if case.get('first_disabled'):
            # the first lookup / call of the method happens while contracts are disabled; afterwards they are enabled again
            deal.disable()
            try: use(getattr(inst, mname)(10**6))
            except BaseException: pass
            finally: deal.enable()
        res = {}
        for attempt in (1, 2):
            enforced = []
            selfs = set()
            for cid in all_ids + [10**6]:
                try:
                    if kinds.get(cid) == 'raises':
                        use(getattr(inst, mname)(('raise', cid))); continue
                    r = use(getattr(inst, mname)(('out', cid) if kinds.get(cid) in ('post', 'ensure') else cid))
                    selfs.add('instance' if r[3] is inst else ('class' if r[3] is cls else 'other'))
                except deal.PreContractError:
                    enforced.append(cid)
                except (deal.RaisesContractError, deal.PostContractError):
                    enforced.append(cid)
                except BaseException as e:
                    if not (kinds.get(cid) == 'raises' and isinstance(e, excs[cid])):
                        selfs.add('error:' + type(e).__name__)
            res[attempt] = (enforced, sorted(selfs))
        got = list(di.get_contracts(getattr(cls, mname)))
        recs = [cid_of.get(id(r._wrapped), '?') for T in (di.Pre, di.Post, di.Ensure, di.Raises) for r in got if type(r) is T]
        mro = '>'.join(k.__name__ for k in cls.__mro__)
        out.append({'line': f'{cname}.{mname}=' + ','.join(str(x) for x in recs) + ' mro=' + mro,
                    'enforced_first': res[1][0], 'enforced_second': res[2][0], 'self_first': res[1][1], 'self_second': res[2][1]})
    return out

json.dump([run(c) for c in json.load(sys.stdin)], sys.stdout)
