"""C16 on the implementation. stdin: {'files': [{'name', 'src'}], 'cli': bool}. For every file:
  ast    : findings of Checker(tree=ast.parse(src)) (filename stdin: the ast back-end), two runs
  astroid: findings of Checker.from_path (the astroid back-end), two runs; run() (flake8 style) tuples
  rules  : the findings of the function rules before the driver (rule(func, stubs) for every func), and the noqa codes of their rows
  errors : exceptions raised anywhere (class name + message)
and for the whole directory: the CLI (plain --nocolor and --json): exit status, printed findings."""
import sys, os, json, ast, warnings, shutil, io, contextlib, subprocess
warnings.simplefilter('ignore')
from pathlib import Path
from deal.linter import Checker
from deal.linter._rules import FuncRule

ROOT = os.path.join(os.path.dirname(os.path.dirname(os.path.dirname(os.path.abspath(__file__)))), '_build', 'tmp')


def show(e): return [e.row, e.col, e.code, e.text, e.value]


def lint(mk):
    try:
        ch = mk()
        with contextlib.redirect_stdout(io.StringIO()) as out:
            errs = [show(e) for e in ch.get_errors()]
        return {'findings': errs, 'printed': out.getvalue()[:200]}
    except BaseException as e:
        import traceback
        return {'crash': type(e).__name__ + ': ' + str(e)[:200], 'where': traceback.format_exc()[-700:]}


def main():
    job = json.load(sys.stdin)
    d = os.path.join(ROOT, f'c16_{os.getpid()}')
    shutil.rmtree(d, ignore_errors=True); os.makedirs(d)
    out = {'files': []}
    os.chdir(d); sys.path.insert(0, d)        # as for the CLI runs below: imports between the files of the directory resolve
    try:
        for f in job['files']:
            p = os.path.join(d, f['name'])
            with open(p, 'w', encoding=f.get('encoding', 'utf8')) as fh: fh.write(f['src'])
            r = {'name': f['name'], 'nlines': f['src'].count('\n') + 1, 'lens': [len(l) for l in f['src'].split('\n')]}
            try:
                tree = ast.parse(f['src'])
            except SyntaxError:
                r['invalid'] = True; out['files'].append(r); continue
            r['ast'] = [lint(lambda: Checker(tree=ast.parse(f['src']))) for _ in range(2)]
            r['astroid'] = [lint(lambda: Checker.from_path(Path(p))) for _ in range(2)]
            # flake8 with --stdin-display-name: the tree of a file that is not on the disk under that name
            r['display_name'] = lint(lambda: Checker(filename=os.path.join(d, 'no_such_dir', f['name']), tree=ast.parse(f['src'])))
            r['as_cli'] = lint(lambda: Checker(filename=p, tree=ast.parse(f['src'])))      # how the lint command builds its checker: no tokens, hence no noqa filter
            try:
                with contextlib.redirect_stdout(io.StringIO()):
                    r['run'] = [[t[0], t[1], t[2], t[3].__name__] for t in Checker.from_path(Path(p)).run()]
            except BaseException as e:
                r['run_crash'] = type(e).__name__ + ': ' + str(e)[:200]
            # the rule level (input of the driver model) and the noqa oracle
            try:
                ch = Checker.from_path(Path(p))
                rule_errs, noqa = [], {}
                with contextlib.redirect_stdout(io.StringIO()):
                    for func in ch.get_funcs():
                        for rule in ch._rules:
                            if isinstance(rule, FuncRule):
                                for e in rule(func=func, stubs=ch._stubs):
                                    rule_errs.append(show(e)); noqa[str(e.row)] = list(ch._get_noqa(e.row))
                    mod_errs = [show(e) for rule in ch._rules if not isinstance(rule, FuncRule) for e in rule(tree=ch._tree)]
                r['rules'] = rule_errs; r['module_rules'] = mod_errs; r['noqa'] = noqa
            except BaseException as e:
                r['rules_crash'] = type(e).__name__ + ': ' + str(e)[:200]
            out['files'].append(r)
        if job.get('cli'):
            env = dict(os.environ, PYTHONPATH=os.environ.get('PYTHONPATH', ''))
            # the documented entry points: `python -m deal lint` (JSON and plain) and its alias `python -m deal.linter`
            for mode, flags in (('json', ['deal', 'lint', '--json']), ('plain', ['deal', 'lint', '--nocolor']), ('alias', ['deal.linter', '--nocolor']), ('json1', ['deal', 'lint', '--json'])):
                # findings do not depend on the hash seed of the process: the alias runs under another one
                if mode in ('alias', 'json1'): env = dict(env, PYTHONHASHSEED='1')
                p = subprocess.run([sys.executable, '-m'] + flags + [d], stdout=subprocess.PIPE, stderr=subprocess.PIPE, text=True, env=env, cwd=d, timeout=1200)
                out[mode] = {'status': p.returncode, 'stdout': p.stdout, 'stderr': p.stderr[-1500:]}
    finally:
        os.chdir(ROOT); shutil.rmtree(d, ignore_errors=True)
    json.dump(out, sys.stdout)


main()
