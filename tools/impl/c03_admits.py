"""C03 admits-agree: for a declaration (list of raises tuples) and a raised builtin class, what do the runtime, the linter
and deal.cases admit?  stdin: JSON list of {decls: [[names]..], raised: name}; stdout: JSON list of [runtime, linter, cases] booleans
(None = could not decide)."""
import sys, json, ast, warnings, io, builtins
warnings.simplefilter('ignore')
import deal
from deal.linter import Checker

def one(case):
    decs = ''.join('@deal.raises(%s)\n' % ', '.join(d) for d in reversed(case['decls']))
    src = f'import deal\n{decs}def f():\n    raise {case["raised"]}("x")\n'
    ns = {}
    exec(compile(src, '<c03>', 'exec'), ns)
    f = ns['f']
    exc_cls = getattr(builtins, case['raised'])
    # runtime: admitted iff the very exception class escapes (not a RaisesContractError)
    try:
        f(); rt = None
    except deal.RaisesContractError:
        rt = False
    except exc_cls:
        rt = True
    # linter: admitted iff no DEL021
    tree = ast.parse(src)
    errs = [e for e in Checker(tree=tree).run()]
    li = not any('DEL021' in e[2] for e in errs)
    # astroid back-end (needs a file)
    import os, tempfile
    d = os.path.join(os.path.dirname(os.path.dirname(os.path.dirname(os.path.abspath(__file__)))), '_build', 'tmp')
    os.makedirs(d, exist_ok=True)
    with tempfile.NamedTemporaryFile('w', suffix='.py', dir=d, delete=False) as fh:
        fh.write(src); path = fh.name
    try:
        from pathlib import Path
        errs2 = [e for e in Checker.from_path(Path(path)).run()]
    finally:
        os.unlink(path)
    li2 = not any('DEL021' in e[2] for e in errs2)
    # deal.cases: admitted iff the case reports NoReturn instead of propagating
    import typing
    try:
        tc = deal.TestCase(args=(), kwargs={}, func=f, exceptions=deal.cases(f, check_types=False).exceptions, check_types=False)
        r = tc()
        ca = r is typing.NoReturn
    except BaseException:
        ca = False
    return [rt, li, li2, ca]

json.dump([one(c) for c in json.load(sys.stdin)], sys.stdout)
