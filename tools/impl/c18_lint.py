"""C18 on the implementation: the linter's raises / marker findings per function of a module, optionally with a stub file for the
callees, plus the generated stub.
stdin: list of cases {src, [stub_for: {module: str(name), src: str}] }.  stdout per case:
  findings: {func name: {'raises': sorted values of DEL021, 'markers': sorted values of DEL04x/05x}} via Checker on a real file
  tokens  : {func name: {'excs': [...], 'markers': [...]}}  what get_exceptions / get_markers extract (dive on)
  stub    : the generated stub of the module ({func: {raises: [...], has: [...]}})
  with_stub: findings of the caller module when the callee module is described by its generated stub only"""
import sys, os, json, warnings, shutil, io, contextlib
warnings.simplefilter('ignore')
from pathlib import Path
from deal.linter import Checker
from deal.linter._func import Func
from deal.linter._stub import generate_stub, StubsManager
from deal.linter._extractors import get_exceptions, get_markers

ROOT = os.path.join(os.path.dirname(os.path.dirname(os.path.dirname(os.path.abspath(__file__)))), '_build', 'tmp')


def name_of(v): return v.__name__ if isinstance(v, type) else str(v)


def lint_file(path):
    out = {}
    ch = Checker.from_path(Path(path))
    funcs = ch.get_funcs()
    spans = sorted((f.node.fromlineno if hasattr(f.node, 'fromlineno') else f.line, f.name) for f in funcs)
    errs = list(ch.get_errors())
    # attribute each finding to the function whose span contains its row
    import ast
    tree = ast.parse(open(path).read())
    ranges = []
    for node in ast.walk(tree):
        if isinstance(node, (ast.FunctionDef, ast.AsyncFunctionDef)):
            start = min([d.lineno for d in node.decorator_list] + [node.lineno])
            ranges.append((start, node.end_lineno, node.name))
    for r in ranges: out[r[2]] = {'raises': [], 'markers': [], 'other': []}
    for e in errs:
        owner = None
        for a, b, n in ranges:
            if a <= e.row <= b and (owner is None or a >= owner[0]): owner = (a, b, n)
        if owner is None: continue
        kind = 'raises' if e.code == 21 else 'markers' if 40 <= e.code <= 59 else 'other'
        out[owner[2]][kind].append(str(e.value) if kind != 'other' else f'DEL{e.code:03d}')
    for v in out.values():
        for k in v: v[k] = sorted(v[k])
    return out


def run(case, idx):
    d = os.path.join(ROOT, f'c18_{os.getpid()}_{idx}')
    shutil.rmtree(d, ignore_errors=True); os.makedirs(d)
    res = {}
    import astroid
    astroid.manager.AstroidManager().clear_cache()
    lib = f'libc18_{idx}'
    try:
        p = os.path.join(d, 'modc18.py')
        open(p, 'w').write(case['src'])
        res['findings'] = lint_file(p)
        toks = {}
        for f in Func.from_text(case['src']):
            toks[f.name] = {'excs': sorted(name_of(t.value) for t in get_exceptions(body=f.body)),
                            'markers': sorted(t.marker for t in get_markers(body=f.body))}
        res['tokens'] = toks
        # the generated stub of this module
        sp = generate_stub(path=Path(p), stubs=StubsManager(paths=[Path(d)]))
        res['stub'] = json.load(open(sp)) if os.path.exists(sp) else {}      # an empty stub is not written
        if os.path.exists(sp): os.remove(sp)
        if case.get('variant_src'):
            pv = os.path.join(d, 'modc18v.py')
            open(pv, 'w').write(case['variant_src'])
            res['variant_findings'] = lint_file(pv)
        if case.get('caller'):
            # the callee module keeps only its signature-level source (bodies stripped); its generated stub describes it
            if case.get('dotted'):
                # the callee lives in a package (module name pkg.helpers); its stub is kept in the flat layout <root>/pkg.helpers.json,
                # the root being the directory of the linted file
                pkg = f'pkgc18_{idx}'
                os.makedirs(os.path.join(d, pkg)); open(os.path.join(d, pkg, '__init__.py'), 'w').write('')
                cal = os.path.join(d, pkg, 'helpers.py')
            else:
                cal = os.path.join(d, lib + '.py')
            open(cal, 'w').write(case['callee_src'])
            sp2 = generate_stub(path=Path(cal), stubs=StubsManager(paths=[Path(d)]))
            res['callee_stub'] = json.load(open(sp2)) if os.path.exists(sp2) else {}
            open(cal, 'w').write(case['callee_stripped'])
            q = os.path.join(d, 'usec18.py')
            if case.get('dotted'):
                if os.path.exists(sp2): os.replace(sp2, os.path.join(d, pkg + '.helpers.json'))
                open(q, 'w').write(case['caller'].replace('import libc18', f'import {pkg}.helpers as libc18'))
            else:
                open(q, 'w').write(case['caller'].replace('libc18', lib))
            sys.path.insert(0, d)
            try:
                res['with_stub'] = lint_file(q)
            finally:
                sys.path.remove(d)
    except BaseException as e:
        import traceback
        res['error'] = ''.join(traceback.format_exception_only(type(e), e)).strip()[:400] + ' @ ' + traceback.format_exc()[-600:]
    finally:
        shutil.rmtree(d, ignore_errors=True)
    return res


def main():
    cases = json.load(sys.stdin)
    os.makedirs(ROOT, exist_ok=True)
    out = []
    for i, c in enumerate(cases):
        with contextlib.redirect_stdout(io.StringIO()):
            r = run(c, i)
        out.append(r)
    json.dump(out, sys.stdout)


main()
