"""Implementation side of the C07 switch correspondence. Runs under /venv/bin/python [-O] with PYTHONPATH=/repo.
stdin: JSON list of histories (lists of op names). stdout: JSON list of observation strings."""
import sys, json, warnings
warnings.simplefilter('ignore')
from deal import _state

def run(h):
    s = _state._State()
    outs = []
    for op in h:
        try:
            if op == 'enable': s.enable()
            elif op == 'disable': s.disable()
            elif op == 'reset': s.reset()
            elif op == 'perm': s.disable(permament=True)
            else: raise SystemExit('bad op ' + op)
            outs.append('ok')
        except BaseException as e:
            same = '!' if e is _state.PERMAMENT_ERROR else '?'
            outs.append(type(e).__name__ + same + (e.args[0] if e.args and isinstance(e.args[0], str) else ''))
    return ','.join(outs) + '|' + ('1' if s.debug else '0') + ('1' if s.removed else '0')

json.dump([run(h) for h in json.load(sys.stdin)], sys.stdout)
