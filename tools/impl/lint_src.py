"""Run the real linter on module sources. stdin: JSON list of {"src": text, "backend": "ast"|"astroid"};
stdout: JSON list of either {"errors": [[row, col, code, text-with-value]]} or {"crash": "ExcClass: msg", "where": "file:func"}."""
import sys, json, ast, os, tempfile, traceback, warnings
warnings.simplefilter('ignore')
from pathlib import Path
from deal.linter import Checker

ROOT = os.path.join(os.path.dirname(os.path.dirname(os.path.dirname(os.path.abspath(__file__)))), '_build', 'tmp')
os.makedirs(ROOT, exist_ok=True)

def one(case):
    src = case['src']
    try:
        if case.get('backend', 'ast') == 'ast':
            errs = list(Checker(tree=ast.parse(src)).run())
        else:
            with tempfile.NamedTemporaryFile('w', suffix='.py', dir=ROOT, delete=False) as fh:
                fh.write(src); path = fh.name
            try:
                errs = list(Checker.from_path(Path(path)).run())
            finally:
                os.unlink(path)
        return {'errors': [[e[0], e[1], e[2].split(' ')[0], e[2]] for e in errs]}
    except BaseException as e:
        tb = traceback.extract_tb(e.__traceback__)
        last = [f for f in tb if '/deal/' in f.filename]
        where = f'{os.path.basename(last[-1].filename)}:{last[-1].name}' if last else '?'
        return {'crash': f'{type(e).__name__}: {e}', 'where': where}

json.dump([one(c) for c in json.load(sys.stdin)], sys.stdout)
