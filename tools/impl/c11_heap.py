"""C11 heap-level scenarios on the implementation. stdin: list of cases
{patchers: {pid: [markers]}, kinds: {cid: kind}, classes: [{name, bases, method: null | {steps: [["val", cid] | ["has", pid]], inherit: bool}, inherit_class: bool}], queries: [cls...]}
stdout: per case one string: for each query  cls=pre:..;post:..;ensure:..;raises:..;has:..  joined by | -- read from the registry object of the
function that getattr(cls, "m") returns (the lists of the Contracts object, in list order; sorted markers of its patcher)."""
import sys, json, warnings
warnings.simplefilter('ignore')
import deal
from deal._runtime._contracts import Contracts
ATTR = '__deal_contract'


def run(case):
    kinds = {int(k): v for k, v in case['kinds'].items()}
    cid_of = {}
    decos = {}
    for cid, k in kinds.items():
        if k == 'pre': d = deal.pre(lambda *a, **kw: True)
        elif k == 'post': d = deal.post(lambda r: True)
        elif k == 'ensure': d = deal.ensure(lambda *a, **kw: True)
        else: d = deal.raises(ValueError)
        decos[cid] = d
    has = {int(p): deal.has(*m) for p, m in case['patchers'].items()}
    env = {}
    for c in case['classes']:
        body = {}
        if c['method'] is not None:
            def m(self, x=0): return x
            fn = m
            for st in c['method']['steps']:
                if st[0] == 'val':
                    before = getattr(fn, ATTR, None)
                    n0 = {k: len(getattr(before, k)) for k in ('pres', 'posts', 'ensures', 'raises')} if isinstance(before, Contracts) and before.wrapped is fn else None
                    fn = decos[st[1]](fn)
                    reg = getattr(fn, ATTR)
                    for k in ('pres', 'posts', 'ensures', 'raises'):
                        lst = getattr(reg, k)
                        if len(lst) > (n0[k] if n0 else 0): cid_of[id(lst[-1])] = st[1]
                else:
                    fn = has[st[1]](fn)
            body['m'] = deal.inherit(fn) if c['method']['inherit'] else fn
        cls = type(c['name'], tuple(env[b] for b in c['bases']), body)
        if c.get('inherit_class'): cls = deal.inherit(cls)
        env[c['name']] = cls
    out = []
    for q in case['queries']:
        f = getattr(env[q], 'm', None)
        if f is None:
            out.append(q + '=none'); continue
        reg = getattr(f, ATTR, None)
        if not isinstance(reg, Contracts):
            out.append(q + '=pre:;post:;ensure:;raises:;has:-'); continue
        parts = []
        for label, k in (('pre', 'pres'), ('post', 'posts'), ('ensure', 'ensures'), ('raises', 'raises')):
            parts.append(label + ':' + ','.join(str(cid_of.get(id(v), '?')) for v in getattr(reg, k)))
        parts.append('has:' + ('-' if reg.patcher is None else ','.join(sorted(reg.patcher.markers))))
        out.append(q + '=' + ';'.join(parts))
    return '|'.join(out)


def safe(case):
    try: return run(case)
    except BaseException as e:
        return 'ERROR ' + type(e).__name__ + ': ' + str(e)[:200]

json.dump([safe(c) for c in json.load(sys.stdin)], sys.stdout)
