#!/usr/bin/env python3
"""Run /repo's pinned suite and compare with /root/.vp/BASELINE.json stable_pass. Usage: run_baseline.py [repo_dir]"""
import json, subprocess, sys, tempfile, os, xml.etree.ElementTree as ET
repo = sys.argv[1] if len(sys.argv) > 1 else '/repo'
base = json.load(open('/root/.vp/BASELINE.json'))
with tempfile.TemporaryDirectory() as d:
    x = os.path.join(d, 'j.xml')
    env = dict(os.environ); env.pop('DEAL_VERIF', None)
    p = subprocess.run(['/venv/bin/python', '-m', 'pytest', '-ra', '-q', '-p', 'no:cacheprovider', '--timeout=900',
                        '--continue-on-collection-errors', '-x' if False else '-q', '--junitxml=' + x], cwd=repo, env=env,
                       stdout=subprocess.PIPE, stderr=subprocess.STDOUT, text=True)
    passed = set()
    for tc in ET.parse(x).getroot().iter('testcase'):
        if not any(c.tag in ('failure', 'error', 'skipped') for c in tc):
            passed.add(tc.get('classname') + '::' + tc.get('name'))
missing = [t for t in base['stable_pass'] if t not in passed]
print('passed', len(passed), 'stable_missing', len(missing))
for t in missing[:20]: print('  MISSING', t)
print(p.stdout.strip().splitlines()[-1])
sys.exit(1 if missing else 0)
