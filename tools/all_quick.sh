#!/bin/sh
# Run every claimed check at the quick tier on the tree as it is (default seed) and rewrite the evidence files. Prints one summary line each.
cd "$(dirname "$0")/.."
for p in C01 C02 C03 C04 C05 C06 C07 C08 C09 C10 C11 C12 C13 C14 C15 C16 C17 C18 C19 C20; do
  ./check $p --tier quick 2>&1 | tail -1
done
