"""Grammar-generated Python modules for the linter / decorate families (C16, C18, C19): a module is a JSON description (functions,
their layout, their existing deal contracts, their bodies as trees over the fragment of constructs the extractors inspect) that
`render` pretty-prints to source. All choices come from one random.Random."""
from __future__ import annotations
import random

EXCS = ['ValueError', 'KeyError', 'LookupError', 'ZeroDivisionError', 'ArithmeticError', 'OSError', 'RuntimeError', 'TypeError']
MARKER_STMTS = ['print', 'stdout', 'stderr', 'global', 'import', 'open_r', 'open_w', 'random', 'time', 'syscall', 'socket']
LEAVES = ['raise', 'raise_call', 'assert', 'exit', 'pass', 'return'] + MARKER_STMTS


def gen_stmt(rnd: random.Random, depth: int, callees: list[str]):
    r = rnd.random()
    if depth <= 0 or r < .55:
        k = rnd.choice(LEAVES + (['call'] * 3 if callees else []))
        if k in ('raise', 'raise_call'): return [k, rnd.choice(EXCS)]
        if k == 'call': return ['call', rnd.choice(callees)]
        if k == 'return': return ['return', rnd.randint(-2, 3)]
        return [k]
    body = lambda: [gen_stmt(rnd, depth - 1, callees) for _ in range(rnd.randint(1, 2))]
    k = rnd.choice(['if', 'for', 'while', 'with', 'try', 'try'])
    if k == 'if': return ['if', body(), body() if rnd.random() < .5 else []]
    if k == 'for': return ['for', body(), body() if rnd.random() < .2 else []]
    if k == 'while': return ['while', body()]
    if k == 'with': return ['with', body()]
    handlers = [[rnd.choice(EXCS + [None]), body()] for _ in range(rnd.randint(0, 2))]
    fin = body() if (rnd.random() < .4 or not handlers) else []
    return ['try', body(), handlers, body() if (handlers and rnd.random() < .3) else [], fin]


def gen_contract(rnd):
    c = rnd.choice(['raises', 'raises', 'has', 'has', 'safe', 'pure', 'pre', 'post'])
    if c == 'raises':
        args = rnd.sample(EXCS, rnd.randint(1, 2))
        if rnd.random() < .08: args.append(rnd.choice(['NotImplemented', 'len', 'Ellipsis', 'UnknownError']))      # declared names that are no exception classes
        return {'cat': c, 'args': args, 'layout': rnd.choice(['one', 'one', 'multi'])}
    if c == 'has': return {'cat': c, 'args': rnd.sample(['stdout', 'stderr', 'io', 'global', 'import', 'read', 'write', 'random', 'time', 'syscall', 'network'], rnd.randint(0, 2)),
                           'layout': rnd.choice(['one', 'one', 'one', 'multi'])}
    if c in ('safe', 'pure'): return {'cat': c, 'args': [], 'layout': rnd.choice(['bare', 'bare', 'call'])}
    return {'cat': c, 'args': [], 'layout': 'one'}


def gen_func(rnd, name, callees, in_class=False):
    kind = rnd.choice(['method', 'method', 'static', 'class', 'property'] if in_class else ['func', 'func', 'func', 'async'])
    contracts = []
    if rnd.random() < .45:
        cats = set()
        for _ in range(rnd.randint(1, 2)):
            c = gen_contract(rnd)
            if c['cat'] in cats or (c['cat'] == 'pure' and cats & {'safe', 'has', 'raises'}) or ('pure' in cats and c['cat'] in ('safe', 'has', 'raises')):
                continue
            cats.add(c['cat']); contracts.append(c)
    return {'name': name, 'kind': kind, 'doc': rnd.choice([None, None, 'one', 'multi']), 'oneline': False,
            'extra_deco': rnd.choice([None, None, None, 'name', 'call']), 'multisig': rnd.random() < .15,
            'contracts': contracts, 'deal_first': rnd.random() < .5,
            'body': [gen_stmt(rnd, 2, callees) for _ in range(rnd.randint(1, 3))]}


def gen_module(rnd: random.Random, nfuncs=None):
    n = nfuncs or rnd.randint(1, 4)
    names = [f'f{i}' for i in range(n)]
    funcs = []
    for i, nm in enumerate(names):
        funcs.append(gen_func(rnd, nm, names[:i]))
    if rnd.random() < .08 and funcs:
        f = funcs[-1]
        if not f['contracts'] or True:
            f['oneline'] = True; f['body'] = [rnd.choice([['pass'], ['print'], ['raise', 'ValueError'], ['return', 1]])]; f['doc'] = None
    cls = None
    if rnd.random() < .35:
        cls = {'name': 'K', 'methods': [gen_func(rnd, f'm{i}', names, in_class=True) for i in range(rnd.randint(1, 3))]}
    has_deal = any(f['contracts'] for f in funcs + (cls['methods'] if cls else []))
    return {'shebang': rnd.random() < .15, 'doc': rnd.choice([None, None, 'one', 'multi']), 'future': rnd.random() < .25,
            'imports': rnd.sample(['os', 'sys', 'random', 'time', 'socket', 'subprocess'], rnd.randint(0, 3)),
            'from_imports': rnd.random() < .3, 'import_deal': has_deal or rnd.random() < .2,
            'funcs': funcs, 'cls': cls}


# ---------------------------------------------------------------- rendering
def r_stmt(s, ind, out):
    p = ' ' * ind
    k = s[0]
    if k == 'raise': out.append(f'{p}raise {s[1]}')
    elif k == 'raise_call': out.append(f'{p}raise {s[1]}("bad")')
    elif k == 'assert': out.append(f'{p}assert x')
    elif k == 'exit': out.append(f'{p}exit(1)')
    elif k == 'pass': out.append(f'{p}pass')
    elif k == 'return': out.append(f'{p}return {s[1]}')
    elif k == 'print': out.append(f'{p}print("hello")')
    elif k == 'stdout': out.append(f'{p}sys.stdout.write("a")')
    elif k == 'stderr': out.append(f'{p}sys.stderr.write("a")')
    elif k == 'global': out.append(f'{p}global G')
    elif k == 'import': out.append(f'{p}import json')
    elif k == 'open_r': out.append(f'{p}open("a.txt")')
    elif k == 'open_w': out.append(f'{p}open("a.txt", "w")')
    elif k == 'random': out.append(f'{p}random.choice([1, 2])')
    elif k == 'time': out.append(f'{p}time.time()')
    elif k == 'syscall': out.append(f'{p}os.system("ls")')
    elif k == 'socket': out.append(f'{p}socket.socket()')
    elif k == 'call': out.append(f'{p}{s[1]}(1)')
    elif k == 'if':
        out.append(f'{p}if x:'); r_body(s[1], ind + 4, out)
        if s[2]: out.append(f'{p}else:'); r_body(s[2], ind + 4, out)
    elif k == 'for':
        out.append(f'{p}for i in x:'); r_body(s[1], ind + 4, out)
        if s[2]: out.append(f'{p}else:'); r_body(s[2], ind + 4, out)
    elif k == 'while': out.append(f'{p}while x:'); r_body(s[1], ind + 4, out)
    elif k == 'with': out.append(f'{p}with x:'); r_body(s[1], ind + 4, out)
    elif k == 'try':
        out.append(f'{p}try:'); r_body(s[1], ind + 4, out)
        for exc, b in s[2]:
            out.append(f'{p}except {exc}:' if exc else f'{p}except:'); r_body(b, ind + 4, out)
        if s[3]: out.append(f'{p}else:'); r_body(s[3], ind + 4, out)
        if s[4]: out.append(f'{p}finally:'); r_body(s[4], ind + 4, out)
    else:
        raise ValueError(k)


def r_body(b, ind, out):
    for s in b: r_stmt(s, ind, out)


def r_contract(c, ind, out):
    p = ' ' * ind
    cat, args = c['cat'], c['args']
    if cat == 'raises': a = args
    elif cat == 'has': a = [f"'{x}'" for x in args]
    elif cat == 'pre': out.append(f'{p}@deal.pre(lambda *a, **k: True)'); return
    elif cat == 'post': out.append(f'{p}@deal.post(lambda r: True)'); return
    else: a = []
    if c['layout'] == 'bare': out.append(f'{p}@deal.{cat}')
    elif c['layout'] == 'multi' and a:
        out.append(f'{p}@deal.{cat}(')
        for x in a: out.append(f'{p}    {x},')
        out.append(f'{p})')
    else: out.append(f'{p}@deal.{cat}({", ".join(a)})')


def r_func(f, ind, out):
    p = ' ' * ind
    decos = []
    kd = {'static': '@staticmethod', 'class': '@classmethod', 'property': '@property'}.get(f['kind'])
    extra = {'name': '@plain_deco', 'call': '@call_deco(1)'}.get(f['extra_deco'])
    own = [x for x in [kd, extra] if x]
    cl = []
    for c in f['contracts']: r_contract(c, ind, cl)
    own = [p + x for x in own]
    decos = (cl + own) if f['deal_first'] else (own + cl)
    out += decos
    first = {'method': 'self', 'property': 'self', 'class': 'cls'}.get(f['kind'])
    params = [x for x in [first, 'x'] if x] if f['kind'] != 'property' else ['self']
    if f['kind'] == 'property':
        pass
    d = 'async def' if f['kind'] == 'async' else 'def'
    if f['oneline']:
        tmp = []; r_stmt(f['body'][0], 0, tmp)
        out.append(f'{p}{d} {f["name"]}({", ".join(params)}): {tmp[0]}')
        return
    if f['multisig']:
        out.append(f'{p}{d} {f["name"]}(')
        for x in params: out.append(f'{p}    {x},')
        out.append(f'{p}):')
    else:
        out.append(f'{p}{d} {f["name"]}({", ".join(params)}):')
    if f['doc'] == 'one': out.append(f'{p}    """doc of {f["name"]}"""')
    elif f['doc'] == 'multi': out += [f'{p}    """doc of {f["name"]}', '', f'{p}    more', f'{p}    """']
    body = f['body']
    if f['kind'] == 'property':
        body = [s for s in body] or [['pass']]
    r_body(body, ind + 4, out)


def render(m) -> str:
    out = []
    if m['shebang']: out.append('#!/usr/bin/env python3')
    if m['doc'] == 'one': out.append('"""module doc"""')
    elif m['doc'] == 'multi': out += ['"""module doc', '', 'second paragraph', '"""']
    if m['future']: out.append('from __future__ import annotations')
    for i in m['imports']: out.append(f'import {i}')
    if m['from_imports']: out += ['from typing import (', '    Any,', '    List,', ')']
    if m['import_deal']: out.append('import deal')
    out += ['', 'x = 1', 'G = 0', 'plain_deco = lambda f: f', 'call_deco = lambda n: (lambda f: f)', '']
    for f in m['funcs']:
        r_func(f, 0, out); out += ['', '']
    if m['cls']:
        out.append(f'class {m["cls"]["name"]}:')
        out.append('    """class doc"""')
        for f in m['cls']['methods']:
            r_func(f, 4, out); out.append('')
    return '\n'.join(out) + '\n'
