"""Build side of the checks: mirror coq/ into _build/coq, regenerate Gen/*.v from /repo, make targets, evaluate cases."""
from __future__ import annotations
import os, subprocess, fcntl, json, re, time, shutil, hashlib

VERIF = os.path.dirname(os.path.dirname(os.path.dirname(os.path.abspath(__file__))))
REPO = os.environ.get('DEAL_REPO', '/repo')
BUILD = os.path.join(VERIF, '_build')
BCOQ = os.path.join(BUILD, 'coq')
SRC = os.path.join(VERIF, 'coq')
NPROC = os.cpu_count() or 4

FORBIDDEN = re.compile(r'\b(Admitted|admit|Axiom|Axioms|Parameter|Parameters|Conjecture|Conjectures|Abort All|'
                       r'Unset\s+Guard\s+Checking|Unset\s+Positivity\s+Checking|Unset\s+Universe\s+Checking|'
                       r'bypass_check|Admit\s+Obligations|native_compute)\b')


class Lock:
    def __enter__(self):
        os.makedirs(BUILD, exist_ok=True)
        self.f = open(os.path.join(BUILD, '.lock'), 'w')
        fcntl.flock(self.f, fcntl.LOCK_EX)
        return self

    def __exit__(self, *a):
        fcntl.flock(self.f, fcntl.LOCK_UN)
        self.f.close()


def sh(cmd, cwd=None, timeout=None, env=None):
    try:
        p = subprocess.run(cmd, cwd=cwd, shell=isinstance(cmd, str), stdout=subprocess.PIPE, stderr=subprocess.STDOUT,
                           text=True, timeout=timeout, env=env)
        return p.returncode, p.stdout
    except subprocess.TimeoutExpired as e:
        out = e.stdout.decode() if isinstance(e.stdout, bytes) else (e.stdout or '')
        return 124, out + f'\n<timeout after {timeout}s>'


def strip_comments(text: str) -> str:
    out, depth, i = [], 0, 0
    while i < len(text):
        if text.startswith('(*', i):
            depth += 1; i += 2
        elif text.startswith('*)', i) and depth:
            depth -= 1; i += 2
        else:
            if not depth:
                out.append(text[i])
            i += 1
    return ''.join(out)


def audit(root: str) -> list[str]:
    """static audit of every .v file of the development: no axioms, admits or disabled checks"""
    bad = []
    for d, _, fs in os.walk(root):
        for f in fs:
            if not f.endswith('.v'):
                continue
            p = os.path.join(d, f)
            body = strip_comments(open(p).read())
            body = re.sub(r'"[^"]*"', '""', body)
            for m in FORBIDDEN.finditer(body):
                bad.append(f'{os.path.relpath(p, root)}: {m.group(0)}')
            # Variable / Hypothesis only inside sections
            depth = 0
            for line in body.split('\n'):
                s = line.strip()
                if re.match(r'Section\s+\w+', s): depth += 1
                elif re.match(r'End\s+\w+', s) and depth: depth -= 1
                elif depth == 0 and re.match(r'(Variable|Variables|Hypothesis|Hypotheses|Context)\b', s):
                    bad.append(f'{os.path.relpath(p, root)}: top-level {s.split()[0]}')
    return bad


def mirror():
    os.makedirs(BCOQ, exist_ok=True)
    rc, out = sh(['rsync', '-a', '--delete', '--exclude', 'Gen/', '--exclude', '*.vo', '--exclude', '*.vok', '--exclude', '*.vos',
                  '--exclude', '*.glob', '--exclude', '*.aux', '--exclude', '.*.d', '--exclude', 'Makefile', '--exclude', 'Makefile.conf',
                  '--exclude', '.lia.cache', '--exclude', '.Makefile.d', SRC + '/', BCOQ + '/'])
    if rc:
        raise RuntimeError('rsync failed: ' + out)


def translate(modules=None) -> dict:
    env = dict(os.environ, PYTHONPATH=VERIF)
    cmd = ['python3', '-m', 'tools.py2coq', REPO, os.path.join(BCOQ, 'Gen')] + list(modules or [])
    p = subprocess.run(cmd, cwd=VERIF, stdout=subprocess.PIPE, stderr=subprocess.PIPE, text=True, env=env)
    try:
        return json.loads(p.stdout)
    except Exception:
        return {'<translator>': {'ok': False, 'error': (p.stderr or p.stdout)[-2000:], 'source': '?', 'out': '?'}}


def gen_diff(report: dict) -> dict:
    """generated files that differ from the pinned snapshot coq/Gen (i.e. /repo differs from the pinned source)"""
    out = {}
    for m, e in report.items():
        if not e.get('ok'):
            continue
        a = os.path.join(SRC, 'Gen', e['out']); b = os.path.join(BCOQ, 'Gen', e['out'])
        ta = open(a).read() if os.path.exists(a) else ''
        tb = open(b).read() if os.path.exists(b) else ''
        if ta != tb:
            rc, d = sh(['diff', '-u', a, b])
            out[e['out']] = d[:6000]
    return out


def make(targets: list[str], timeout=900) -> tuple[bool, str]:
    mk = os.path.join(BCOQ, 'Makefile')
    cp = os.path.join(BCOQ, '_CoqProject')
    if not os.path.exists(mk) or os.path.getmtime(mk) < os.path.getmtime(cp):
        rc, out = sh(['coq_makefile', '-f', '_CoqProject', '-o', 'Makefile'], cwd=BCOQ, timeout=120)
        if rc:
            return False, out
    rc, out = sh(['make', f'-j{NPROC}'] + targets, cwd=BCOQ, timeout=timeout)
    return rc == 0, out


def first_error(log: str) -> dict:
    m = re.search(r'File "([^"]+)", line (\d+), characters [\d-]+:\s*\nError:?\s*(.*?)(?:\n\n|\nmake|\Z)', log, re.S)
    if not m:
        return {'file': None, 'line': None, 'error': log[-1500:]}
    return {'file': m.group(1), 'line': int(m.group(2)), 'error': m.group(3).strip()[:1500]}


def enclosing_lemma(path: str, line: int) -> str | None:
    try:
        lines = open(os.path.join(BCOQ, path)).read().split('\n')
    except OSError:
        return None
    for i in range(min(line, len(lines)) - 1, -1, -1):
        m = re.match(r'\s*(Theorem|Lemma|Corollary|Example|Definition|Fixpoint|Fact|Remark|Proposition)\s+([\w\']+)', lines[i])
        if m:
            return m.group(2)
    return None


def count_obligations(vfiles: list[str]) -> tuple[int, list[str]]:
    names = []
    for f in vfiles:
        p = os.path.join(BCOQ, f)
        if not os.path.exists(p):
            continue
        body = strip_comments(open(p).read())
        names += [f'{f}:{m.group(2)}' for m in re.finditer(r'^\s*(Theorem|Lemma|Corollary|Example|Fact|Remark|Proposition)\s+([\w\']+)', body, re.M)]
    return len(names), names


def deps_of(target_v: str) -> list[str]:
    """transitive .v dependencies (inside the development) of a file, via coqdep"""
    rc, out = sh(['coqdep', '-f', '_CoqProject', '-sort', target_v], cwd=BCOQ, timeout=120)
    seen, todo = [], [target_v]
    rc, out = sh(['coqdep', '-f', '_CoqProject'], cwd=BCOQ, timeout=120)
    graph = {}
    for line in out.split('\n'):
        if ':' not in line:
            continue
        lhs, rhs = line.split(':', 1)
        tg = [t for t in lhs.split() if t.endswith('.vo')]
        ds = [d[:-1] for d in rhs.split() if d.endswith('.vo') and not d.startswith('/')]
        for t in tg:
            graph[t[:-1]] = [os.path.normpath(d) for d in ds]
    while todo:
        x = os.path.normpath(todo.pop())
        if x in seen:
            continue
        seen.append(x)
        todo += graph.get(x, [])
    return seen


def eval_cases(name: str, text: str, timeout=600) -> tuple[bool, str]:
    """compile a generated cases file against the built development; returns (ok, coqc output)"""
    d = os.path.join(BUILD, 'cases')
    os.makedirs(d, exist_ok=True)
    p = os.path.join(d, name + '.v')
    with open(p, 'w') as f:
        f.write(text)
    rc, out = sh(f'ulimit -s unlimited 2>/dev/null; coqc -w -notation-overridden,-ambiguous-paths -R {BCOQ} Deal {p}', cwd=d, timeout=timeout)
    return rc == 0, out


def parse_strings(out: str) -> list[str]:
    """results printed by `Eval vm_compute in <string>`: the text between = " and " : string; "" unescaped"""
    res = []
    for m in re.finditer(r'=\s*"((?:[^"]|"")*)"\s*(?:%string)?\s*:\s*string', out, re.S):
        res.append(m.group(1).replace('""', '"'))
    return res
