"""Run an implementation-side script under the repository's interpreter against /repo."""
from __future__ import annotations
import os, subprocess, json
from . import coq

PY = '/venv/bin/python'

def run_impl(script: str, payload, *, optimise=False, timeout=600, args=()):
    env = dict(os.environ, PYTHONPATH=coq.REPO + os.pathsep + coq.VERIF, PYTHONHASHSEED='0', NO_COLOR='1', PYTHONDONTWRITEBYTECODE='1')
    for k in ('PYTEST_CURRENT_TEST', 'CI', 'LAMBDA_TASK_ROOT', 'GCLOUD_PROJECT'):
        env.pop(k, None)
    cmd = [PY] + (['-O'] if optimise else []) + [os.path.join(coq.VERIF, 'tools', 'impl', script)] + list(args)
    p = subprocess.run(cmd, input=json.dumps(payload), stdout=subprocess.PIPE, stderr=subprocess.PIPE, text=True, env=env, timeout=timeout, cwd=coq.VERIF)
    if p.returncode != 0:
        raise RuntimeError(f'{script} failed rc={p.returncode}: {p.stderr[-3000:]}')
    return json.loads(p.stdout)
