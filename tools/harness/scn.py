"""Scenario JSON -> Coq term (Sem/Scenario.v), class table helpers, and the model/implementation runners."""
from __future__ import annotations
import builtins, json, subprocess, os
from concurrent.futures import ThreadPoolExecutor
from . import coq, impl

DEAL_ERRS = {
    'ContractError': ['AssertionError'],
    'PreContractError': ['ContractError'], 'PostContractError': ['ContractError'], 'InvContractError': ['ContractError'],
    'ExampleContractError': ['ContractError'], 'RaisesContractError': ['ContractError'], 'ReasonContractError': ['ContractError'],
    'MarkerError': ['ContractError'], 'OfflineContractError': ['MarkerError'], 'SilentContractError': ['MarkerError'],
}


def cls(name: str, bases=None) -> dict:
    """a class reference; bases only for scenario-defined classes (each base a name or a cls dict)"""
    return {'name': name, 'bases': bases or []}


def mro_of(c: dict, table: dict | None = None) -> list[str]:
    """names of mro()[1:] of a class reference, computed with CPython's own C3 on stand-in classes"""
    cache = {}

    def build(j):
        n = j['name'] if isinstance(j, dict) else j
        if n in cache: return cache[n]
        if hasattr(builtins, n) and isinstance(getattr(builtins, n), type):
            k = getattr(builtins, n)
        elif n in DEAL_ERRS:
            k = type(n, tuple(build(b) for b in DEAL_ERRS[n]), {})
        else:
            bases = j['bases'] if isinstance(j, dict) else (table or {}).get(n, ['Exception'])
            k = type(n, tuple(build(b) for b in bases), {})
        cache[n] = k
        return k
    return [k.__name__ for k in build(c).__mro__[1:]]


def q(s: str) -> str:
    return '"' + s.replace('"', '""') + '"'


def cv(j) -> str:
    if j == 'N': return 'VNone'
    if j == 'E': return 'VEmpty'
    if 'i' in j: return f'(VInt ({int(j["i"])}))'
    if 's' in j: return f'(VStr {q(j["s"])})'
    if 'b' in j: return f'(VBool {"true" if j["b"] else "false"})'
    if 't' in j: return '(VTuple [' + '; '.join(cv(x) for x in j['t']) + '])'
    if 'd' in j: return '(VDict [' + '; '.join(f'({q(k)}, {cv(v)})' for k, v in j['d']) + '])'
    if 'o' in j: return f'(VObj {int(j["o"])}%nat)'
    raise ValueError(j)


def ccls(c) -> str:
    return f'(mk_cls {q(c["name"])} [' + '; '.join(q(n) for n in mro_of(c)) + '])'


def csig(sig) -> str:
    return '[' + '; '.join('{| p_name := %s; p_kind := %s; p_default := %s |}' % (
        q(n), k, 'None' if d is None else f'(Some {cv(d)})') for n, k, d in sig) + ']'


BIN = {'gt': 'OGt', 'ge': 'OGe', 'eq': 'OEq', 'ne': 'ONe', 'add': 'OAdd', 'sub': 'OSub', 'and': 'OAnd', 'or': 'OOr'}
OPS = {'enable': 'OEnable', 'disable': 'ODisable', 'reset': 'OReset', 'perm': 'ODisablePerm'}
KIND = {'sync': 'KSync', 'async': 'KAsync', 'gen': 'KGen'}
EFF = {'out': 'KOut', 'err': 'KErr', 'sock': 'KSock'}


def cexpr(e) -> str:
    k = e[0]
    if k == 'const': return f'(EConst {cv(e[1])})'
    if k == 'var': return f'(EVar {q(e[1])})'
    if k == 'attr': return f'(EAttr {q(e[1])})'
    if k == 'bin': return f'(EBin {BIN[e[1]]} {cexpr(e[2])} {cexpr(e[3])})'
    if k == 'not': return f'(ENot {cexpr(e[1])})'
    if k == 'len': return f'(ELen {cexpr(e[1])})'
    if k == 'isnone': return f'(EIsNone {cexpr(e[1])})'
    if k == 'ormsg': return f'(EOrMsg {cexpr(e[1])} {q(e[2])})'
    if k == 'raise': return f'(ERaise {ccls(e[1])} ({int(e[2])}))'
    if k == 'locals': return 'ELocals'
    raise ValueError(k)


def cblock(l) -> str:
    return '[' + '; '.join(cstmt(s) for s in l) + ']'


def cstmt(s) -> str:
    k = s[0]
    if k == 'return': return f'(BReturn {cexpr(s[1])})'
    if k == 'raise': return f'(BRaise {ccls(s[1])} ({int(s[2])}))'
    if k == 'effect': return f'(BEffect {EFF[s[1]]})'
    if k == 'call': return (f'(BCall {q(s[1])} [' + '; '.join(cexpr(x) for x in s[2]) + '] [' +
                            '; '.join(f'({q(n)}, {cexpr(x)})' for n, x in s[3]) + '])')
    if k == 'yield': return f'(BYield {cexpr(s[1])})'
    if k == 'await': return 'BAwait'
    if k == 'switch': return f'(BSwitch {OPS[s[1]]})'
    if k == 'if': return f'(BIf {cexpr(s[1])} {cblock(s[2])} {cblock(s[3])})'
    if k == 'assign': return f'(BAssign {q(s[1])} {cexpr(s[2])})'
    if k == 'tryexcept': return f'(BTryExcept {cblock(s[1])} {q(s[2])} {cblock(s[3])})'
    if k == 'tryfinally': return f'(BTryFinally {cblock(s[1])} {cblock(s[2])})'
    raise ValueError(k)


def cmsg(m) -> str:
    return 'VNone' if m is None else f'(VStr {q(m)})'


def cexc(x) -> str:
    if x is None: return 'None'
    if x[0] == 'class': return f'(Some (EClass {ccls(x[1])}))'
    return f'(Some (EInst {ccls(x[1])} [' + '; '.join(cv(a) for a in x[2]) + ']))'


def csval(v) -> str:
    return ('{| sv_id := %d%%nat; sv_sig := %s; sv_expr := %s; sv_msg := %s; sv_exc := %s |}' %
            (v['id'], csig(v['sig']), cexpr(v['expr']), cmsg(v['msg']), cexc(v['exc'])))


def citem(it) -> str:
    k = it[0]
    if k == 'pre': return f'(CPre {csval(it[1])})'
    if k == 'post': return f'(CPost {csval(it[1])})'
    if k == 'ensure': return f'(CEnsure {csval(it[1])})'
    if k == 'raises': return f'(CRaises {it[1]}%nat [' + '; '.join(ccls(c) for c in it[2]) + f'] {cmsg(it[3])} {cexc(it[4])})'
    if k == 'reason': return f'(CReason {ccls(it[1])} {csval(it[2])})'
    if k == 'has': return f'(CHas {it[1]}%nat [' + '; '.join(q(m) for m in it[2]) + f'] {cmsg(it[3])} {cexc(it[4])})'
    raise ValueError(k)


def cargs(a, kw) -> str:
    return '[' + '; '.join(cv(x) for x in a) + '] [' + '; '.join(f'({q(n)}, {cv(x)})' for n, x in kw) + ']'


def caction(a) -> str:
    k = a[0]
    if k == 'call': return f'(ACall {q(a[1])} {cargs(a[2], a[3])})'
    if k == 'gennew': return f'(AGenNew {a[1]}%nat {q(a[2])} {cargs(a[3], a[4])})'
    if k == 'conew': return f'(ACoNew {a[1]}%nat {q(a[2])} {cargs(a[3], a[4])})'
    if k == 'next': return f'(ANext {a[1]}%nat)'
    if k == 'send': return f'(ASend {a[1]}%nat {cv(a[2])})'
    if k == 'throw': return f'(AThrow {a[1]}%nat {ccls(a[2])} ({int(a[3])}))'
    if k == 'close': return f'(AClose {a[1]}%nat)'
    if k == 'switch': return f'(ASwitch {OPS[a[1]]})'
    raise ValueError(k)


def cfun(f) -> str:
    return ('{| sf_name := %s; sf_kind := %s; sf_sig := %s; sf_stack := [%s]; sf_body := %s |}' %
            (q(f['name']), KIND[f['kind']], csig(f['sig']), '; '.join(citem(i) for i in f['stack']), cblock(f['body'])))


def cscenario(sc) -> str:
    disp = '; '.join(f'({q(n)}, [' + '; '.join(q(x) for x in impls) + '])' for n, impls in sc.get('dispatch', []))
    return ('{| sc_funs := [' + ';\n   '.join(cfun(f) for f in sc['funs']) + f'];\n   sc_dispatch := [{disp}];\n   sc_driver := [' +
            '; '.join(caction(a) for a in sc['driver']) + '] |}')


PREAMBLE = ('From Coq Require Import List ZArith String.\nImport ListNotations.\n'
            'From Deal Require Import Base Prog Sig Interp Model Show ScnSwitch Scenario.\n'
            'Open Scope string_scope. Open Scope Z_scope.\n')


def run_model(name: str, scenarios: list, shard=150, show='show_scenario', preamble=PREAMBLE, printer=cscenario):
    """evaluate the scenarios in the Coq model; returns (list of observation strings | None per failure, errors)"""
    shards = [scenarios[i:i + shard] for i in range(0, len(scenarios), shard)]

    def one(iv):
        i, chunk = iv
        text = preamble + 'Definition cases : list _ := [\n ' + ';\n '.join(printer(s) for s in chunk) + '\n].\n' \
            + f'Eval vm_compute in lines (map {show} cases).\n'
        ok, out = coq.eval_cases(f'{name}_{i:03d}', text)
        if not ok:
            return None, out[-3000:]
        res = coq.parse_strings(out)
        if len(res) != 1:
            return None, 'cannot parse coqc output: ' + out[-1000:]
        lines = res[0].split('\n') if chunk else []
        if len(lines) != len(chunk):
            return None, f'{len(lines)} results for {len(chunk)} cases'
        return lines, None
    results, errors = [], []
    with ThreadPoolExecutor(max_workers=min(12, max(1, len(shards)))) as ex:
        for (lines, err), chunk in zip(ex.map(one, enumerate(shards)), shards):
            if lines is None:
                errors.append(err)
                results += [None] * len(chunk)
            else:
                results += lines
    return results, errors


def run_impl(scenarios: list, shard=400, script='scn.py'):
    shards = [scenarios[i:i + shard] for i in range(0, len(scenarios), shard)]
    out = []
    with ThreadPoolExecutor(max_workers=min(12, max(1, len(shards)))) as ex:
        for r in ex.map(lambda c: impl.run_impl(script, c), shards):
            out += r
    return out


def cbstep(b) -> str:
    if b[0] == 'use': return f'(BUse {b[1]}%nat)'
    if b[0] == 'wraps': return f'(BWraps {b[1]}%nat)'
    if b[0] == 'plain': return f'(BPlain {b[1]}%nat)'
    if b[0] == 'chain': return '(BChain [' + '; '.join(f'{c}%nat' for c in b[1]) + '])'
    raise ValueError(b)


def citem_obj(cid, it) -> str:
    """contract objects of a composition scenario: the validator identity is the contract id"""
    k = it[0]
    if k in ('pre', 'post', 'ensure'): return citem([k, dict(it[1], id=cid)])
    if k == 'raises': return citem(['raises', cid, it[2], it[3], it[4]])
    if k == 'reason': return citem(['reason', it[1], dict(it[2], id=cid)])
    if k == 'has': return citem(['has', cid, it[2], it[3], it[4]])
    raise ValueError(k)


def coscenario(sc) -> str:
    cs = '; '.join(f'({cid}%nat, {citem_obj(cid, it)})' for cid, it in sc['contracts'])
    fs = ';\n   '.join('{| of_name := %s; of_kind := KSync; of_sig := %s; of_body := %s; of_build := [%s] |}' % (
        q(f['name']), csig(f['sig']), cblock(f['body']), '; '.join(cbstep(b) for b in f['build'])) for f in sc['funs'])
    qs = '; '.join(f'({q(a)}, {q(b)})' for a, b in sc.get('queries', []))
    return ('{| os_contracts := [' + cs + '];\n   os_funs := [' + fs + '];\n   os_driver := [' +
            '; '.join(caction(a) for a in sc['driver']) + f'];\n   os_queries := [{qs}] |}}')


OBJ_PREAMBLE = PREAMBLE.replace('Scenario.', 'Scenario ObjModel ScnObj.')


def run_model_obj(name, scenarios):
    return run_model(name, scenarios, show='show_oscenario', preamble=OBJ_PREAMBLE, printer=coscenario)
