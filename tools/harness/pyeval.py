"""Reference semantics of the scenario expression language in plain Python (no deal involved): used by the monitors
as the oracle for "this validator accepts this binding", and CPython itself as the oracle for argument binding."""
from __future__ import annotations
import inspect


class Obj:
    def __init__(self, n): self.n = n
    def __eq__(self, o): return isinstance(o, Obj) and o.n == self.n
    def __hash__(self): return hash(self.n)
    def __repr__(self): return f'o{self.n}'


def val(j):
    if j == 'N': return None
    if j == 'E': return inspect._empty
    if 'i' in j: return int(j['i'])
    if 's' in j: return j['s']
    if 'b' in j: return bool(j['b'])
    if 't' in j: return tuple(val(x) for x in j['t'])
    if 'd' in j: return {k: val(v) for k, v in j['d']}
    if 'o' in j: return Obj(j['o'])
    raise ValueError(j)


def show(v):
    if v is None: return 'N'
    if v is inspect._empty: return 'E'
    if v is True: return 'T'
    if v is False: return 'F'
    if isinstance(v, int): return f'i{v}'
    if isinstance(v, str): return f's<{v}>'
    if isinstance(v, tuple): return '(' + ','.join(show(x) for x in v) + ')'
    if isinstance(v, dict): return '{' + ','.join(f'{k}:{show(x)}' for k, x in v.items()) + '}'
    if isinstance(v, Obj): return f'o{v.n}'
    return f'?<{type(v).__name__}>'


def show_dict(d):
    return '{' + ','.join(f'{k}:{show(d[k])}' for k in sorted(d)) + '}'


class Raised(Exception):
    """the expression raised: cls name + tag"""
    def __init__(self, cls, tag):
        self.cls, self.tag = cls, tag


class AttrDict(dict):
    def __getattr__(self, n): return self[n]


def ev(e, env):
    k = e[0]
    if k == 'const': return val(e[1])
    if k == 'var':
        if e[1] not in env: raise NameError(e[1])
        return env[e[1]]
    if k == 'attr':
        if '_' not in env: raise NameError('_')
        return env['_'][e[1]]
    if k == 'bin':
        op = e[1]
        if op == 'and':
            x = ev(e[2], env); return ev(e[3], env) if x else x
        if op == 'or':
            x = ev(e[2], env); return x if x else ev(e[3], env)
        x, y = ev(e[2], env), ev(e[3], env)
        return {'eq': lambda: x == y, 'ne': lambda: x != y, 'gt': lambda: x > y, 'ge': lambda: x >= y,
                'add': lambda: x + y, 'sub': lambda: x - y}[op]()
    if k == 'not': return not ev(e[1], env)
    if k == 'len': return len(ev(e[1], env))
    if k == 'isnone': return ev(e[1], env) is None
    if k == 'ormsg': return ev(e[1], env) or e[2]
    if k == 'raise': raise Raised(e[1]['name'], e[2])
    if k == 'locals': return dict(env)
    raise ValueError(k)


def sig_text(sig, ns):
    parts, star_done = [], False
    kinds = [p[1] for p in sig]
    for i, (n, k, d) in enumerate(sig):
        dv = ''
        if d is not None:
            key = f'__d{len(ns)}'
            ns[key] = val(d); dv = f'={key}'
        if k == 'KwOnly' and not star_done and 'VarPos' not in kinds[:i]:
            parts.append('*'); star_done = True
        if k == 'VarPos': parts.append('*' + n); star_done = True
        elif k == 'VarKw': parts.append('**' + n)
        else: parts.append(n + dv)
        if k == 'PosOnly' and (i + 1 == len(sig) or sig[i + 1][1] != 'PosOnly'):
            parts.append('/')
    return ', '.join(parts)


def own_binding(sig, args, kws):
    """what a function with this signature binds, by CPython itself; None = TypeError"""
    ns = {}
    src = f'def probe({sig_text(sig, ns)}): return dict(locals())'
    exec(src, ns)
    try:
        b = ns['probe'](*[val(a) for a in args], **{n: val(v) for n, v in kws})
    except TypeError:
        return None
    return {k: v for k, v in b.items() if not k.startswith('__')}


def verdict(v, fsig, args, kws, extra_kw=None, args_override=None):
    """reference outcome of one validator (sval JSON) on a call: ('accept',) | ('reject', message|None) | ('raise', cls, tag) |
    ('error', exception class name).  Explicit validators are called with the caller's (args, kwargs); short ones get the
    function's own binding."""
    a = args if args_override is None else args_override
    kw = list(kws) + (extra_kw or [])
    try:
        if [p[0] for p in v['sig']] == ['_']:
            # the `_` container: the decorated function's binding (+ result for ensure)
            if fsig is None:
                b = {n: val(x) for n, x in kw}
            else:
                b = own_binding(fsig, a, kws)
                if b is None: return ('error', 'TypeError')
                for n, x in (extra_kw or []):
                    b[n] = val(x)
            r = ev(v['expr'], {'_': b})
        else:
            b = own_binding(v['sig'], a, kw)
            if b is None: return ('error', 'TypeError')
            r = ev(v['expr'], b)
    except Raised as x:
        return ('raise', x.cls, x.tag)
    except (TypeError, NameError, KeyError) as x:
        return ('error', type(x).__name__)
    if type(r) is str: return ('reject', r)
    return ('accept',) if r else ('reject', None)
