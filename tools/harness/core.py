"""Verdict logic shared by every property check (DESIGN.md 2.7):  P (proof obligations compile against the model
regenerated from /repo) and T (translation + correspondence) and M (independent monitor on the implementation)."""
from __future__ import annotations
import os, sys, json, time, hashlib, traceback
from . import coq

VERIF = coq.VERIF
EVID = os.path.join(VERIF, 'evidence')
REPLAY = os.path.join(coq.BUILD, 'replay')
FOUND = os.path.join(VERIF, 'corpus')

TRUSTED_BASE = [
    'Coq 8.16.1 kernel and its VM (vm_compute); no native_compute',
    'Coq standard library only (List, ZArith, Bool, String, Ascii, Lia); no axioms: every property theorem is "Closed under the global context" (Print Assumptions output recorded per run)',
    'tools/py2coq (the Python-ast to Gallina translator, its per-file typing tables and its list of abstracted statements)',
    'coq/Core (Prog.v free monad + statement combinators) and coq/Sem/Interp.v as the meaning of the Python control flow used by deal',
    'coq/Py/* : hand-written slice of CPython (call binding, exception matching, MRO, update_wrapper), validated differentially against CPython 3.12.1, not verified',
    'the correspondence harness tools/harness + tools/families (scenario generators, implementation runner, comparators, monitors)',
    'CPython 3.12.1, vaa, hypothesis, astroid as oracles',
]


class Ctx:
    def __init__(self, pid, tier, seed):
        self.pid, self.tier, self.seed = pid, tier, seed
        self.t0 = time.time()
        self.translate_report = {}
        self.gen_changed = {}
        self.build_ok = False
        self.build_log = ''
        self.audit = []
        self.assumptions = ''

    @property
    def thorough(self):
        return self.tier == 'thorough'


class FamilyResult:
    def __init__(self):
        self.evaluations = 0
        self.nontrivial = set()          # canonical keys of distinct non-trivial cases
        self.rule = ''
        self.samples = []
        self.exhaustive = False
        self.programs = 0
        self.disagreements = []          # model vs implementation: dicts with 'scenario', 'impl', 'model'
        self.violations = []             # monitor failures on the implementation: dicts with 'scenario', 'what'
        self.traces_validated = 0
        self.distribution = {}
        self.notes = []
        self.errors = []                 # infrastructure errors (cases file failed to compile, runner crashed)

    def add_nontrivial(self, obj):
        self.nontrivial.add(hashlib.sha1(json.dumps(obj, sort_keys=True, default=str).encode()).hexdigest())


def load_findings():
    p = os.path.join(VERIF, 'known_findings.json')
    if not os.path.exists(p):
        return []
    return json.load(open(p)).get('findings', [])


def write_json(path, obj):
    os.makedirs(os.path.dirname(path), exist_ok=True)
    with open(path, 'w') as f:
        json.dump(obj, f, indent=1, sort_keys=True, default=str)
    return path


def run_check(family, pid: str, tier: str, seed: int) -> int:
    ctx = Ctx(pid, tier, seed)
    lines = []
    prop_v = f'Props/{pid}.v'
    # ---------------- P: regenerate the model from /repo and re-check the theorems ----------------
    with coq.Lock():
        coq.mirror()
        ctx.translate_report = coq.translate()
        ctx.gen_changed = coq.gen_diff(ctx.translate_report)
        ctx.audit = coq.audit(coq.BCOQ)
        needed = family.gen_modules
        tr_fail = {m: e for m, e in ctx.translate_report.items() if not e.get('ok') and (m in needed or m.startswith('<'))}
        if tr_fail:
            ctx.build_ok, ctx.build_log = False, 'translation failed: ' + json.dumps(tr_fail, indent=1)
        else:
            target = prop_v + 'o'
            timeout = 1800 if ctx.thorough else 900
            vo = os.path.join(coq.BCOQ, target)
            if os.path.exists(vo):
                os.remove(vo)    # so that the Print Assumptions output of this run is captured
            ctx.build_ok, ctx.build_log = coq.make([target], timeout=timeout)
            if ctx.build_ok:
                ctx.assumptions = ctx.build_log
        try:
            deps = coq.deps_of(prop_v)
        except Exception:
            deps = [prop_v]
        model_ok_for_cases = True
        if not tr_fail:
            # the executable model used by the correspondence check (it may build even when a proof broke)
            model_ok_for_cases, mlog = coq.make([t + 'o' for t in family.model_targets], timeout=900)
            if not model_ok_for_cases:
                ctx.build_log += '\n--- model targets ---\n' + mlog
        if tr_fail:
            # the model of the code as it was (the pinned snapshot, about which the theorems were proved) stays executable: the
            # correspondence / search below then looks for an input on which the current implementation departs from it
            import shutil
            for m, e in tr_fail.items():
                src = os.path.join(coq.SRC, 'Gen', e.get('out', '?'))
                if os.path.exists(src):
                    shutil.copyfile(src, os.path.join(coq.BCOQ, 'Gen', e['out']))
            model_ok_for_cases, mlog = coq.make([t + 'o' for t in family.model_targets], timeout=900)
            ctx.model_is_pinned = True
            if not model_ok_for_cases:
                ctx.build_log += '\n--- pinned model targets ---\n' + mlog
    obl_files = [d for d in deps if d.startswith(('Thm/', 'Props/', 'Sem/', 'Py/', 'Lint/'))]
    n_obl, obl_names = coq.count_obligations(obl_files)
    def built(f):
        v = os.path.join(coq.BCOQ, f); vo = v + 'o'
        return os.path.exists(vo) and os.path.getmtime(vo) >= os.path.getmtime(v)
    n_done, _ = coq.count_obligations([f for f in obl_files if built(f)])
    closed = ctx.assumptions.count('Closed under the global context')
    axioms_lines = [l for l in ctx.assumptions.split('\n') if l.strip() and 'Closed under' not in l and not l.startswith(('COQ', 'make', 'Axioms:'))]
    P_ok = ctx.build_ok and not ctx.audit

    # ---------------- T and M: correspondence and monitors ----------------
    fr = FamilyResult()
    try:
        family.run(ctx, fr, model_available=model_ok_for_cases)
    except Exception:
        fr.errors.append('family crashed: ' + traceback.format_exc()[-3000:])
    if os.environ.get('VERIF_SHOW_ALL'):
        for dg in fr.disagreements[:5]: print('  disagreement:', json.dumps(dg, default=str)[:1800], file=sys.stderr)
    T_ok = not fr.disagreements and not fr.errors and model_ok_for_cases and not [m for m in family.gen_modules if not ctx.translate_report.get(m, {}).get('ok')]

    findings = [f for f in load_findings() if f['property'] == pid]
    known_hits, new_viol = {}, []
    for v in fr.violations:
        fid = family.classify(v, findings) if hasattr(family, 'classify') else None
        if fid:
            known_hits.setdefault(fid, v)
        else:
            new_viol.append(v)

    # ---------------- a broken obligation / correspondence: search for a failing input ----------------
    obligation = None
    if not new_viol and not (P_ok and T_ok):
        if hasattr(family, 'search'):
            try:
                fr2 = FamilyResult()
                family.search(ctx, fr2, model_available=model_ok_for_cases)
                for v in fr2.violations:
                    fid = family.classify(v, findings) if hasattr(family, 'classify') else None
                    if fid:
                        known_hits.setdefault(fid, v)
                    else:
                        new_viol.append(v)
                fr.evaluations += fr2.evaluations
                fr.nontrivial |= fr2.nontrivial
            except Exception:
                fr.errors.append('search crashed: ' + traceback.format_exc()[-3000:])
        if not new_viol:
            err = coq.first_error(ctx.build_log) if not ctx.build_ok else {}
            obligation = {
                'property': pid,
                'kind': ('proof-obligation' if (not ctx.build_ok and err.get('file')) else
                         'translation' if not ctx.build_ok else 'audit' if ctx.audit else 'correspondence'),
                'coq_error': err,
                'theorem': coq.enclosing_lemma(err['file'], err['line']) if err.get('file') else None,
                'translation': {m: e.get('error') for m, e in ctx.translate_report.items() if not e.get('ok')},
                'generated_diff_vs_pinned': ctx.gen_changed,
                'audit': ctx.audit,
                'disagreements': fr.disagreements[:5],
                'infrastructure_errors': fr.errors[:5],
                'recheck': f'cd {coq.BCOQ} && make {prop_v}o',
            }

    # ---------------- report ----------------
    rc = 0
    for fid, v in known_hits.items():
        f = next(x for x in findings if x['id'] == fid)
        if f.get('status') == 'fixed':
            # a fixed entry suppresses nothing
            new_viol.append(v)
        else:
            lines.append(f'KNOWN-FINDING: property={pid} {fid} {f["what"]}')
    new_viol.sort(key=lambda v: len(json.dumps(v.get('scenario'), default=str)))
    if os.environ.get('VERIF_SHOW_ALL'):        # debugging aid: every new violation, not only the three that get a replay file
        for v in new_viol: print('  what:', str(v.get('what'))[:400].replace('\n', ' '), '|', str((v.get('scenario') or {}).get('origin', ''))[:60], file=sys.stderr)
    for i, v in enumerate(new_viol[:3]):
        h = hashlib.sha1(json.dumps(v.get('scenario'), sort_keys=True, default=str).encode()).hexdigest()[:10]
        v = dict(v, property=pid, seed=ctx.seed, tier=ctx.tier)
        path = write_json(os.path.join(REPLAY, f'{pid}-found-{h}.json'), v)
        lines.append(f'VIOLATION property={pid} replay={path}')
        rc = 1
    if obligation is not None:
        path = write_json(os.path.join(REPLAY, f'{pid}-obligation.json'), obligation)
        lines.append(f'VIOLATION property={pid} replay={path} no-failing-input-found')
        rc = 1

    wall = time.time() - ctx.t0
    regenerated = sorted(fn for m in family.gen_modules for fn in ctx.translate_report.get(m, {}).get('functions', []))
    abstracted = sorted(a for m in family.gen_modules for a in ctx.translate_report.get(m, {}).get('abstracted', []))
    cov = {
        'obligations': n_obl,
        'discharged': n_obl if ctx.build_ok else n_done,
        'checker_cmd': f'cd /verif/_build/coq && coq_makefile -f _CoqProject -o Makefile && make {prop_v}o   (coqc 8.16.1; Print Assumptions under every property theorem)',
        'trusted_base': TRUSTED_BASE + getattr(family, 'trusted_extra', []),
        'property_theorems': [n for n in obl_names if n.startswith('Props/')],
        'print_assumptions_closed': closed,
        'print_assumptions_other': axioms_lines[:20],
        'evaluations': fr.evaluations,
        'distinct_nontrivial': len(fr.nontrivial),
        'rule': fr.rule,
        'samples': fr.samples[:6] or [{'obligations': obl_names[:5]}],
        'exhaustive': fr.exhaustive,
        'programs': fr.programs,
        'disagreements_checked': fr.programs,
        'disagreements_found': len(fr.disagreements),
        'traces_validated_against_impl': fr.traces_validated,
        'distribution': fr.distribution,
        'regenerated_from_source': regenerated,
        'abstracted_statements': abstracted,
        'hand_modelled': getattr(family, 'hand_modelled', []),
        'generated_differs_from_pinned': sorted(ctx.gen_changed),
        'known_findings_hit': sorted(known_hits),
        'monitor_violations': len(fr.violations),
        'notes': fr.notes + getattr(family, 'notes', []),
        'infrastructure_errors': fr.errors[:5],
        'explanation': getattr(family, 'explanation', ''),
    }
    ev = {
        'property_id': pid, 'tier': tier, 'seed': seed, 'level': 'proof', 'coverage': cov,
        'assumptions': getattr(family, 'assumptions', []),
        'wall_s': round(wall, 2), 'violations': len(new_viol) + (1 if obligation else 0),
    }
    write_json(os.path.join(EVID, f'{pid}.json'), ev)
    for l in lines:
        print(l)
    print(f'{pid} tier={tier} seed={seed} P={"ok" if P_ok else "BROKEN"} T={"ok" if T_ok else "BROKEN"} '
          f'M={"ok" if not fr.violations else str(len(fr.violations)) + " violation(s)"} obligations={n_obl} '
          f'cases={fr.evaluations} nontrivial={len(fr.nontrivial)} wall={wall:.1f}s exit={rc}')
    sys.stdout.flush()
    return rc
