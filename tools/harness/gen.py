"""Random scenario generation (all choices from one random.Random). Mostly valid inputs plus a separate malformed stream."""
from __future__ import annotations
import random
from . import scn

I = lambda n: {'i': n}
S = lambda s: {'s': s}
NAMES = ['a', 'b', 'c', 'd']
BUILTIN_TREE = {   # a slice of CPython's hierarchy used for declared / raised classes
    'LookupError': ['Exception'], 'KeyError': ['LookupError'], 'IndexError': ['LookupError'],
    'ArithmeticError': ['Exception'], 'ZeroDivisionError': ['ArithmeticError'], 'ValueError': ['Exception'],
    'OSError': ['Exception'], 'FileNotFoundError': ['OSError'], 'RuntimeError': ['Exception'],
}


def gen_sig(rnd: random.Random, maxp=4, allow_posonly=True):
    n = rnd.randint(0, maxp)
    names = NAMES[:n]
    if n and rnd.random() < .15:
        # parameter names that are also names of dict methods / attributes of container classes: the `_` container must give the argument
        names = list(names); names[rnd.randrange(n)] = rnd.choice(['items', 'data', 'keys', 'get', 'update'])
    posonly = rnd.randint(0, n) if (allow_posonly and rnd.random() < .3) else 0
    star = rnd.random() < .4
    dstar = rnd.random() < .4
    kwonly_from = rnd.randint(posonly, n) if (star or rnd.random() < .3) else n
    sig, seen_default = [], False
    for i, nm in enumerate(names):
        if i == kwonly_from and star:
            sig.append(['args', 'VarPos', None])
        d = None
        if i >= kwonly_from:
            kind = 'KwOnly'
            if rnd.random() < .5: d = I(i * 10)
        else:
            kind = 'PosOnly' if i < posonly else 'PosOrKw'
            if seen_default or rnd.random() < .4:
                d = I(i * 10); seen_default = True
        sig.append([nm, kind, d])
    if kwonly_from >= n and star:
        sig.append(['args', 'VarPos', None])
    if dstar:
        sig.append(['kw', 'VarKw', None])
    return sig


def gen_value(rnd, weird=.15):
    r = rnd.random()
    if r < 1 - weird: return I(rnd.randint(-3, 9))
    return rnd.choice(['N', S('x'), S(''), {'b': True}, {'b': False}, {'t': []}, {'t': [I(1)]}, I(0)])


def gen_call(rnd, sig, malformed=.12):
    pos = [p for p in sig if p[1] in ('PosOnly', 'PosOrKw')]
    named = [p for p in sig if p[1] in ('PosOrKw', 'KwOnly')]
    has_var = any(p[1] == 'VarPos' for p in sig)
    has_kw = any(p[1] == 'VarKw' for p in sig)
    bad = rnd.random() < malformed
    npos = rnd.randint(0, len(pos))
    if has_var and rnd.random() < .4: npos = len(pos) + rnd.randint(1, 2)
    if bad and rnd.random() < .5: npos = len(pos) + 1
    args = [gen_value(rnd) for _ in range(npos)]
    filled = {p[0] for p in pos[:npos]}
    kws = []
    for p in named:
        if p[0] in filled:
            if bad and rnd.random() < .3: kws.append([p[0], gen_value(rnd)])
            continue
        if p[2] is None:
            if not (bad and rnd.random() < .4): kws.append([p[0], gen_value(rnd)])
        elif rnd.random() < .5:
            kws.append([p[0], gen_value(rnd)])
    if (has_kw and rnd.random() < .4) or (bad and rnd.random() < .3):
        kws.append([rnd.choice(['z', 'y', 'result']), gen_value(rnd)])
    if has_kw and rnd.random() < .08:
        po = [p for p in sig if p[1] == 'PosOnly']
        if po: kws.append([rnd.choice(po)[0], gen_value(rnd)])   # the inspect-vs-call corner
    rnd.shuffle(kws)
    if has_kw:
        # a keyword that is spelled like the **kwargs parameter itself (or like the *args parameter): a valid call, the keyword lands in
        # the dictionary. Decided from the call generated so far, without drawing (the streams of all families stay as they were)
        k = (npos * 7 + len(kws) * 3 + len(sig)) % 11
        if k == 0: kws.append([next(p[0] for p in sig if p[1] == 'VarKw'), {'i': 7}])
        elif k == 1 and has_var: kws.append([next(p[0] for p in sig if p[1] == 'VarPos'), {'i': -7}])
    return args, kws


def atom(rnd, sig, short, extra_names=()):
    ref = (lambda n: ['attr', n]) if short else (lambda n: ['var', n])
    cands = [p for p in sig]
    if not cands and not extra_names:
        return ['const', {'b': rnd.random() < .7}]
    pick = rnd.choice(cands + [[n, 'PosOrKw', None] for n in extra_names])
    n, k = pick[0], pick[1]
    if k == 'VarPos' or k == 'VarKw':
        return ['bin', rnd.choice(['ge', 'eq', 'gt']), ['len', ref(n)], ['const', I(rnd.randint(0, 2))]]
    r = rnd.random()
    if r < .6: return ['bin', rnd.choice(['gt', 'ge']), ref(n), ['const', I(rnd.randint(-1, 6))]]
    if r < .75: return ['bin', rnd.choice(['eq', 'ne']), ref(n), ['const', I(rnd.randint(0, 3))]]
    if r < .85: return ['not', ['isnone', ref(n)]]
    if r < .93: return ref(n)            # truthiness of the raw value (falsy non-bool results)
    return ['bin', 'gt', ['bin', 'add', ref(n), ['const', I(1)]], ['const', I(0)]]


def gen_pred(rnd, sig, short, extra_names=(), raising=0.0, tagbase=100):
    e = atom(rnd, sig, short, extra_names)
    if rnd.random() < .25:
        e = ['bin', rnd.choice(['and', 'or']), e, atom(rnd, sig, short, extra_names)]
    if rnd.random() < raising:
        return ['raise', scn.cls(rnd.choice(['ValueError', 'KeyError', 'RuntimeError'])), tagbase + rnd.randint(0, 50)]
    return e


class Ids:
    def __init__(self): self.n = 0
    def __call__(self):
        self.n += 1
        return self.n


def gen_sval(rnd, ids, fsig, *, form=None, extra_names=(), result_only=False, raising=0.0, custom=.25, underscore_first=0.0):
    """a validator. form: explicit | short | None (random). result_only: post-style validator over one value."""
    form = form or rnd.choice(['explicit', 'explicit', 'short'])
    if result_only:
        if form == 'short':
            # deal.post with a `_` validator binds the result to the function's own signature (known defect): keep it rare
            vsig = [['_', 'PosOrKw', None]]; e = gen_pred(rnd, [['result', 'PosOrKw', None]], True, raising=raising)
        else:
            vsig = [['result', 'PosOrKw', None]]; e = gen_pred(rnd, vsig, False, raising=raising)
    elif form == 'short':
        vsig = [['_', 'PosOrKw', None]]
        e = gen_pred(rnd, fsig + [[n, 'PosOrKw', None] for n in extra_names], True, raising=raising)
    else:
        vsig = [list(p) for p in fsig] + [[n, 'KwOnly', None] for n in extra_names]
        # keep **kw last
        vk = [p for p in vsig if p[1] == 'VarKw']; vsig = [p for p in vsig if p[1] != 'VarKw'] + vk
        e = gen_pred(rnd, fsig, False, extra_names, raising=raising)
        if underscore_first and vsig and vsig[0][1] in ('PosOnly', 'PosOrKw') and len(vsig) > 1 and rnd.random() < underscore_first \
                and all(p[2] is not None or p[1] in ('VarPos', 'VarKw') for p in vsig[1:]):
            # an explicit validator whose first parameter happens to be called `_` and whose other parameters have defaults
            # (`lambda _, limit=10: _ < limit`): it is still an explicit validator, `_` is the first argument
            old_name = vsig[0][0]
            def ren(x):
                if isinstance(x, list):
                    if len(x) == 2 and x[0] == 'var' and x[1] == old_name: return ['var', '_']
                    return [ren(y) for y in x]
                return x
            vsig[0][0] = '_'; e = ren(e)
    if rnd.random() < .3:
        e = ['ormsg', e, rnd.choice(['bad value', 'nope', 'x must be positive'])]
    msg = rnd.choice(['configured message', 'msg']) if rnd.random() < .3 else None
    exc = None
    r = rnd.random()
    if r < custom:
        c = rnd.choice(['ValueError', 'KeyError', 'PreContractError', 'PostContractError', 'ContractError', 'UserErr'])
        cj = scn.cls(c, ['Exception']) if c == 'UserErr' else scn.cls(c)
        exc = ['class', cj] if rnd.random() < .5 else ['inst', cj, [S('instance text')] if rnd.random() < .7 else []]
    return {'id': ids(), 'sig': vsig, 'expr': e, 'msg': msg, 'exc': exc}


def canonical(sc) -> str:
    import json
    return json.dumps(sc, sort_keys=True)
