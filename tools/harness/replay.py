"""./check Cxx --replay FILE : re-execute one recorded violation (scenario on the implementation + monitor) or re-check an obligation."""
from __future__ import annotations
import json, sys
from . import coq, scn


def replay(fam, pid, path) -> int:
    v = json.load(open(path))
    if 'scenario' not in v and 'funs' in v:
        v = {'scenario': v}
    if 'scenario' not in v:
        # an obligation replay: rebuild the property file against the current tree
        with coq.Lock():
            coq.mirror(); rep = coq.translate()
            ok, log = coq.make([f'Props/{pid}.vo'])
        print(json.dumps({k: v.get(k) for k in ('kind', 'theorem', 'coq_error', 'translation')}, indent=1))
        print('re-check:', 'compiles' if ok else 'STILL BROKEN')
        if not ok:
            print(json.dumps(coq.first_error(log), indent=1))
            print(f'VIOLATION property={pid} replay={path} no-failing-input-found')
        return 0 if ok else 1
    if hasattr(fam, 'replay'):
        return fam.replay(v, path)
    sc = v['scenario']
    obs = scn.run_impl([sc])[0]
    print('observation:', obs)
    res = fam.monitor(sc, obs)
    for what, tag in res:
        print('monitor:', what, f'[{tag}]' if tag else '')
    if res:
        print(f'VIOLATION property={pid} replay={path}')
        return 1
    print('monitor: property holds on this scenario')
    return 0
