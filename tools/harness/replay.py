"""./check Cxx --replay FILE : re-execute one recorded violation (scenario on the implementation + monitor) or re-check an obligation."""
from __future__ import annotations
import json, sys
from . import coq, scn


def replay(fam, pid, path) -> int:
    v = json.load(open(path))
    if 'scenario' not in v and 'funs' in v:
        v = {'scenario': v}
    # corpus inputs of the non-scenario families (known_findings.json points at them)
    if 'scenario' not in v and 'funcs' in v: v = {'scenario': {'module': v}}
    elif 'scenario' not in v and ('src' in v or 'invs' in v or 'classes' in v or 'actions' in v): v = {'scenario': v}
    if 'scenario' not in v:
        # an obligation replay: rebuild the property file against the current tree
        with coq.Lock():
            coq.mirror(); rep = coq.translate()
            ok, log = coq.make([f'Props/{pid}.vo'])
        print(json.dumps({k: v.get(k) for k in ('kind', 'theorem', 'coq_error', 'translation')}, indent=1))
        print('re-check:', 'compiles' if ok else 'STILL BROKEN')
        if not ok:
            print(json.dumps(coq.first_error(log), indent=1))
            print(f'VIOLATION property={pid} replay={path} no-failing-input-found')
        return 0 if ok else 1
    if hasattr(fam, 'replay'):
        return fam.replay(v, path)
    sc = v['scenario']
    if not (isinstance(sc, dict) and ('funs' in sc or 'contracts' in sc)):
        return replay_by_rerun(fam, pid, path, v)
    obs = scn.run_impl([sc])[0]
    print('observation:', obs)
    res = fam.monitor(sc, obs)
    for what, tag in res:
        print('monitor:', what, f'[{tag}]' if tag else '')
    if res:
        print(f'VIOLATION property={pid} replay={path}')
        return 1
    print('monitor: property holds on this scenario')
    return 0


def replay_by_rerun(fam, pid, path, v) -> int:
    """families whose scenarios are not scenario-language terms: feed the recorded input back to the family (monitor only) when its
    run() accepts inputs, else re-run the family with the recorded seed and tier and look for the recorded input"""
    from .core import FamilyResult, Ctx
    import inspect
    sc = v['scenario']
    ctx = Ctx(pid, v.get('tier', 'quick'), int(v.get('seed', 0) or 0))
    fr = FamilyResult()
    params = inspect.signature(fam.run).parameters
    kw = None
    if pid == 'C16' and 'files' in params and 'src' in sc: kw = {'files': [{'src': sc['src'], 'origin': sc.get('origin', 'replay'), 'name': 'm0000.py'}]}
    elif pid == 'C17' and 'cases' in params and 'src' in sc: kw = {'cases': [{'src': sc['src'], 'items': [sc['item']] if 'item' in sc else [], 'helpers': ''}]}
    elif pid == 'C18' and 'mods' in params and 'module' in sc: kw = {'mods': [sc['module']]}
    elif pid == 'C19' and 'cases' in params and 'src' in sc: kw = {'cases': [{'src': sc['src'], 'types': sc['types'], 'quote': sc.get('quote', "'"), 'origin': sc.get('origin')}]}
    if kw is not None:
        fam.run(ctx, fr, model_available=False, **kw)
        hits = fr.violations
    else:
        fam.run(ctx, fr, model_available=False)
        key = json.dumps(sc, sort_keys=True, default=str)
        hits = [x for x in fr.violations if json.dumps(x.get('scenario'), sort_keys=True, default=str) == key]
        if not hits and v.get('what'):
            hits = [x for x in fr.violations if x.get('what') == v['what']]
    for x in hits[:5]:
        print('monitor:', x.get('what'), f"[{x.get('signature')}]" if x.get('signature') else '')
    if hits:
        print(f'VIOLATION property={pid} replay={path}')
        return 1
    print('monitor: the recorded input does not violate the property on this tree')
    return 0
