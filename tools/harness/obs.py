"""Parsing of observation text (one string per scenario, '|'-separated lines) into per-action records."""
from __future__ import annotations
import re


class Act:
    def __init__(self, events, outcome, snap):
        self.events, self.outcome, self.snap = events, outcome, snap

    @property
    def kind(self): return self.outcome.split(' ', 1)[0]          # R | X | Y | STOP
    @property
    def value(self): return self.outcome.split(' ', 1)[1] if ' ' in self.outcome else ''
    @property
    def exc_class(self): return self.outcome.split(' ')[1] if self.kind == 'X' else None
    def field(self, name):
        m = re.search(r' %s=(<[^>]*>|\{.*?\}(?= origin=| cause=)|\[.*?\](?= cause=)|\S+)' % name, self.outcome)
        return m.group(1) if m else None
    def bodies(self): return [e for e in self.events if e.startswith('B ')]
    def validators(self): return [int(e.split(' ')[1]) for e in self.events if e.startswith('V ')]
    def effects(self): return [e for e in self.events if e[:2] in ('E ', 'K ')]


def split(obs: str) -> list[Act] | None:
    if obs is None or obs.startswith('<'):
        return None
    acts, cur = [], []
    for line in obs.split('|'):
        if line.startswith('S ') and cur:
            acts.append(Act(cur[:-1], cur[-1], line)); cur = []
        else:
            cur.append(line)
    return acts
