"""Source pin, group 'contracts': see tr_objmodel.py"""
from . import tr_objmodel
SRC = tr_objmodel.GROUPS['contracts']
OUT = 'Pin_contracts.v'


def translate(repo: str):
    return tr_objmodel.translate(repo, 'contracts')
