"""Residual pins, group 'lintrules': see tr_rest.py"""
from . import tr_rest
SRC = ' + '.join(tr_rest.GROUPS['lintrules'])
OUT = 'Rest_lintrules.v'


def translate(repo: str):
    return tr_rest.translate(repo, 'lintrules')
