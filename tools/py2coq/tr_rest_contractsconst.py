"""Residual pins, group 'contractsconst': see tr_rest.py"""
from . import tr_rest
SRC = ' + '.join(tr_rest.GROUPS['contractsconst'])
OUT = 'Rest_contractsconst.v'


def translate(repo: str):
    return tr_rest.translate(repo, 'contractsconst')
