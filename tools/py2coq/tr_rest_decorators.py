"""Residual pins, group 'decorators': see tr_rest.py"""
from . import tr_rest
SRC = ' + '.join(tr_rest.GROUPS['decorators'])
OUT = 'Rest_decorators.v'


def translate(repo: str):
    return tr_rest.translate(repo, 'decorators')
