"""Residual pins, group 'records': see tr_rest.py"""
from . import tr_rest
SRC = ' + '.join(tr_rest.GROUPS['records'])
OUT = 'Rest_records.v'


def translate(repo: str):
    return tr_rest.translate(repo, 'records')
