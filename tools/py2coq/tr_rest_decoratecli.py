"""Residual pins, group 'decoratecli': see tr_rest.py"""
from . import tr_rest
SRC = ' + '.join(tr_rest.GROUPS['decoratecli'])
OUT = 'Rest_decoratecli.v'


def translate(repo: str):
    return tr_rest.translate(repo, 'decoratecli')
