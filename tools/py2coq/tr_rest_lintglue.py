"""Residual pins, group 'lintglue': see tr_rest.py"""
from . import tr_rest
SRC = ' + '.join(tr_rest.GROUPS['lintglue'])
OUT = 'Rest_lintglue.v'


def translate(repo: str):
    return tr_rest.translate(repo, 'lintglue')
