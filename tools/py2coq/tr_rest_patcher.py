"""Residual pins, group 'patcher': see tr_rest.py"""
from . import tr_rest
SRC = ' + '.join(tr_rest.GROUPS['patcher'])
OUT = 'Rest_patcher.v'


def translate(repo: str):
    return tr_rest.translate(repo, 'patcher')
