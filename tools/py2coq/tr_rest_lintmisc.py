"""Residual pins, group 'lintmisc': see tr_rest.py"""
from . import tr_rest
SRC = ' + '.join(tr_rest.GROUPS['lintmisc'])
OUT = 'Rest_lintmisc.v'


def translate(repo: str):
    return tr_rest.translate(repo, 'lintmisc')
