"""Residual pins, group 'errors': see tr_rest.py"""
from . import tr_rest
SRC = ' + '.join(tr_rest.GROUPS['errors'])
OUT = 'Rest_errors.v'


def translate(repo: str):
    return tr_rest.translate(repo, 'errors')
