"""py2coq engine: typed, shallow, fail-closed translation of Python functions to Gallina text.

A Python statement denotes  stmt env := env -> prog (ctrl * env)  (coq/Core/Prog.v). Statements are
translated structurally; *expressions* are looked up, by their exact `ast.unparse` text, in a per-file
table that gives their Gallina meaning and type. Anything not in the table aborts the translation of
that function (Unsupported): nothing is guessed. A mutation of the source therefore either changes
the generated term (and the proofs about it are re-checked) or makes translation fail (reported).
"""
from __future__ import annotations
import ast, re


class Unsupported(Exception):
    pass


def sanitize(text: str) -> str:
    """source text quoted in a Coq comment must not open/close comments"""
    return text.replace('(*', '( *').replace('*)', '* )')


class Spec:
    """Per-function translation table.

    locals:  name -> coq type; a record `env` with fields l_<name>, setters set_<name> is expected to exist
             (emit it with `env_record`).
    pure:    unparse text -> coq term of a pure type (may mention `env`)
    prog:    unparse text -> coq term of type prog X (effectful expression / call)
    cond:    unparse text -> coq term of type prog bool
    skip:    list of regexes; a statement whose unparse matches is abstracted to s_skip (recorded)
    stmts:   unparse text -> coq stmt term (escape hatch for whole statements)
    handlers: exception class name -> coq predicate exn -> bool
    setters: assignment target text -> coq function  X -> env -> prog unit   (for attribute targets)
    """
    def __init__(self, *, locals=None, pure=None, prog=None, cond=None, skip=(), stmts=None,
                 handlers=None, setters=None, iters=None, calls=None, env='env', fuel='fuel', ret_none='VNone'):
        self.locals = locals or {}
        self.pure = pure or {}
        self.prog = prog or {}
        self.cond = cond or {}
        self.skip = [re.compile(s) for s in skip]
        self.stmts = stmts or {}
        self.handlers = handlers or {}
        self.setters = setters or {}
        self.iters = iters or {}
        # calls: function text -> dict(fn=<coq function>, params=[(name, default coq text | None)], kind='prog'|'pure')
        self.calls = calls or {}
        self.pure_types = {}
        self.ret_none = ret_none
        self.env = env
        self.fuel = fuel


class Tr:
    def __init__(self, spec: Spec, where: str):
        self.s = spec
        self.where = where
        self.cur: list[str] = []      # names of the exceptions being handled (innermost last)
        self.abstracted: list[str] = []
        self.used: list[str] = []

    # ---------------- expressions ----------------
    def txt(self, e) -> str:
        return ast.unparse(e)

    def call_args(self, e: ast.Call, c: dict) -> str:
        names = [n for n, _ in c['params']]
        given = {}
        if any(isinstance(a, ast.Starred) for a in e.args) or any(k.arg is None for k in e.keywords):
            raise Unsupported(f'{self.where}: star arguments in call {self.txt(e)!r}')
        if len(e.args) > len(names):
            raise Unsupported(f'{self.where}: too many arguments in {self.txt(e)!r}')
        for n, a in zip(names, e.args):
            given[n] = self.pure(a)
        for k in e.keywords:
            if k.arg not in names or k.arg in given:
                raise Unsupported(f'{self.where}: keyword {k.arg!r} in {self.txt(e)!r}')
            given[k.arg] = self.pure(k.value)
        out = []
        for n, d in c['params']:
            if n in given: out.append(given[n])
            elif d is not None: out.append(f'({d})')
            else: raise Unsupported(f'{self.where}: missing argument {n!r} in {self.txt(e)!r}')
        return ' '.join(out)

    def pure(self, e) -> str:
        t = self.txt(e)
        if t in self.s.pure:
            return f'({self.s.pure[t]})'
        if isinstance(e, ast.Call) and self.txt(e.func) in self.s.calls and self.s.calls[self.txt(e.func)].get('kind') == 'pure':
            c = self.s.calls[self.txt(e.func)]
            return f'({c["fn"]} {self.call_args(e, c)})'
        if isinstance(e, ast.Name) and e.id in self.s.locals:
            return f'(l_{e.id} env)'
        if isinstance(e, ast.Constant):
            if e.value is True: return 'true'
            if e.value is False: return 'false'
        raise Unsupported(f'{self.where}: pure expression not in table: {t!r}')

    def progx(self, e) -> str:
        """effectful expression -> text of type prog X"""
        if isinstance(e, ast.Await):
            return self.progx(e.value)
        t = self.txt(e)
        if t in self.s.prog:
            return f'({self.s.prog[t]})'
        if isinstance(e, ast.Call) and self.txt(e.func) in self.s.calls and self.s.calls[self.txt(e.func)].get('kind', 'prog') == 'prog':
            c = self.s.calls[self.txt(e.func)]
            return f'({c["fn"]} {self.call_args(e, c)})'
        raise Unsupported(f'{self.where}: effectful expression not in table: {t!r}')

    def any_prog(self, e) -> str:
        try:
            return self.progx(e)
        except Unsupported:
            return f'(Ret {self.pure(e)})'

    def cond(self, e) -> str:
        t = self.txt(e)
        if t in self.s.cond:
            return f'({self.s.cond[t]})'
        if isinstance(e, ast.UnaryOp) and isinstance(e.op, ast.Not):
            return f'(fmap negb {self.cond(e.operand)})'
        if isinstance(e, ast.BoolOp):
            parts = [self.cond(v) for v in e.values]
            out = parts[-1]
            for p in reversed(parts[:-1]):
                if isinstance(e.op, ast.And):
                    out = f'(b__ <- {p} ;; if b__ then {out} else Ret false)'
                else:
                    out = f'(b__ <- {p} ;; if b__ then Ret true else {out})'
            return out
        if isinstance(e, ast.Name) and self.s.locals.get(e.id) == 'bool':
            return f'(Ret (l_{e.id} env))'
        if isinstance(e, ast.Name) and self.s.locals.get(e.id) == 'value':
            return f'(Ret (truthy (l_{e.id} env)))'
        if (isinstance(e, ast.Compare) and len(e.ops) == 1 and isinstance(e.comparators[0], ast.Constant)
                and e.comparators[0].value is None and isinstance(e.ops[0], (ast.Is, ast.IsNot))):
            inner = self.pure(e.left)
            lt = self.s.locals.get(e.left.id) if isinstance(e.left, ast.Name) else self.s.pure_types.get(self.txt(e.left))
            if lt and lt.startswith('option'):
                test = f'opt_is_none {inner}'
            elif lt == 'value':
                test = f'is_none {inner}'
            else:
                raise Unsupported(f'{self.where}: `is None` on untyped expression {t!r}')
            return f'(Ret ({test}))' if isinstance(e.ops[0], ast.Is) else f'(Ret (negb ({test})))'
        raise Unsupported(f'{self.where}: condition not in table: {t!r}')

    # ---------------- statements ----------------
    def parts(self, stmts) -> list[str]:
        """top-level statements of a function, each as its own term (emit_function names every suffix tail<i>)"""
        return [p for p in (self.stmt(s) for s in stmts) if p is not None]

    def parts_named_loops(self, stmts, ctx_params: str, rtype: str):
        """like parts(), but the body of a top-level `while True` is emitted as named definitions loop_stmt<i>/loop_tail<i>
        (returned as extra definition text), so that theorems can address the statements inside the loop"""
        ctx_names = ' '.join(re.findall(r'\((\w+)\s*:', ctx_params))
        out, extra = [], []
        for s in stmts:
            if isinstance(s, ast.While) and isinstance(s.test, ast.Constant) and s.test.value is True and not s.orelse:
                inner = self.parts(s.body)
                n = len(inner)
                extra.append(f'Definition loop_tail{n} {ctx_params} : stmt env {rtype} := s_skip.\n')
                for i in range(n - 1, -1, -1):
                    extra.append(f'Definition loop_stmt{i} {ctx_params} : stmt env {rtype} :=\n {inner[i]}.\n'
                                 f'Definition loop_tail{i} {ctx_params} : stmt env {rtype} := s_seq (loop_stmt{i} {ctx_names}) (loop_tail{i + 1} {ctx_names}).\n')
                out.append(f's_while_true {self.s.fuel} (loop_tail0 {ctx_names})')
            else:
                p = self.stmt(s)
                if p is not None: out.append(p)
        return out, ''.join(extra)

    def block(self, stmts) -> str:
        parts = [self.stmt(s) for s in stmts]
        parts = [p for p in parts if p is not None]
        if not parts:
            return 's_skip'
        out = parts[-1]
        for p in reversed(parts[:-1]):
            out = f's_seq ({p})\n ({out})'
        return out

    def stmt(self, s) -> str | None:
        t = self.txt(s)
        first = t.split('\n')[0]
        for rx in self.s.skip:
            if rx.fullmatch(first) or rx.fullmatch(t):
                self.abstracted.append(f'{self.where}:{s.lineno}: {first}')
                return None
        if t in self.s.stmts:
            return self.s.stmts[t]
        if isinstance(s, ast.Expr) and isinstance(s.value, ast.Constant) and isinstance(s.value.value, str):
            return None   # docstring
        if isinstance(s, ast.Pass):
            return None
        if isinstance(s, ast.AnnAssign) and s.value is None:
            return None   # bare annotation
        if isinstance(s, ast.If):
            return f's_if (fun env => {self.cond(s.test)})\n ({self.block(s.body)})\n ({self.block(s.orelse)})'
        if isinstance(s, (ast.Assign, ast.AnnAssign)):
            targets = s.targets if isinstance(s, ast.Assign) else [s.target]
            if len(targets) != 1:
                raise Unsupported(f'{self.where}:{s.lineno}: multiple assignment targets')
            tgt = targets[0]
            tt = self.txt(tgt)
            if tt in self.s.setters:
                return f's_do (fun env => x__ <- {self.any_prog(s.value)} ;; {self.s.setters[tt]} x__ env)'
            if isinstance(tgt, ast.Name) and tgt.id in self.s.locals:
                if isinstance(s.value, ast.Yield):
                    return f's_yield_assign set_{tgt.id} (fun env => {self.pure(s.value.value)})'
                return f's_assign set_{tgt.id} (fun env => {self.any_prog(s.value)})'
            raise Unsupported(f'{self.where}:{s.lineno}: assignment target {tt!r}')
        if isinstance(s, ast.AugAssign):
            tt = self.txt(s)
            raise Unsupported(f'{self.where}:{s.lineno}: augmented assignment {tt!r}')
        if isinstance(s, ast.Expr):
            v = s.value
            if isinstance(v, ast.Yield):
                return f's_yield (fun env => {self.pure(v.value)})'
            if isinstance(v, ast.YieldFrom):
                return f's_do (fun env => g__ <- {self.progx(v.value)} ;; yield_from {self.s.fuel} g__ ;;; Ret tt)'
            return f's_do (fun env => {self.progx(v)})'
        if isinstance(s, ast.Return):
            if s.value is None:
                return f's_return (fun env => Ret {self.s.ret_none})'
            return f's_return (fun env => {self.any_prog(s.value)})'
        if isinstance(s, ast.Raise):
            if s.exc is None and s.cause is None:
                if not self.cur:
                    raise Unsupported(f'{self.where}:{s.lineno}: bare raise outside handler')
                return f's_raise_exn {self.cur[-1]}'
            if s.cause is None:
                return f's_raise (fun env => {self.any_prog(s.exc)})'
            return (f's_raise (fun env => x__ <- {self.any_prog(s.exc)} ;; '
                    f'Ret (with_cause x__ (option_map e_id {self.pure(s.cause)})))')
        if isinstance(s, ast.For) and isinstance(s.target, ast.Name) and not s.orelse:
            if s.target.id not in self.s.locals:
                raise Unsupported(f'{self.where}:{s.lineno}: untyped loop variable {s.target.id}')
            it = self.txt(s.iter)
            src = self.s.iters.get(it) or self.s.pure.get(it)
            if src is None:
                raise Unsupported(f'{self.where}:{s.lineno}: iterable not in table: {it!r}')
            return f's_for set_{s.target.id} (fun env => ({src}))\n ({self.block(s.body)})'
        if isinstance(s, ast.While) and isinstance(s.test, ast.Constant) and s.test.value is True and not s.orelse:
            return f's_while_true {self.s.fuel}\n ({self.block(s.body)})'
        if isinstance(s, ast.Try) and not s.orelse:
            hs = []
            for h in s.handlers:
                cls = self.txt(h.type) if h.type is not None else None
                if cls not in self.s.handlers:
                    raise Unsupported(f'{self.where}:{h.lineno}: except clause {cls!r}')
                if h.name and h.name not in self.s.locals:
                    raise Unsupported(f'{self.where}:{h.lineno}: untyped handler variable {h.name}')
                bindv = f'(Some set_{h.name})' if h.name else 'None'
                self.cur.append(f'cur{len(self.cur)}')
                hs.append(f'({self.s.handlers[cls]}, {bindv}, fun {self.cur[-1]} => {self.block(h.body)})')
                self.cur.pop()
            body = self.block(s.body)
            out = f's_try ({body})\n [{"; ".join(hs)}]' if hs else body
            if s.finalbody:
                out = f's_finally ({out})\n ({self.block(s.finalbody)})'
            return out
        raise Unsupported(f'{self.where}:{s.lineno}: statement {type(s).__name__}: {first!r}')


def env_record(name: str, fields: dict[str, tuple[str, str]]) -> str:
    """fields: local -> (coq type, default term). Emits Record <name> with l_x projections and set_x setters."""
    fs = list(fields.items())
    rec = f'Record {name} := {{ ' + '; '.join(f'l_{n} : {t}' for n, (t, _) in fs) + ' }.\n'
    out = [rec]
    for n, (t, _) in fs:
        body = '; '.join(f'l_{m} := ' + ('v' if m == n else f'l_{m} e') for m, _ in fs)
        out.append(f'Definition set_{n} (v : {t}) (e : {name}) : {name} := {{| {body} |}}.\n')
    init = '; '.join(f'l_{n} := {d}' for n, (_, d) in fs)
    out.append(f'Definition {name}0 : {name} := {{| {init} |}}.\n')
    return ''.join(out)


def find_function(tree: ast.Module, qualname: str):
    parts = qualname.split('.')
    body = tree.body
    node = None
    for i, p in enumerate(parts):
        cands = [n for n in body if isinstance(n, (ast.ClassDef, ast.FunctionDef, ast.AsyncFunctionDef)) and n.name == p]
        node = cands[-1] if cands else None     # the last definition wins (typing overloads come first)
        if node is None:
            raise Unsupported(f'{qualname}: not found')
        body = node.body
    return node


def params_of(fn) -> list[str]:
    a = fn.args
    out = [x.arg for x in a.posonlyargs + a.args]
    if a.vararg: out.append('*' + a.vararg.arg)
    out += [x.arg for x in a.kwonlyargs]
    if a.kwarg: out.append('**' + a.kwarg.arg)
    return out


def decorators_of(fn) -> list[str]:
    return [ast.unparse(d) for d in fn.decorator_list]


def emit_function(mod: str, comment: str, fields: dict[str, tuple[str, str]], rtype: str, rdefault: str,
                  body: str, ctx_params: str = '', args: list[str] = (), extra_defs: str = '') -> str:
    """One translated Python function as a Coq Module: its locals record, its body as a statement, and `run`.
    ctx_params: binder text of parameters that are not locals (e.g. '(fuel : nat) (self : contracts)');
    args: the locals that are parameters of the Python function (initialised from run's arguments)."""
    ctx_names = ' '.join(re.findall(r'\((\w+)\s*:', ctx_params))
    arg_binders = ' '.join(f'({a} : {fields[a][0]})' for a in args)
    init = 'env0'
    for a in args:
        init = f'(set_{a} {a} {init})'
    if isinstance(body, list):
        # one definition per suffix of the statement list: tail<i> = statements i.. ; body = tail0
        n = len(body)
        defs = [f'Definition tail{n} {ctx_params} : stmt env {rtype} := s_skip.\n']
        for i in range(n - 1, -1, -1):
            defs.append(f'Definition stmt{i} {ctx_params} : stmt env {rtype} :=\n {body[i]}.\n'
                        f'Definition tail{i} {ctx_params} : stmt env {rtype} := s_seq (stmt{i} {ctx_names}) (tail{i + 1} {ctx_names}).\n')
        body_def = extra_defs + ''.join(defs) + f'Definition body {ctx_params} : stmt env {rtype} := tail0 {ctx_names}.\n'
    else:
        body_def = f'Definition body {ctx_params} : stmt env {rtype} :=\n {body}.\n'
    return (f'(* {sanitize(comment)} *)\nModule {mod}.\n' + env_record('env', fields) + body_def +
            f'Definition run {ctx_params} {arg_binders} : prog {rtype} := run_body (body {ctx_names}) {init} {rdefault}.\n'
            f'End {mod}.\n\n')
