"""Residual pins, group 'transformerconst': see tr_rest.py"""
from . import tr_rest
SRC = ' + '.join(tr_rest.GROUPS['transformerconst'])
OUT = 'Rest_transformerconst.v'


def translate(repo: str):
    return tr_rest.translate(repo, 'transformerconst')
