"""Residual pins, group 'errsource': see tr_rest.py"""
from . import tr_rest
SRC = ' + '.join(tr_rest.GROUPS['errsource'])
OUT = 'Rest_errsource.v'


def translate(repo: str):
    return tr_rest.translate(repo, 'errsource')
