"""Residual pins, group 'dispatch': see tr_rest.py"""
from . import tr_rest
SRC = ' + '.join(tr_rest.GROUPS['dispatch'])
OUT = 'Rest_dispatch.v'


def translate(repo: str):
    return tr_rest.translate(repo, 'dispatch')
