"""Residual pins, group 'testing': see tr_rest.py"""
from . import tr_rest
SRC = ' + '.join(tr_rest.GROUPS['testing'])
OUT = 'Rest_testing.v'


def translate(repo: str):
    return tr_rest.translate(repo, 'testing')
