"""Residual pins, group 'lintcontract': see tr_rest.py"""
from . import tr_rest
SRC = ' + '.join(tr_rest.GROUPS['lintcontract'])
OUT = 'Rest_lintcontract.v'


def translate(repo: str):
    return tr_rest.translate(repo, 'lintcontract')
