"""Source pin, group 'inherit': see tr_objmodel.py"""
from . import tr_objmodel
SRC = tr_objmodel.GROUPS['inherit']
OUT = 'Pin_inherit.v'


def translate(repo: str):
    return tr_objmodel.translate(repo, 'inherit')
