"""Residual pins, group 'validators': see tr_rest.py"""
from . import tr_rest
SRC = ' + '.join(tr_rest.GROUPS['validators'])
OUT = 'Rest_validators.v'


def translate(repo: str):
    return tr_rest.translate(repo, 'validators')
