"""Source pin, group 'invariant': see tr_objmodel.py"""
from . import tr_objmodel
SRC = tr_objmodel.GROUPS['invariant']
OUT = 'Pin_invariant.v'


def translate(repo: str):
    return tr_objmodel.translate(repo, 'invariant')
