"""Residual source pins: the functions of the modelled source files that are neither translated nor pinned by a model-specific pin
file. They are helpers the translated / modelled code calls (mapped by name in the translators' tables or abstracted in the hand
models), so a change in one of them can change what a theorem is about without touching a translated function. One group per family
of properties; `python3 -m tools.py2coq.tr_rest /repo` rewrites rest_pins.json from the current tree."""
from __future__ import annotations
import ast, json, os, hashlib, difflib
from .engine import Unsupported, find_function

PINS = os.path.join(os.path.dirname(os.path.abspath(__file__)), 'rest_pins.json')
GROUPS = {
    'validators': {'deal/_runtime/_validators.py': ['<constants>', '_get_signature', 'AttrDict.__getattr__', 'Validator.exception_type', 'Validator._wrap_vaa', 'Validator.init', 'Validator._init',
                                                    'Validator._vaa_validation', 'RaisesValidator.__init__', 'RaisesValidator.init', 'RaisesValidator._init', 'ReasonValidator.__init__',
                                                    'InvariantValidator._vaa_validation']},
    'patcher': {'deal/_runtime/_has_patcher.py': ['<constants>', 'PatchedStringIO.__init__', 'PatchedSocket.__init__', 'HasPatcher.exception_type']},
    'state': {'deal/_state.py': ['<constants>', '_State._warn_if']},
    'dispatch': {'deal/_runtime/_dispatch.py': ['<constants>', 'Dispatch.wrap'], 'deal/_runtime/_decorators.py': ['dispatch'], 'deal/_exceptions.py': ['NoMatchError.__init__', 'NoMatchError.__str__']},
    'errors': {'deal/_exceptions.py': ['<constants>', 'ContractError.__init__', 'ContractError.source', 'ContractError.colored_source', 'ContractError.variables', 'ContractError.__str__']},
    'decorators': {'deal/_runtime/_decorators.py': ['implies', 'catch', 'inherit', 'safe', 'pure', 'dispatch']},
    'testing': {'deal/_testing.py': ['<constants>', 'TestCase._check_result', 'cases.__init__', 'cases.__iter__', 'cases.__repr__', 'cases._make_case', 'cases._contracts', 'cases._pres', 'cases.strategy',
                                     'cases._default_settings', 'cases.__call__', 'cases.__func__', 'cases._run', 'cases._impersonate']},
    'imports': {'deal/_imports.py': ['<constants>', 'DealLoader.__init__', 'DealLoader.__getattr__']},
    'lintcontract': {'deal/linter/_contract.py': ['<constants>', 'Contract.__init__', 'Contract.validator', 'Contract.raw_validator', 'Contract.arguments', 'Contract.dependencies', 'Contract._resolve_name',
                                                  'Contract.exceptions', 'Category.brackets_optional'],
                     'deal/linter/_func.py': ['Func.line', 'Func.col', 'Func.has_self', 'Func.from_text', 'Func.from_ast', 'Func._get_funcs_ast', 'Func.from_astroid', 'Func._get_funcs_astroid',
                                              'Func.has_contract'],
                     'deal/linter/_extractors/contracts.py': ['<constants>', 'get_contracts', '_get_contracts', '_resolve_inherit']},
    'trace': {'deal/_trace.py': ['trace'], 'deal/_cli/_test.py': ['sys_path', 'fast_iterator', 'run_cases', 'TestCommand.run_tests'],
              'deal/_mem_test.py': ['MemoryTracker.__enter__', 'MemoryTracker.__exit__'], 'deal/_cli/_memtest.py': ['run_cases', 'MemtestCommand.run_tests']},
    'decoratecli': {'deal/_cli/_decorate.py': ['<constants>', 'DecorateCommand.__call__']},
    'lintglue': {'deal/linter/_extractors/returns.py': ['handle_return', 'handle_yield'],
                 'deal/linter/_extractors/definitions.py': ['get_definitions', '_extract_defs_ast', '_extract_defs_astroid'],
                 'deal/linter/_extractors/common.py': ['<constants>', 'get_name', 'get_full_name', 'infer', 'get_stub', '_get_module']},
    'linttables': {'deal/linter/_extractors/markers.py': ['<constants>'], 'deal/linter/_extractors/exceptions.py': ['<constants>'], 'deal/linter/_stub.py': ['<constants>'],
                   'deal/linter/_template.py': ['<constants>', 'inject']},
    'transformerconst': {'deal/linter/_transformer.py': ['<constants>']},
    'contractsconst': {'deal/_runtime/_contracts.py': ['<constants>'], 'deal/_runtime/_invariant.py': ['<constants>'], 'deal/_runtime/_inherit.py': ['<constants>'],
                       'deal/introspection/_extractor.py': ['<constants>'], 'deal/_runtime/_decorators.py': ['<constants>']},
    'errsource': {'deal/_source.py': ['<file>']},
    'records': {'deal/introspection/_wrappers.py': ['<file>']},
    'stubfile': {'deal/linter/_stub.py': ['StubFile.__init__', 'StubFile.load', 'StubFile.dump', 'StubFile.add', 'StubFile.get', 'StubsManager.__init__', 'StubsManager.read',
                                          'StubsManager._get_module_name', 'StubsManager.get', 'StubsManager.create', '_get_funcs']},
    'climain': {'deal/_cli/_main.py': ['<file>'], 'deal/_cli/_common.py': ['<file>'], 'deal/__main__.py': ['<file>'], 'deal/linter/__main__.py': ['<file>'], 'deal/_cli/_base.py': ['<file>']},
    'lintmisc': {'deal/linter/_extractors/result.py': ['<file>'], 'deal/linter/_extractors/asserts.py': ['<file>'], 'deal/linter/_extractors/imports.py': ['<file>'],
                 'deal/linter/_extractors/__init__.py': ['<file>'], 'deal/_cached_property.py': ['<file>']},
    'lintrules': {'deal/linter/_rules.py': ['<constants>', 'register', 'CheckImports.__call__', 'CheckEnsureArgs.__call__', 'CheckEnsureArgs._check', 'CheckReturns.__call__', 'CheckExamples.__call__', 'CheckAsserts.__call__'],
                  'deal/linter/_checker.py': ['<constants>', 'Checker.__init__', 'Checker.from_path']},
}


def constants_of(tree):
    """module-level and class-level assignments (tables, regular expressions, codes, enum members, sentinels): unparsed, joined"""
    out = []
    for n in tree.body:
        if isinstance(n, (ast.Assign, ast.AnnAssign, ast.AugAssign)):
            out.append(ast.unparse(n))
        elif isinstance(n, ast.ClassDef):
            for m in n.body:
                if isinstance(m, (ast.Assign, ast.AnnAssign)) and not (isinstance(m, ast.AnnAssign) and m.value is None):
                    out.append(f'{n.name}: ' + ast.unparse(m))
    return '\n'.join(out)


def all_defs(tree, name):
    if name == '<constants>':
        return constants_of(tree)
    if name == '<file>':
        return ast.unparse(tree)
    """every definition with this qualified name (overloads): unparsed, joined"""
    parts = name.split('.')
    def find(body, ps):
        out = []
        for n in body:
            if isinstance(n, (ast.FunctionDef, ast.AsyncFunctionDef, ast.ClassDef)) and n.name == ps[0]:
                if len(ps) == 1: out.append(n)
                elif isinstance(n, ast.ClassDef): out += find(n.body, ps[1:])
        return out
    nodes = find(tree.body, parts)
    if not nodes: raise Unsupported(f'{name}: not found')
    return '\n'.join(ast.unparse(n) for n in nodes)


def current(repo, group):
    out = {}
    for path, names in GROUPS[group].items():
        tree = ast.parse(open(f'{repo}/{path}').read())
        for n in names:
            out[f'{path}:{n}'] = all_defs(tree, n)
    return out


def translate(repo: str, group: str):
    pins = json.load(open(PINS)).get(group, {})
    cur = current(repo, group)
    info = {'functions': [], 'abstracted': []}
    for key, text in pins.items():
        if cur.get(key) != text:
            d = '\n'.join(list(difflib.unified_diff(text.split('\n'), (cur.get(key) or '').split('\n'), lineterm='', n=1))[:20])
            raise Unsupported(f'{key}: a helper the model abstracts (or maps by name) changed:\n{d}')
        info['functions'].append(key + ' (pinned helper)')
    rows = [f'  ("{k}", "{hashlib.sha1(v.encode()).hexdigest()}")' for k, v in pins.items()]
    out = (f'(* GENERATED by tools/py2coq/tr_rest.py -- residual pins, group {group} *)\nFrom Coq Require Import String List.\nImport ListNotations.\nOpen Scope string_scope.\n'
           f'Definition REST_{group} : list (string * string) := [\n' + ';\n'.join(rows) + '\n].\n')
    return out, info


if __name__ == '__main__':
    import sys
    json.dump({g: current(sys.argv[1], g) for g in GROUPS}, open(PINS, 'w'), indent=1)
