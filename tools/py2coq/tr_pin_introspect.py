"""Source pin, group 'introspect': see tr_objmodel.py"""
from . import tr_objmodel
SRC = tr_objmodel.GROUPS['introspect']
OUT = 'Pin_introspect.v'


def translate(repo: str):
    return tr_objmodel.translate(repo, 'introspect')
