"""Residual pins, group 'state': see tr_rest.py"""
from . import tr_rest
SRC = ' + '.join(tr_rest.GROUPS['state'])
OUT = 'Rest_state.v'


def translate(repo: str):
    return tr_rest.translate(repo, 'state')
