"""Residual pins, group 'climain': see tr_rest.py"""
from . import tr_rest
SRC = ' + '.join(tr_rest.GROUPS['climain'])
OUT = 'Rest_climain.v'


def translate(repo: str):
    return tr_rest.translate(repo, 'climain')
