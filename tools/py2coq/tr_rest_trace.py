"""Residual pins, group 'trace': see tr_rest.py"""
from . import tr_rest
SRC = ' + '.join(tr_rest.GROUPS['trace'])
OUT = 'Rest_trace.v'


def translate(repo: str):
    return tr_rest.translate(repo, 'trace')
