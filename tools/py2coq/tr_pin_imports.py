"""Source pin, group 'imports': see tr_objmodel.py"""
from . import tr_objmodel
SRC = tr_objmodel.GROUPS['imports']
OUT = 'Pin_imports.v'


def translate(repo: str):
    return tr_objmodel.translate(repo, 'imports')
