"""Residual pins, group 'imports': see tr_rest.py"""
from . import tr_rest
SRC = ' + '.join(tr_rest.GROUPS['imports'])
OUT = 'Rest_imports.v'


def translate(repo: str):
    return tr_rest.translate(repo, 'imports')
