"""Regenerate coq/Gen/*.v from the current /repo tree.  python3 -m tools.py2coq <repo> <outdir>  -> JSON report on stdout"""
from __future__ import annotations
import sys, os, json, importlib, traceback
from .engine import Unsupported

MODULES = ['tr_state', 'tr_validators', 'tr_has_patcher', 'tr_contracts', 'tr_rules', 'tr_decorators', 'tr_dispatch', 'tr_invariant', 'tr_extractor', 'tr_attach', 'tr_objmodel', 'tr_pin_contracts', 'tr_pin_introspect', 'tr_pin_inherit', 'tr_pin_invariant', 'tr_pin_imports', 'tr_testing', 'tr_transformer', 'tr_lint', 'tr_lintdriver', 'tr_lintexec'] + ['tr_rest_' + g for g in ['validators', 'patcher', 'state', 'dispatch', 'errors', 'decorators', 'testing', 'imports', 'lintcontract', 'lintrules', 'trace', 'decoratecli', 'lintglue', 'linttables', 'transformerconst', 'contractsconst', 'errsource', 'records', 'stubfile', 'climain', 'lintmisc']]


def run(repo: str, outdir: str, modules=None) -> dict:
    os.makedirs(outdir, exist_ok=True)
    report = {}
    for m in (modules or MODULES):
        mod = importlib.import_module(f'tools.py2coq.{m}')
        entry = {'source': mod.SRC, 'out': mod.OUT}
        try:
            text, info = mod.translate(repo)
            entry.update(ok=True, **info)
            p = os.path.join(outdir, mod.OUT)
            old = open(p).read() if os.path.exists(p) else None
            if old != text:
                with open(p, 'w') as f:
                    f.write(text)
                entry['changed'] = True
        except Unsupported as e:
            entry.update(ok=False, error=str(e))
        except Exception as e:   # fail closed on anything
            entry.update(ok=False, error='translator crashed: ' + ''.join(traceback.format_exception_only(type(e), e)).strip())
        report[m] = entry
    return report


if __name__ == '__main__':
    rep = run(sys.argv[1], sys.argv[2], sys.argv[3:] or None)
    json.dump(rep, sys.stdout, indent=1)
    sys.exit(0 if all(e['ok'] for e in rep.values()) else 2)
