"""Residual pins, group 'linttables': see tr_rest.py"""
from . import tr_rest
SRC = ' + '.join(tr_rest.GROUPS['linttables'])
OUT = 'Rest_linttables.v'


def translate(repo: str):
    return tr_rest.translate(repo, 'linttables')
