"""Residual pins, group 'stubfile': see tr_rest.py"""
from . import tr_rest
SRC = ' + '.join(tr_rest.GROUPS['stubfile'])
OUT = 'Rest_stubfile.v'


def translate(repo: str):
    return tr_rest.translate(repo, 'stubfile')
