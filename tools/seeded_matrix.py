#!/venv/bin/python
"""Run every claimed check (quick tier) against every seeded change: tools/seeded_matrix.py [seed dirs...] -> seeded/matrix.json
cell = 'ok' | 'found' (VIOLATION with a failing input) | 'nofail' (VIOLATION ... no-failing-input-found) | 'err:<rc>'"""
import json, os, subprocess, sys, time
ROOT = os.path.dirname(os.path.dirname(os.path.abspath(__file__)))
man = json.load(open(os.path.join(ROOT, 'MANIFEST.json')))
pids = sorted(c['property_id'] for c in (man.get('checks') or man.get('properties') or []))
if not pids or not isinstance(pids[0], str):
    pids = sorted(x.split('.')[0] for x in os.listdir(os.path.join(ROOT, 'evidence')) if x.endswith('.json'))
seeds = sys.argv[1:] or sorted(d for d in os.listdir(os.path.join(ROOT, 'seeded')) if os.path.isdir(os.path.join(ROOT, 'seeded', d)))
mp = os.path.join(ROOT, 'seeded', 'matrix.json')
matrix = json.load(open(mp)) if os.path.exists(mp) else {}
def sh(cmd, **kw): return subprocess.run(cmd, stdout=subprocess.PIPE, stderr=subprocess.STDOUT, text=True, **kw)
for sd in seeds:
    if sh(['git', '-C', '/repo', 'status', '--porcelain', '--untracked-files=no']).stdout.strip():
        print('repo not clean'); sys.exit(2)
    a = sh(['git', '-C', '/repo', 'apply', os.path.join(ROOT, 'seeded', sd, 'patch.diff')])
    if a.returncode: print('apply failed', sd, a.stdout); continue
    row = {}
    try:
        for pid in pids:
            t0 = time.time()
            p = sh([os.path.join(ROOT, 'check'), pid, '--tier', 'quick'], cwd=ROOT)
            vio = [l for l in p.stdout.splitlines() if l.startswith('VIOLATION')]
            if p.returncode == 0 and not vio: cell = 'ok'
            elif p.returncode == 1 and vio: cell = 'nofail' if all('no-failing-input-found' in v for v in vio) else 'found'
            else: cell = f'err:{p.returncode}'
            row[pid] = cell
            print(sd, pid, cell, round(time.time() - t0), flush=True)
    finally:
        sh(['git', '-C', '/repo', 'checkout', '--', '.'])
        sh(['git', '-C', ROOT, 'checkout', '--', 'evidence'])
    matrix[sd] = row
    json.dump(matrix, open(mp, 'w'), indent=1, sort_keys=True)
