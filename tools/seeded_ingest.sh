#!/bin/sh
# tools/seeded_ingest.sh C07 b [extra check ids...] : keep the sub-agent's change as seeded/C07-b, evaluate it, remove the scratch worktree
set -e
id=$1; sfx=$2; shift 2
cd "$(dirname "$0")/.."
mkdir -p seeded/$id-$sfx
cp /tmp/wt/$id.out/patch.diff /tmp/wt/$id.out/demo.py /tmp/wt/$id.out/meta.json seeded/$id-$sfx/
git -C /repo worktree remove --force /tmp/wt/$id 2>/dev/null || true
rm -rf /tmp/wt/$id.out
./tools/seeded_eval.py $id-$sfx "$@" 2>&1 | tail -4
