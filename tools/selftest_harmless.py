#!/usr/bin/env python3
"""Harmless rewrites must not change the regenerated instruction lists: tools/selftest_harmless.py
Copies the translated source files of /repo into a scratch directory, applies rewrites that keep the behaviour (comments, docstrings,
formatting, the alternative spellings the statement tables accept), runs the instruction-list translators on both trees and compares
the generated Coq text. Prints one line per rewrite; exit status 1 if a harmless rewrite changes (or breaks) a translation."""
import os, shutil, sys, tempfile
ROOT = os.path.dirname(os.path.dirname(os.path.abspath(__file__)))
sys.path.insert(0, ROOT)
from tools.py2coq import tr_invariant, tr_extractor, tr_attach          # noqa: E402
from tools.py2coq.engine import Unsupported                            # noqa: E402

REPO = os.environ.get('DEAL_REPO', '/repo')
FILES = ['deal/_runtime/_invariant.py', 'deal/introspection/_extractor.py', 'deal/_runtime/_contracts.py']
REWRITES = [
    ('invariant: loop over getattr(self, ATTR), docstring, comment', tr_invariant, 'deal/_runtime/_invariant.py', [
        ('for validator in self._deal_invariants:', 'for validator in getattr(self, ATTR):  # the same list'),
        ('    def _deal_patched_method(self, method: Callable, *args, **kwargs):',
         '    def _deal_patched_method(self, method: Callable, *args, **kwargs):\n        """validate, call, validate"""')]),
    ('invariant: DEAL_ATTRS as a frozenset of a list, blank lines', tr_invariant, 'deal/_runtime/_invariant.py', [
        ('DEAL_ATTRS = frozenset({', 'DEAL_ATTRS = frozenset([\n'), ("    ATTR,\n})", "    ATTR,\n])")]),
    ('extractor: seen without annotation, comments', tr_extractor, 'deal/introspection/_extractor.py', [
        ('seen: set[int] = set()', 'seen = set()  # ids of the registries already reported')]),
    ('extractor: `is not None` test of the patcher', tr_extractor, 'deal/introspection/_extractor.py', [
        ('if contracts.patcher:', 'if contracts.patcher is not None:')]),
    ('attach: docstrings and comments', tr_attach, 'deal/_runtime/_contracts.py', [
        ('        contracts = cls._ensure_wrapped(func)\n        validator.function = contracts.func',
         '        # one registry per function\n        contracts = cls._ensure_wrapped(func)\n        validator.function = contracts.func')]),
]


def main():
    bad = 0
    for name, mod, path, subs in REWRITES:
        d = tempfile.mkdtemp(prefix='harmless-')
        try:
            for f in FILES:
                os.makedirs(os.path.dirname(os.path.join(d, f)), exist_ok=True)
                shutil.copy(os.path.join(REPO, f), os.path.join(d, f))
            text = open(os.path.join(d, path)).read()
            for a, b in subs:
                if a not in text:
                    print(f'SKIP   {name}: the source no longer contains {a[:40]!r}'); break
                text = text.replace(a, b, 1)
            else:
                open(os.path.join(d, path), 'w').write(text)
                try:
                    same = mod.translate(d)[0] == mod.translate(REPO)[0]
                    print(('same   ' if same else 'DIFFER ') + name)
                    bad += (not same)
                except Unsupported as e:
                    print(f'BROKEN {name}: {e}'); bad += 1
        finally:
            shutil.rmtree(d, ignore_errors=True)
    return 1 if bad else 0


if __name__ == '__main__':
    sys.exit(main())
