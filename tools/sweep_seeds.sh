#!/bin/sh
# tools/sweep_seeds.sh 1 2 3 : every claimed check at the quick tier for each seed (evidence files are restored afterwards)
cd "$(dirname "$0")/.."
for s in "$@"; do
  for p in C01 C02 C03 C04 C05 C06 C07 C08 C09 C10 C11 C12 C13 C14 C15 C16 C17 C18 C19 C20; do
    VERIF_SEED=$s ./check $p --tier quick 2>&1 | grep "VIOLATION\|tier=" | cut -c1-220
  done
done
git checkout -- evidence
