"""C09 -- contracts compose: stacking, chain, reuse of contract objects, foreign decorators."""
from __future__ import annotations
import random, json, sys
from ..harness import scn, gen, obs as O, pyeval
from . import base_scn, compose

pid = 'C09'
gen_modules = ['tr_state', 'tr_validators', 'tr_has_patcher', 'tr_contracts', 'tr_decorators', 'tr_pin_contracts', 'tr_attach', 'tr_rest_validators', 'tr_rest_patcher', 'tr_rest_state', 'tr_rest_contractsconst', 'tr_rest_decorators']
model_targets = ['Sem/ScnObj.v']
hand_modelled = ['coq/Sem/ObjModel.v: attach / attach_has / _ensure_wrapped / update_wrapper / chain / foreign decorators on a heap of function '
                 'objects (hand-written; the source text of these functions is pinned by tools/py2coq/tr_objmodel.py); attach / attach_has are also '
                 'regenerated as instruction lists (Gen/Attach.v) and proved equal to the model (Thm/C09/AttachRefine.v; semantics coq/Sem/AttachCode.v)']
explanation = ('Theorems on the object-graph model: the registry reached by any sequence of decoration steps holds exactly the applied contracts, per kind in '
               'application order, whatever the grouping; a wraps-style foreign layer starts a new registry and stays in the call chain. Correspondence + monitor '
               'over random stacks / chains / shared contract objects / foreign decorators.')
N_QUICK, N_THOROUGH = 400, 3000
RULE = ('2-6 contract objects of every kind, 1-2 functions with different signatures sharing some of them, applied by random sequences of single steps and '
        'chain groups with wraps-style and plain foreign decorators in between; 1-3 calls per function; non-trivial = a function carries >= 2 contracts')
I = lambda n: {'i': n}


def make(rnd, k): return compose.make(rnd, k)


def run_model(name, scs): return scn.run_model_obj(name, scs)


def monitor(sc, obs):
    acts = O.split(obs.split('|Q ')[0])
    if acts is None:
        return [('harness/observation error: ' + str(obs)[:200], None)]
    cs = {cid: it for cid, it in sc['contracts']}
    funs = {f['name']: f for f in sc['funs']}
    out = []
    users = {}
    for f in sc['funs']:
        # the signature of the object a contract is attached to: behind a plain (non-wraps) foreign layer that is (*args, **kwargs)
        app0, foreigns0, _ = compose.applied(f)
        fp = min([l for kind, t, l in foreigns0 if kind == 'plain'], default=None)
        for cid, l in app0: users.setdefault(cid, set()).add(json.dumps(f['sig']) if fp is None or l <= fp else 'STAR')
    for a, act in zip(sc['driver'], acts):
        f = funs[a[1]]; args = a[2]
        app, foreigns, nlayers = compose.applied(f)
        tag = None
        if any(len(users[c]) > 1 and (cs[c][0] in ('pre', 'ensure', 'reason')) for c, _ in app): tag = 'shared_validator_object'
        if any(len({json.dumps(f2['sig']) for f2 in sc['funs']}) > 1 and cs[c][0] == 'pre' and cs[c][1]['sig'] != [['_', 'PosOrKw', None]] and cs[c][1]['sig'] != f['sig'] for c, _ in app):
            tag = tag or 'explicit_validator_other_signature'
        b = pyeval.own_binding(f['sig'], args, [])
        av = b['a'] if b else None
        # reference: layers from the outside in; each layer: pres, then (inside) ..., posts on the way out
        failing = None
        entered_foreign = []
        STAR = [['args', 'VarPos', None], ['kwargs', 'VarKw', None]]
        first_plain = min([l for kind, t, l in foreigns if kind == 'plain'], default=None)
        def vis_sig(layer):   # the signature inspect reports for the function a layer decorates
            return f['sig'] if first_plain is None or layer <= first_plain else STAR
        for layer in range(nlayers, -1, -1):
            for cid, l in app:
                if l != layer or cs[cid][0] != 'pre': continue
                v = dict(cs[cid][1])
                r = pyeval.verdict(v, vis_sig(layer), args, [])
                if r[0] != 'accept': failing = ('pre', cid); break
            if failing: break
            for kind, t, l in foreigns:
                if l == layer - 1: entered_foreign.append(t)
        seen_f = [int(e.split(' ')[1]) for e in act.events if e.startswith('F ')]
        if seen_f != entered_foreign:
            out.append((f'{a[1]}({av}): foreign layers that should run {entered_foreign}, observed {seen_f}; outcome {act.outcome!r}', tag)); continue
        body_ran = bool(act.bodies())
        if failing:
            if body_ran or act.kind != 'X':
                out.append((f'{a[1]}({av}): contract {failing} rejects, but body ran={body_ran}, outcome {act.outcome!r}', tag))
            continue
        if not body_ran:
            out.append((f'{a[1]}({av}): every precondition applied to it accepts, but the body did not run; outcome {act.outcome!r}', tag)); continue
        # the body ran: effects / exceptions / posts decide; every post / ensure applied must have been evaluated unless something failed earlier
        has_ids = [c for c, _ in app if cs[c][0] == 'has']
        blocked = any('stdout' not in cs[c][2] and 'io' not in cs[c][2] and 'print' not in cs[c][2] for c in has_ids)
        layers_with_has = [l for c, l in app if cs[c][0] == 'has']
        if len(layers_with_has) != len(set(layers_with_has)): tag = tag or 'stacked_has_replaces'
        raises_body = (av == 2)
        if raises_body or blocked:
            if act.kind != 'X':
                out.append((f'{a[1]}({av}): the body raises / is blocked, outcome {act.outcome!r}', tag))
            elif raises_body:
                # which exception reaches the caller: registries from the innermost layer outwards, in each one every raises contract, then
                # every reason contract registered for exactly the raised class, in application order
                cj = f['body'][0][2][0][1]; name = cj['name']; mro = [name] + scn.mro_of(cj)
                cur, unknown = name, False
                for layer in range(0, nlayers + 1):
                    for cid, l in app:
                        if l == layer and cs[cid][0] == 'raises' and not any(c['name'] in mro for c in cs[cid][2]):
                            cur = 'RaisesContractError'; break
                    if cur != name: break
                    for cid, l in app:
                        if l == layer and cs[cid][0] == 'reason' and cs[cid][1]['name'] == name:
                            r = pyeval.verdict(cs[cid][2], vis_sig(layer), args, [])
                            if r[0] == 'error': unknown = True; break
                            if r[0] != 'accept': cur = 'ReasonContractError'; break
                    if unknown or cur != name: break
                if not unknown and act.exc_class != cur:
                    out.append((f'{a[1]}({av}): the body raises {name}; the raises / reason contracts applied to it make that {cur} for the caller, observed {act.outcome!r}', tag))
            continue
        evaluated = set(act.validators())
        rej = None
        for layer in range(0, nlayers + 1):
            for cid, l in app:
                if l != layer or cs[cid][0] not in ('post', 'ensure'): continue
                if cs[cid][0] == 'post':
                    r = pyeval.verdict(cs[cid][1], None, [], [], args_override=[I(av)])
                else:
                    r = pyeval.verdict(cs[cid][1], vis_sig(layer), args, [], extra_kw=[['result', I(av)]])
                if r[0] != 'accept' and rej is None: rej = cid
        if rej is None:
            if not (act.kind == 'R' and act.value == f'i{av}'):
                out.append((f'{a[1]}({av}): every applied contract accepts but the outcome is {act.outcome!r}', tag))
            missing = [c for c, _ in app if cs[c][0] in ('pre', 'post', 'ensure') and c not in evaluated]
            if missing and act.kind == 'R':
                out.append((f'{a[1]}({av}): contracts {missing} were applied but never evaluated (evaluated: {sorted(evaluated)})', tag))
        else:
            if act.kind != 'X':
                out.append((f'{a[1]}({av}): contract {rej} rejects the result but the caller got {act.outcome!r}', tag))
    return out


def nontrivial(sc, obs):
    return any(len(compose.applied(f)[0]) >= 2 for f in sc['funs'])


def features(sc, obs):
    return ['foreign' if any(b[0] in ('wraps', 'plain') for f in sc['funs'] for b in f['build']) else 'no-foreign',
            'chain' if any(b[0] == 'chain' for f in sc['funs'] for b in f['build']) else 'no-chain']


_me = sys.modules[__name__]
def run(ctx, fr, model_available=True):
    scs = base_scn.scenarios(_me, ctx.tier, ctx.seed)
    im = scn.run_impl(scs)
    mo, errs = (scn.run_model_obj(pid, scs) if model_available else ([None] * len(scs), []))
    fr.errors += errs
    dist = {}
    for sc, oi, om in zip(scs, im, mo):
        fr.evaluations += 1
        if nontrivial(sc, oi): fr.add_nontrivial(sc)
        for key in features(sc, oi): dist[key] = dist.get(key, 0) + 1
        for what, tag in monitor(sc, oi):
            fr.violations.append({'scenario': sc, 'impl': oi, 'what': what, 'signature': tag})
        if om is not None:
            fr.programs += 1; fr.traces_validated += 1
            # the introspection answers (the Q lines) are C14's subject: composition is compared on the runtime observations only
            if om.split('|Q ')[0] != oi.split('|Q ')[0]: fr.disagreements.append({'scenario': sc, 'impl': oi, 'model': om})
    fr.rule = RULE; fr.samples.append({'scenario': scs[-1], 'impl': im[-1]}); fr.distribution = dict(dist, scenarios=len(scs))
ALIAS_SRC = r"""
import deal, itertools
__name__ = "c09_alias_probe"
def probe():
    # the aliases deal.safe / deal.pure are contracts like the others: every order and grouping of {raises(ValueError), safe} (and pure, with a
    # precondition in between) enforces both
    bad = []
    def body(x):
        if x < 0: raise ValueError("neg")
        return 1
    def fresh(): return (lambda x: body(x))
    variants = {
        "raises above safe": lambda: deal.raises(ValueError)(deal.safe(fresh())),
        "safe above raises": lambda: deal.safe(deal.raises(ValueError)(fresh())),
        "safe() above raises": lambda: deal.safe()(deal.raises(ValueError)(fresh())),
        "pure above raises": lambda: deal.pure(deal.raises(ValueError)(fresh())),
        "raises above pure": lambda: deal.raises(ValueError)(deal.pure(fresh())),
        "chain(raises, safe)": lambda: deal.chain(deal.raises(ValueError), deal.safe)(fresh()),
        "chain(safe, raises)": lambda: deal.chain(deal.safe, deal.raises(ValueError))(fresh()),
        "chain(raises, pure)": lambda: deal.chain(deal.raises(ValueError), deal.pure)(fresh()),
        "safe above pre above raises": lambda: deal.safe(deal.pre(lambda x: True)(deal.raises(ValueError)(fresh()))),
        "raises above pre above safe": lambda: deal.raises(ValueError)(deal.pre(lambda x: True)(deal.safe(fresh()))),
        "safe above safe": lambda: deal.safe(deal.safe(fresh())),
    }
    for name, mk in variants.items():
        f = mk()
        out = []
        for x in (1, -1):
            try: out.append(("returned", f(x)))
            except deal.RaisesContractError: out.append("RaisesContractError")
            except BaseException as e: out.append(("raised", type(e).__name__))
        if out != [("returned", 1), "RaisesContractError"]: bad.append([name, out])
    return bad

def kind_probe():
    # foreign functools.wraps-style decorators that change the kind of the callable (generator function -> context manager factory,
    # generator function -> plain function returning a list, coroutine function -> plain function that runs it): with deal contracts
    # above, below, or on both sides they keep working as without deal, and the contracts that were applied are enforced
    import contextlib, functools, asyncio
    bad = []
    def collect(fn):
        @functools.wraps(fn)
        def w(*a, **k): return list(fn(*a, **k))
        return w
    def run_sync(fn):
        @functools.wraps(fn)
        def w(*a, **k): return asyncio.run(fn(*a, **k))
        return w
    def mk_gen():
        def numbers(n):
            for i in range(n): yield i
        return numbers
    def mk_cm():
        def managed(n):
            yield n * 2
        return managed
    def mk_co():
        async def work(n): return n + 1
        return work
    def use_cm(f, n):
        with f(n) as v: return v
    cases = [("collect", mk_gen, collect, lambda f, n: f(n), 3, [0, 1, 2]),
             ("contextmanager", mk_cm, contextlib.contextmanager, use_cm, 3, 6),
             ("run_sync", mk_co, run_sync, lambda f, n: f(n), 3, 4)]
    for name, mk, foreign, use, good, want in cases:
        for where in ("above", "below", "both"):
            f = mk()
            if where in ("below", "both"): f = deal.post(lambda r: True)(f)
            f = foreign(f)
            if where in ("above", "both"): f = deal.pre(lambda n: n >= 0)(f)
            try: got = use(f, good)
            except BaseException as e: got = ("raised", type(e).__name__)
            if got != want: bad.append([name, where, "result", repr(got), repr(want)])
            if where in ("above", "both"):
                try: use(f, -1); got = "no error"
                except deal.PreContractError: got = "PreContractError"
                except BaseException as e: got = ("raised", type(e).__name__)
                if got != "PreContractError": bad.append([name, where, "precondition above the foreign decorator at the call", repr(got), "PreContractError"])
        # a chain object re-used on two such functions
        ch = deal.chain(deal.pre(lambda n: n >= 0), deal.post(lambda r: r is not None))
        f1, f2 = ch(foreign(mk())), ch(foreign(mk()))
        for f in (f1, f2):
            try: got = use(f, good)
            except BaseException as e: got = ("raised", type(e).__name__)
            if got != want: bad.append([name, "chain re-used above", "result", repr(got), repr(want)])
    return bad
"""


def kind_probe(ctx, fr):
    from ..harness import impl
    r = impl.run_impl('pyexec.py', {'src': ALIAS_SRC, 'calls': [['kind_probe', []]]})[0]
    fr.evaluations += 21; fr.add_nontrivial({'kind_probe': 1})
    fr.samples.append({'family': 'foreign decorators that change the kind of the callable', 'deviations': r})
    if isinstance(r, dict): fr.errors.append('C09 kind probe failed: ' + str(r)[:400])
    elif r:
        fr.violations.append({'scenario': {'family': 'kind-changing-foreign-decorator', 'case': r[0]}, 'impl': r, 'signature': None,
                              'what': f'[foreign decorator, position of the deal contracts, what, got, expected] = {r[0]}: a foreign decorator must keep working as without deal and the applied contracts are enforced'})


def alias_probe(ctx, fr):
    from ..harness import impl
    r = impl.run_impl('pyexec.py', {'src': ALIAS_SRC, 'calls': [['probe', []]]})[0]
    fr.evaluations += 11; fr.add_nontrivial({'alias_probe': 1})
    fr.samples.append({'family': 'aliases safe / pure in every order and grouping', 'deviations': r})
    if isinstance(r, dict): fr.errors.append('C09 alias probe failed: ' + str(r)[:400])
    elif r:
        fr.violations.append({'scenario': {'family': 'aliases', 'case': r[0]}, 'impl': r, 'signature': None,
                              'what': f'{r[0][0]}: outcomes for f(1), f(-1) are {r[0][1]}; with raises(ValueError) and safe both applied f(-1) must be a raises violation in every order and grouping'})


_run_compose = run
def run(ctx, fr, model_available=True):
    _run_compose(ctx, fr, model_available)
    alias_probe(ctx, fr)
    kind_probe(ctx, fr)


def search(ctx, fr, model_available=True): return base_scn.search(_me, ctx, fr, model_available)
classify = base_scn.classify
