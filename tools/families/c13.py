"""C13 -- contract outcomes are independent of interleaving. Family: 2-3 live contracted generators / coroutines, every multiset
permutation of their resumption steps (exhaustive for small sizes); each task's outcomes must equal its solo outcomes and the
globals must be original between steps. Threads: a deterministic two-thread probe on the implementation (not modelled)."""
from __future__ import annotations
import random, json, sys, itertools
from ..harness import scn, gen, obs as O, pyeval, impl
from . import base_scn

pid = 'C13'
gen_modules = ['tr_state', 'tr_validators', 'tr_has_patcher', 'tr_contracts', 'tr_decorators', 'tr_pin_contracts', 'tr_rest_validators', 'tr_rest_patcher', 'tr_rest_state', 'tr_rest_contractsconst', 'tr_dispatch', 'tr_rest_dispatch', 'tr_rest_records']
model_targets = ['Sem/Scenario.v']
hand_modelled = ['the cooperative scheduler: the driver resumes tasks in the order of the schedule; preemptive threads are not modelled']
explanation = ('Theorem: every iteration of the generated generator wrapper returns control to the consumer with the switch and the streams as they '
               'were at resumption. Correspondence + monitor over all interleavings of the steps of 2-3 live generators / coroutines with contracts of every kind; '
               'a thread probe on the implementation.')
N_QUICK, N_THOROUGH = 0, 0
RULE = ('task sets of 2-3 contracted generators / coroutines (has() with random markers, pre/post that accept or reject at a chosen step, bodies that print / '
        'write stderr between yields or awaits), every multiset permutation of their step sequences (<= 3 steps each; all of them for 2 tasks, sampled for 3 in the '
        'quick tier), compared with the sequential schedule; non-trivial = the schedule actually interleaves (is not sequential)')
I = lambda n: {'i': n}
MARKERS = [[], ['stdout'], ['io'], ['stderr'], []]


def task(rnd, ids, name, kind):
    sig = [['n', 'PosOrKw', None]]
    stack = []
    if rnd.random() < .8: stack.append(['has', ids(), rnd.choice(MARKERS), None, None])
    if rnd.random() < .5: stack.append(['pre', {'id': ids(), 'sig': sig, 'expr': ['bin', 'ge', ['var', 'n'], ['const', I(rnd.randint(0, 2))]], 'msg': None, 'exc': None}])
    if rnd.random() < .6: stack.append(['post', {'id': ids(), 'sig': [['r', 'PosOrKw', None]], 'expr': ['bin', 'ne', ['var', 'r'], ['const', I(rnd.randint(0, 3))]], 'msg': None, 'exc': None}])
    rnd.shuffle(stack)
    body = []
    nsteps = rnd.randint(1, 3)
    for j in range(nsteps):
        if rnd.random() < .7: body.append(['effect', rnd.choice(['out', 'err'])])
        body.append(['yield', ['const', I(j)]] if kind == 'gen' else ['await'])
    if rnd.random() < .5: body.append(['effect', rnd.choice(['out', 'err'])])
    body.append(['return', ['const', I(7)]])
    return {'name': name, 'kind': kind, 'sig': sig, 'stack': stack, 'body': body}, nsteps + 1


def schedules(steps, rnd, limit):
    pool = [i for i, n in enumerate(steps) for _ in range(n)]
    perms = sorted(set(itertools.permutations(pool)))
    if len(perms) > limit:
        perms = rnd.sample(perms, limit)
    return [list(p) for p in perms]


def driver_for(tasks, args, order):
    drv = []
    for i, t in enumerate(tasks):
        drv.append(['gennew' if t['kind'] == 'gen' else 'conew', i, t['name'], [I(args[i])], []])
    for i in order:
        drv.append(['next', i])
    return drv


def build(ctx):
    rnd = random.Random(ctx.seed * 13 + 3)
    out = []
    groups = 40 if ctx.tier == 'thorough' else 12
    for g in range(groups):
        ids = gen.Ids()
        k = rnd.choice([2, 2, 3])
        kind = rnd.choice(['gen', 'gen', 'async'])
        tasks, steps = [], []
        for i in range(k):
            t, n = task(rnd, ids, f't{i}', kind)
            tasks.append(t); steps.append(n)
        args = [rnd.randint(0, 2) for _ in range(k)]
        seq = [i for i, n in enumerate(steps) for _ in range(n)]
        limit = 400 if ctx.tier == 'thorough' else (40 if k == 2 else 25)
        for order in [seq] + schedules(steps, rnd, limit):
            out.append({'funs': tasks, 'driver': driver_for(tasks, args, order), 'meta': {'group': g, 'order': order, 'sequential': order == seq, 'kind': kind}})
    return out


def per_task(sc, obs):
    acts = O.split(obs)
    if acts is None: return None, None
    k = len(sc['funs'])
    logs = {i: [] for i in range(k)}
    snaps = []
    for a, act in zip(sc['driver'], acts):
        if a[0] == 'next':
            logs[a[1]].append((tuple(e for e in act.events), act.outcome))
        snaps.append(act.snap)
    return logs, snaps


def has_pending_has(sc):
    return any(it[0] == 'has' for f in sc['funs'] for it in f['stack'])


_me = sys.modules[__name__]
def strip(o): return o


def run(ctx, fr, model_available=True):
    scs = build(ctx)
    im = scn.run_impl(scs)
    mo, errs = (scn.run_model('C13', scs) if model_available else ([None] * len(scs), []))
    fr.errors += errs
    solo = {}
    for sc, oi in zip(scs, im):
        if sc['meta']['sequential']:
            solo[sc['meta']['group']] = per_task(sc, oi)[0]
    for sc, oi, om in zip(scs, im, mo):
        fr.evaluations += 1
        if not sc['meta']['sequential']: fr.add_nontrivial(sc)
        logs, snaps = per_task(sc, oi)
        tag = 'coroutine_patch_spans_await' if sc['meta']['kind'] == 'async' and has_pending_has(sc) else None
        if logs is None:
            fr.violations.append({'scenario': sc, 'impl': oi, 'what': 'harness/observation error', 'signature': None})
        else:
            ref = solo[sc['meta']['group']]
            for i in logs:
                if logs[i] != ref[i]:
                    fr.violations.append({'scenario': sc, 'impl': oi, 'signature': tag,
                                          'what': f'task {i} observes {logs[i]} under schedule {sc["meta"]["order"]} but {ref[i]} when the tasks run one after the other'})
                    break
            else:
                bad = [s for s in snaps if s != 'S 10111']
                if bad:
                    fr.violations.append({'scenario': sc, 'impl': oi, 'signature': tag,
                                          'what': f'between steps (no contracted body executing) the globals are {bad[0]!r}, not original'})
        if om is not None:
            fr.programs += 1; fr.traces_validated += 1
            if om != oi: fr.disagreements.append({'scenario': sc, 'impl': oi, 'model': om})
    fr.rule = RULE
    fr.exhaustive = ctx.tier == 'thorough'
    fr.samples.append({'scenario': scs[1], 'impl': im[1]})
    fr.distribution = {'schedules': len(scs), 'groups': len(solo)}
    thread_probe(ctx, fr)


THREAD_SRC = '''
import deal, threading
def probe():
    """thread B calls a contracted function with a violating argument while thread A is inside a validator of another call"""
    inside, go = threading.Event(), threading.Event()
    def slow_validator(x):
        inside.set(); go.wait(2); return True
    @deal.pre(slow_validator)
    def a(x): return x
    ran = []
    @deal.pre(lambda x: x > 0)
    def b(x): ran.append(x); return x
    res = {}
    def tb():
        inside.wait(2)
        try:
            b(-1); res["b"] = "body ran"
        except deal.PreContractError:
            res["b"] = "rejected"
        go.set()
    t = threading.Thread(target=tb); t.start()
    a(1); t.join()
    return res["b"]

def overlap_probe():
    """two validation blocks on two threads that overlap without nesting (A starts, B starts, A ends, B ends): at the quiescent
    point afterwards the switch must be as it was, and contracts are enforced again"""
    from deal._state import state
    ev = {n: threading.Event() for n in ("g_in_body", "g_may_finish_body", "g_in_post", "f_finished")}
    def pre_f(x):
        ev["g_may_finish_body"].set(); ev["g_in_post"].wait(5); return x > 0
    @deal.pre(pre_f)
    def f(x): return x * 2
    def post_g(result):
        ev["g_in_post"].set(); ev["f_finished"].wait(5); return result == 1
    @deal.post(post_g)
    def g():
        ev["g_in_body"].set(); ev["g_may_finish_body"].wait(5); return 1
    @deal.pre(lambda x: x > 0)
    def later(x): return x
    before = state.debug
    log = {}
    def run(name, fn, *a):
        try: log[name] = ("value", fn(*a))
        except BaseException as e: log[name] = ("raised", type(e).__name__)
    tg = threading.Thread(target=run, args=("g", g)); tf = threading.Thread(target=run, args=("f", f, 3))
    tg.start(); ev["g_in_body"].wait(5); tf.start(); tf.join(5); ev["f_finished"].set(); tg.join(5)
    after = state.debug
    try:
        later(-1); enforced = False
    except deal.PreContractError:
        enforced = True
    state.debug = before
    return {"results": [log.get("f"), log.get("g")], "switch_before": before, "switch_after": after, "enforced_afterwards": enforced}

def stepped_in_validator_probe():
    """a step of a contracted generator taken from inside a validator of another contracted call (deal switches contracts off while a
    validator runs): the generator observes what it observes alone -- before, at and after that step -- and the switch and the
    streams are the original ones whenever nothing runs"""
    import sys
    from deal._state import state
    orig = (sys.stdout, sys.stderr)
    def make(kind):
        if kind == "post":
            @deal.post(lambda v: v < 100)
            def g():
                yield 1
                yield 2
                yield 500
                yield 3
        elif kind == "ensure":
            @deal.ensure(lambda lim, result: result < lim)
            def g(lim):
                yield 1
                yield 2
                yield 500
                yield 3
            return g(100)
        else:
            @deal.has()
            def g():
                yield 1
                yield 2
                print("undeclared")
                yield 3
        return g()
    def one(it):
        try: return ["value", next(it)]
        except StopIteration: return ["stop"]
        except BaseException as e: return ["raised", type(e).__name__]
    def quiet(): return state.debug is True and (sys.stdout, sys.stderr) == orig
    out = {}
    for kind in ("post", "ensure", "has"):
        it = make(kind); alone = [one(it) for _ in range(4)]
        for where in (0, 1, 2):      # which step is taken inside the other call's validator
            for how in ("pre_of_call", "post_of_generator"):
                it = make(kind); log = []; idle = []
                def stepper(*a):
                    log.append(one(it)); return True
                if how == "pre_of_call":
                    other = deal.pre(stepper)(lambda x: x)
                    def take(): other(0)
                else:
                    @deal.post(stepper)
                    def other():
                        yield 0
                        yield 0
                        yield 0
                    oit = other()
                    def take(): next(oit)
                for i in range(4):
                    if i == where: take()
                    else: log.append(one(it))
                    idle.append(quiet())
                out[f"{kind}/{how}/step{where}"] = (log == alone) and all(idle)
                if not out[f"{kind}/{how}/step{where}"]: out[f"{kind}/{how}/step{where}"] = [log, alone, idle]
    state.debug = True
    return out

def same_function_overlap_probe():
    """two asyncio tasks, then two threads, inside one @deal.has() function at the same time (A in, B in, A out, B out): once both
    have finished the streams and the socket class are the original objects and a bystander may print"""
    import asyncio, sys, socket
    out = {}
    orig = (sys.stdout, sys.stderr, socket.socket)
    def snap(): return (sys.stdout, sys.stderr, socket.socket)
    def put_back(): sys.stdout, sys.stderr, socket.socket = orig      # so that a failure is reported rather than killing the probe process
    def same(a, b): return all(x is y for x, y in zip(a, b))
    @deal.has()
    async def work(name, entered, leave):
        entered.set(); await leave.wait(); return name
    async def main():
        a_in, a_out, b_in, b_out = [asyncio.Event() for _ in range(4)]
        before = snap()
        ta = asyncio.ensure_future(work("A", a_in, a_out)); await a_in.wait()
        tb = asyncio.ensure_future(work("B", b_in, b_out)); await b_in.wait()
        a_out.set(); ra = await ta; b_out.set(); rb = await tb
        return same(before, snap()), [ra, rb]
    restored, results = asyncio.run(main())
    out["tasks_restored"] = restored; out["tasks_results"] = results
    try:
        print("", end=""); out["tasks_bystander_prints"] = True
    except BaseException as e:
        out["tasks_bystander_prints"] = type(e).__name__
    put_back()
    # two DIFFERENT coroutine functions, overlapping A in, B in, A out, B out: decorated with one shared deal.has() object, and with two
    def two_functions(shared):
        h1 = deal.has(); h2 = h1 if shared else deal.has()
        @h1
        async def fa(entered, leave): entered.set(); await leave.wait(); return "A"
        @h2
        async def fb(entered, leave): entered.set(); await leave.wait(); return "B"
        async def main2():
            a_in, a_out, b_in, b_out = [asyncio.Event() for _ in range(4)]
            before = snap()
            ta = asyncio.ensure_future(fa(a_in, a_out)); await a_in.wait()
            tb = asyncio.ensure_future(fb(b_in, b_out)); await b_in.wait()
            a_out.set(); await ta; b_out.set(); await tb
            return same(before, snap())
        r = asyncio.run(main2()); put_back(); return r
    out["two_functions_shared_has_restored"] = two_functions(True)
    out["two_functions_separate_has_restored"] = two_functions(False)
    a_in, a_out, b_in, b_out = [threading.Event() for _ in range(4)]
    @deal.has()
    def twork(entered, leave):
        entered.set(); leave.wait(5); return 1
    before = snap()
    ta = threading.Thread(target=twork, args=(a_in, a_out)); tb = threading.Thread(target=twork, args=(b_in, b_out))
    ta.start(); a_in.wait(5); tb.start(); b_in.wait(5); a_out.set(); ta.join(5); b_out.set(); tb.join(5)
    out["threads_restored"] = same(before, snap())
    try:
        print("", end=""); out["threads_bystander_prints"] = True
    except BaseException as e:
        out["threads_bystander_prints"] = type(e).__name__
    put_back()
    return out
'''


def thread_probe(ctx, fr):
    r = impl.run_impl('pyexec.py', {'src': THREAD_SRC, 'calls': [['probe', []]]})[0]
    fr.evaluations += 1; fr.add_nontrivial({'thread_probe': 1})
    fr.samples.append({'family': 'thread-probe', 'result': r})
    if r != 'rejected':
        fr.violations.append({'scenario': {'family': 'thread-probe'}, 'impl': r, 'signature': 'thread_debug_window',
                              'what': f'a violating call made by another thread while a validator is running was not rejected: {r}'})
    r3 = impl.run_impl('pyexec.py', {'src': THREAD_SRC, 'calls': [['same_function_overlap_probe', []]]})[0]
    fr.evaluations += 1; fr.samples.append({'family': 'same-function-overlap-probe', 'result': r3})
    if not (isinstance(r3, dict) and r3.get('tasks_restored') is True and r3.get('threads_restored') is True and r3.get('tasks_bystander_prints') is True
            and r3.get('threads_bystander_prints') is True and r3.get('tasks_results') == ['A', 'B'] and r3.get('two_functions_shared_has_restored') is True):
        fr.violations.append({'scenario': {'family': 'same-function-overlap-probe'}, 'impl': r3, 'signature': None,
                              'what': f'after two overlapping tasks / threads inside one has() function the streams are not the original ones: {r3}'})
    if isinstance(r3, dict) and r3.get('two_functions_separate_has_restored') is not True:
        fr.violations.append({'scenario': {'family': 'same-function-overlap-probe', 'case': 'two coroutine functions with separate has() objects, A in, B in, A out, B out'},
                              'impl': r3.get('two_functions_separate_has_restored'), 'signature': 'non_lifo_overlap_separate_patchers',
                              'what': 'two coroutines with separate has() patchers that overlap without nesting leave the standard streams / socket class patched after both have finished'})
    r4 = impl.run_impl('pyexec.py', {'src': THREAD_SRC, 'calls': [['stepped_in_validator_probe', []]]})[0]
    fr.evaluations += 18; fr.add_nontrivial({'stepped_in_validator_probe': 1}); fr.samples.append({'family': 'stepped-in-validator-probe', 'result': r4})
    bad4 = {k: v for k, v in r4.items() if v is not True} if isinstance(r4, dict) and 'error' not in r4 else {'error': r4}
    first = {k: v for k, v in bad4.items() if k.endswith('/step0')}
    bad4 = {k: v for k, v in bad4.items() if not k.endswith('/step0')}
    if first:
        # C13-F4: the wrapper of a generator reads the switch once, at its first step
        k0 = sorted(first)[0]
        fr.violations.append({'scenario': {'family': 'stepped-in-validator-probe', 'case': k0}, 'impl': first[k0], 'signature': 'first_step_inside_validator',
                              'what': f'a contracted generator whose FIRST step is taken inside a validator of another contracted call runs bare from then on ({k0}: [interleaved, alone, quiescent]) = {first[k0]}; cases: {sorted(first)}'})
    if bad4:
        k0 = sorted(bad4)[0]
        fr.violations.append({'scenario': {'family': 'stepped-in-validator-probe', 'case': k0}, 'impl': bad4[k0], 'signature': None,
                              'what': f'a contracted generator stepped once from inside a validator of another contracted call does not observe what it observes alone ({k0}: [interleaved, alone, quiescent]) = {bad4[k0]}; failing cases: {sorted(bad4)}'})
    r2 = impl.run_impl('pyexec.py', {'src': THREAD_SRC, 'calls': [['overlap_probe', []]]})[0]
    fr.evaluations += 1; fr.samples.append({'family': 'thread-overlap-probe', 'result': r2})
    if not (isinstance(r2, dict) and r2.get('switch_after') == r2.get('switch_before') and r2.get('enforced_afterwards') and r2.get('results') == [['value', 6], ['value', 1]]):
        fr.violations.append({'scenario': {'family': 'thread-overlap-probe'}, 'impl': r2, 'signature': None,
                              'what': f'after two overlapping (not nested) validation blocks on two threads the switch / enforcement is not as it was: {r2}'})


def search(ctx, fr, model_available=True):
    class C2: tier = 'thorough'; seed = ctx.seed + 1
    fr2 = type(fr)()
    run(C2, fr2, model_available=False)
    fr.violations += fr2.violations; fr.evaluations += fr2.evaluations
classify = base_scn.classify
