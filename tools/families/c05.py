"""C05 -- class invariants hold after every completed method call and attribute assignment. Random classes with integer attributes
(class-level defaults and instance attributes), 1-3 stacked invariants (explicit and `_` form), histories of assignments, mutating /
raising / non-mutating methods, static / class methods, switch flips; subclasses of invariant classes."""
from __future__ import annotations
import random, json, sys
from ..harness import coq, impl

pid = 'C05'
gen_modules = ['tr_invariant', 'tr_pin_invariant', 'tr_rest_validators', 'tr_rest_contractsconst']
model_targets = ['Sem/InvModel.v']
hand_modelled = ['coq/Sem/InvModel.v: the state machine of an instance of an invariant class (specification; proved equal to the statements of '
                 'InvariantedClass regenerated into Gen/Invariant.v, Thm/C05/Refine.v)',
                 'coq/Sem/InvCode.v: what each statement of _deal_validate / _deal_patched_method / __getattribute__ / __setattr__ / invariant() does '
                 '(instruction semantics, hand-written); InvariantValidator over a predicate grammar on integer attributes']
explanation = ('Theorems on the invariant state machine over all histories; correspondence: real deal.inv classes vs the model on random classes x invariant '
               'stacks x histories; independent monitor evaluating the invariants on vars(obj) + class attributes after every step.')
RULE = ('classes with 2-3 integer attributes (some only class-level), 1-3 stacked invariants in explicit or `_` form over them, histories of <= 10 operations '
        '(assign, method with 0-3 internal assignments that returns or raises, method with stores behind __setattr__ and nested calls through self, static/class method, disable/enable), optionally through a subclass (plain, or decorated with invariants of its own on top of the inherited ones); '
        'non-trivial = at least one operation violates an invariant or is rejected at entry')
ATTRS = ['x', 'y', 'z']


def gen_case(rnd):
    k = rnd.randint(2, 3)
    names = ATTRS[:k]
    if rnd.random() < .25: names = names[:-1] + ['result']      # an attribute that happens to be called like the result slot of ensure validators
    cls_attrs = {n: rnd.randint(0, 3) for n in names if rnd.random() < .6}
    init = [[n, rnd.randint(0, 5)] for n in names if n not in cls_attrs or rnd.random() < .5]
    lazy = [e for e in init if e[0] not in cls_attrs]
    if lazy and rnd.random() < .2:
        init.remove(rnd.choice(lazy))      # an attribute that exists neither at class level nor after __init__: assigned only later, if at all
    invs = []
    for _ in range(rnd.randint(1, 3)):
        form = 'explicit' if rnd.random() < .7 else 'short'
        r = rnd.random()
        if r < .45: p = ['ge', rnd.choice(names), rnd.randint(-1, 2)]
        elif r < .8: p = ['le', rnd.choice(names), rnd.randint(4, 9)]
        else:
            a, b = rnd.sample(names, 2); p = ['sumge', a, b, rnd.randint(0, 3)]
        invs.append({'form': form, 'pred': p})
    hist = []
    for _ in range(rnd.randint(2, 10)):
        r = rnd.random()
        if r < .4: hist.append(['set', rnd.choice(names), rnd.randint(-3, 11)])
        elif r < .75:
            sets = [[rnd.choice(names), rnd.randint(-3, 11)] for _ in range(rnd.randint(0, 3))]
            hist.append(['call', sets, rnd.random() < .2, rnd.randint(0, 9)] + ([rnd.choice(['patch', 'validate', 'deal', 'd', 'id', 'items', 'update', 'c_raises', 'c_has', 'c_pre', 'c_raises', 'c_has', 'c_pre'])] if rnd.random() < .45 else []))
        elif r < .83:
            # a method whose body also changes the state behind __setattr__ (in-place change, write to __dict__) and calls another
            # method through self (which does the same)
            def item():
                q = rnd.random()
                if q < .35: return ['set', rnd.choice(names), rnd.randint(-3, 11)]
                if q < .65: return ['raw', rnd.choice(names), rnd.randint(-3, 11)]
                return ['inner', [[rnd.random() < .6, rnd.choice(names), rnd.randint(-3, 11)] for _ in range(rnd.randint(0, 2))], rnd.random() < .1]
            hist.append(['callb', [item() for _ in range(rnd.randint(1, 4))], rnd.random() < .15, rnd.randint(0, 9)])
        elif r < .9: hist.append(['static', rnd.randint(0, 9)])
        else: hist.append(['switch', rnd.random() < .5])
    sub = rnd.random() < .3
    return {'cls_attrs': cls_attrs, 'invs': invs, 'init': init, 'history': hist, 'subclass': sub,
            'split': (rnd.randint(0, len(invs)) if (sub and rnd.random() < .6) else None)}


def q(s): return '"' + s + '"'
def zv(n): return f'(VInt ({n}))'


def coq_case(c):
    cls = '[' + '; '.join(f'({q(n)}, {zv(v)})' for n, v in sorted(c['cls_attrs'].items())) + ']'
    def pred(p):
        if p[0] == 'ge': return f'(PGe {q(p[1])} ({p[2]}))'
        if p[0] == 'le': return f'(PLe {q(p[1])} ({p[2]}))'
        return f'(PSumGe {q(p[1])} {q(p[2])} ({p[3]}))'
    invs = '[' + '; '.join('{| i_form := %s; i_pred := %s |}' % ('IExplicit' if i['form'] == 'explicit' else 'IShort', pred(i['pred'])) for i in c['invs']) + ']'
    init = '[' + '; '.join(f'({q(n)}, {zv(v)})' for n, v in c['init']) + ']'
    def op(o):
        if o[0] == 'set': return f'(OSet {q(o[1])} {zv(o[2])})'
        if o[0] == 'call': return '(OCall [' + '; '.join(f'({q(n)}, {zv(v)})' for n, v in o[1]) + f'] {"true" if o[2] else "false"} ({o[3]}))'
        if o[0] == 'callb':
            def bi(it):
                if it[0] == 'set': return f'(BSet {q(it[1])} {zv(it[2])})'
                if it[0] == 'raw': return f'(BRaw {q(it[1])} {zv(it[2])})'
                return '(BInner [' + '; '.join(f'({"true" if r else "false"}, ({q(n)}, {zv(v)}))' for r, n, v in it[1]) + f'] {"true" if it[2] else "false"})'
            return '(OCallB [' + '; '.join(bi(it) for it in o[1]) + f'] {"true" if o[2] else "false"} ({o[3]}))'
        if o[0] == 'static': return f'(OStatic ({o[1]}))' if o[1] % 2 else f'(OCall [] false ({o[1]}))'   # even: a classmethod called through the instance (it is a bound method: validated)
        return f'(OSwitch {"true" if o[1] else "false"})'
    hist = '[' + '; '.join(op(o) for o in c['history']) + ']'
    return f'(show_history {cls} {invs} {init} {hist})'


def inv_holds(c, attrs):
    """independent evaluation on vars(obj) over the class attributes; None = cannot be evaluated"""
    merged = dict(c['cls_attrs']); merged.update(attrs)
    unknown = False
    for i in c['invs']:
        p = i['pred']
        try:
            ok = merged[p[1]] >= p[2] if p[0] == 'ge' else merged[p[1]] <= p[2] if p[0] == 'le' else merged[p[1]] + merged[p[2]] >= p[3]
        except KeyError:
            unknown = True; continue      # this one cannot be evaluated (an attribute it reads does not exist); the others still count
        if not ok: return False
    return None if unknown else True


def nested_failure(c, attrs, body):
    """independent walk through the body of a `callb` method from the instance state `attrs`: does some call made through self find an
    invariant false when it is entered, or leave one false when it returns? (None: the walk ends earlier for another reason)"""
    cur = dict(attrs)
    for it in body:
        if it[0] == 'set':
            cur[it[1]] = it[2]
            if inv_holds(c, cur) is not True: return None      # the assignment itself is judged
        elif it[0] == 'raw':
            cur[it[1]] = it[2]
        else:
            if inv_holds(c, cur) is False: return f'the nested call {it} is entered with an invariant false: {cur}'
            if inv_holds(c, cur) is None: return None
            for raw, n, v in it[1]:
                cur[n] = v
                if not raw and inv_holds(c, cur) is not True: return None
            if it[2]: return None
            if inv_holds(c, cur) is False: return f'the nested call {it} returns with an invariant false: {cur}'
            if inv_holds(c, cur) is None: return None
    return None


def parse_attrs(s):
    s = s.strip('{}')
    return {kv.split(':')[0]: int(kv.split(':')[1][1:]) for kv in s.split(',') if kv}


def monitor(c, r):
    obs, meta = r['obs'], r['meta']
    tag = None
    short_cls = any(i['form'] == 'short' and any(a in c['cls_attrs'] for a in i['pred'][1:-1]) for i in c['invs'])
    if short_cls: tag = 'short_form_class_attribute'
    steps = obs.split('|')
    out = []
    if not steps[0].startswith('new ok'):
        # construction itself was rejected: by the violation error, or -- when an invariant cannot be evaluated on the half-built object --
        # by the validator's own exception; with every attribute present from the first assignment on, the latter must not happen
        if steps[0].startswith('new exc') and len(c['init']) == 1 and all(a in c['cls_attrs'] or a == c['init'][0][0] for i in c['invs'] for a in i['pred'][1:-1]):
            out.append((f'construction raised {steps[0][4:]} although every attribute the invariants read exists', tag))
        return out
    if c['init'] and inv_holds(c, {k: v for k, v in c['init']}) is False:      # the last assignment of __init__ is an assignment like any other
        out.append((f'construction completed although an invariant is false on the constructed object: {dict(c["init"])}', tag))
        return out
    if meta and (not meta['isinstance'] or not meta['prop']):
        out.append((f'isinstance / property of the decorated class differ from the plain class: {meta}', None))
    enabled = True
    prev = {k: v for k, v in c['init']}      # the instance as construction left it
    for o, st in zip(c['history'], steps[1:]):
        res, attrs_s = st.rsplit(' ', 1)
        attrs = parse_attrs(attrs_s)
        if o[0] == 'switch': enabled = bool(o[1]); prev = attrs; continue
        holds = inv_holds(c, attrs)
        if (res.startswith('exc KeyError') or res.startswith('exc AttributeError')) and \
                not all(a in (set(c['cls_attrs']) | set(attrs)) for i in c['invs'] for a in i['pred'][1:-1]):
            prev = attrs; continue      # an attribute some invariant reads exists nowhere yet (assigned lazily): the validator's own error
        if enabled and o[0] == 'callb' and res.startswith('ok') and prev is not None and inv_holds(c, prev) is True:
            nf = nested_failure(c, prev, o[1])
            if nf:
                out.append((f'{o} completed although {nf}', None)); break
        if enabled and o[0] in ('set', 'call', 'callb') and res.startswith('ok') and holds is False:
            out.append((f'{o} completed without a violation error but leaves an invariant false: {attrs}', None)); break
        if enabled and o[0] in ('set', 'call', 'callb') and holds is False and prev is not None and attrs != prev and res != 'InvContractError' \
                and not res.startswith('ok') and not res.startswith('exc KeyError') and not res.startswith('exc AttributeError'):
            # C05-F3: a method that raises its own exception is not validated on the way out; with stores that __setattr__ does not see
            # the broken state escapes under the method's exception
            own_raise = o[0] == 'callb' and res == 'exc ValueError' and (o[2] or any(it[0] == 'inner' and it[2] for it in o[1])) and \
                any(it[0] == 'raw' or (it[0] == 'inner' and any(r for r, _, _ in it[1])) for it in o[1])
            out.append((f'{o} leaves an invariant false ({attrs}) but raised {res!r}, not the invariant-violation error', 'unseen_store_then_own_exception' if own_raise else None)); break
        if enabled and o[0] in ('call', 'callb') and prev is not None and inv_holds(c, prev) is False and attrs != prev:
            out.append((f'method entered although an invariant was already false: state {prev} -> {attrs}', None)); break
        if not enabled and res == 'InvContractError':
            out.append((f'invariants evaluated while contracts are disabled on {o}', None)); break
        if o[0] == 'set' and attrs.get(o[1]) != o[2]:
            out.append((f'assignment {o} was rolled back or lost: {attrs}', tag if 'KeyError' in res else None)); break
        if o[0] == 'static' and o[1] % 2 == 0:
            # a classmethod called through the instance is a method call made through the instance: not entered on a broken instance
            if enabled and prev is not None and inv_holds(c, prev) is False and res.startswith('ok'):
                out.append((f'class method entered through the instance although an invariant was already false: state {prev}', tag)); break
            if res.startswith('ok') and res != f'ok i{o[1]}':
                out.append((f'class method result differs from the undecorated class: {res}', tag)); break
            if not res.startswith('ok') and (not enabled or prev is None or inv_holds(c, prev) is not False):
                out.append((f'class method raised {res} on an instance whose invariants hold', tag if 'KeyError' in res else None)); break
        if o[0] == 'static' and o[1] % 2 == 1 and not res.startswith('ok'):
            out.append((f'static method raised {res}', None)); break
        if res.startswith('exc KeyError') or res.startswith('exc AttributeError'):
            known = set(c['cls_attrs']) | set(attrs)
            if all(a in known for i in c['invs'] for a in i['pred'][1:-1]):
                out.append((f'{o}: the invariant could not be evaluated: {res}', tag)); break
            # an attribute some invariant reads exists nowhere (it is assigned lazily): the validator's own error is all that can happen
        prev = attrs
    return out


def run(ctx, fr, model_available=True):
    rnd = random.Random(ctx.seed * 5 + 1)
    import glob, os
    corp = [json.load(open(f)) for f in sorted(glob.glob(os.path.join(coq.VERIF, 'corpus', 'C05', '*.json')))]
    cases = corp + [gen_case(rnd) for _ in range(2500 if ctx.tier == 'thorough' else 400)]
    res = impl.run_impl('c05_inv.py', cases)
    mo = None
    if model_available:
        text = ('From Coq Require Import List ZArith String.\nImport ListNotations.\nFrom Deal Require Import Base Show InvModel.\nOpen Scope string_scope. Open Scope Z_scope.\n'
                'Eval vm_compute in lines [\n ' + ';\n '.join(coq_case(c) for c in cases) + '\n].\n')
        ok, outp = coq.eval_cases('C05', text)
        strs = coq.parse_strings(outp) if ok else []
        if len(strs) == 1: mo = strs[0].split('\n')
        else: fr.errors.append('C05 cases failed: ' + outp[-1500:])
    for i, (c, r) in enumerate(zip(cases, res)):
        fr.evaluations += 1
        if 'InvContractError' in r['obs']: fr.add_nontrivial(c)
        for what, tag in monitor(c, r):
            fr.violations.append({'scenario': c, 'impl': r, 'what': what, 'signature': tag})
        if mo is not None:
            fr.programs += 1; fr.traces_validated += 1
            io = r['obs']
            m = mo[i]
            if io.startswith('new ') and not io.startswith('new ok'):
                io = io.rsplit(' ', 1)[0]; m = m.rsplit(' ', 1)[0]      # a rejected construction leaves no object to inspect
            if m != io:
                fr.disagreements.append({'scenario': c, 'impl': io, 'model': m})
    fr.rule = RULE
    fr.samples.append({'case': cases[0], 'impl': res[0]})
    fr.distribution = {'cases': len(cases), 'subclass': sum(1 for c in cases if c['subclass'])}


METHOD_SRC = r"""
import deal
__name__ = "c05_validator_calls_method_probe"
def probe():
    # an invariant whose validator calls a method of the instance it validates (C05-X2): construction, reads, method calls and
    # assignments behave as with a validator that reads the attribute directly
    from deal._state import state
    def build(through_method):
        inv = (lambda o: o.total() >= 0) if through_method else (lambda o: o.x >= 0)
        @deal.inv(inv)
        class A:
            def __init__(self): self.x = 1
            def total(self): return self.x
            def dec(self, k): self.x -= k; return self.x
        return A
    def history(A):
        out = []
        def do(label, fn):
            try: out.append([label, "ok", fn()])
            except deal.InvContractError: out.append([label, "InvContractError"])
            except BaseException as e: out.append([label, "exc", type(e).__name__])
            out[-1].append(state.debug)
        box = {}
        do("new", lambda: box.__setitem__("a", A()))
        if "a" not in box: return out
        a = box["a"]
        do("total", lambda: a.total())
        do("dec 5", lambda: a.dec(5))
        do("x after", lambda: a.x)
        do("total on broken", lambda: a.total())
        do("repair", lambda: setattr(a, "x", 3))
        do("dec 1", lambda: a.dec(1))
        do("assign -1", lambda: setattr(a, "x", -1))
        deal.disable(); do("disabled dec", lambda: a.dec(100)); deal.enable()
        return out
    direct, through = history(build(False)), history(build(True))
    return [] if direct == through else [[d, t] for d, t in zip(direct, through) if d != t] or [["length", len(direct), len(through)]]
"""


_run_histories = run
def run(ctx, fr, model_available=True):
    _run_histories(ctx, fr, model_available)
    r = impl.run_impl('pyexec.py', {'src': METHOD_SRC, 'calls': [['probe', []]]})[0]
    fr.evaluations += 9; fr.add_nontrivial({'validator_calls_method_probe': 1})
    fr.samples.append({'family': 'invariant whose validator calls a method of the instance', 'deviations': r})
    if r:
        fr.violations.append({'scenario': {'family': 'validator-calls-method'}, 'impl': r if isinstance(r, dict) else r[:4], 'signature': None,
                              'what': f'with an invariant whose validator calls a method of the instance the history differs from the one with a validator reading the attribute: [direct, through a method] = {r if isinstance(r, dict) else r[0]}'})


def search(ctx, fr, model_available=True):
    class C2: tier = 'thorough'; seed = ctx.seed + 1
    fr2 = type(fr)(); run(C2, fr2, model_available=False)
    fr.violations += fr2.violations; fr.evaluations += fr2.evaluations


def classify(v, findings):
    for f in findings:
        if f.get('status') == 'open' and f.get('signature') and f['signature'] == v.get('signature'): return f['id']
    return None
