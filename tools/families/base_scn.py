"""Shared driver for scenario-based families: corpus first, random scenarios from one PRNG, implementation run,
model run, comparison, monitor."""
from __future__ import annotations
import os, glob, json, random
from ..harness import scn

ROOT = os.path.dirname(os.path.dirname(os.path.dirname(os.path.abspath(__file__))))


def corpus(pid):
    d = os.path.join(ROOT, 'corpus', pid)
    return [json.load(open(f)) for f in sorted(glob.glob(os.path.join(d, '*.json')))]


def scenarios(fam, tier, seed):
    rnd = random.Random(seed * 7919 + sum(map(ord, fam.pid)))
    n = fam.N_THOROUGH if tier == 'thorough' else fam.N_QUICK
    return corpus(fam.pid) + [fam.make(rnd, k) for k in range(n)]


def run(fam, ctx, fr, model_available=True, scs=None):
    scs = scs if scs is not None else scenarios(fam, ctx.tier, ctx.seed)
    im = scn.run_impl(scs)
    mo, errs = (scn.run_model(fam.pid, scs) if model_available else ([None] * len(scs), []))
    fr.errors += errs
    dist = {}
    for sc, oi, om in zip(scs, im, mo):
        fr.evaluations += 1
        if fam.nontrivial(sc, oi): fr.add_nontrivial(sc)
        for key in fam.features(sc, oi) if hasattr(fam, 'features') else []:
            dist[key] = dist.get(key, 0) + 1
        for what, tag in fam.monitor(sc, oi):
            fr.violations.append({'scenario': sc, 'impl': oi, 'what': what, 'signature': tag})
        if om is not None:
            fr.programs += 1; fr.traces_validated += 1
            if om != (fam.strip(oi) if hasattr(fam, 'strip') else oi):
                fr.disagreements.append({'scenario': sc, 'impl': oi, 'model': om})
    fr.rule = fam.RULE
    fr.samples += [{'scenario': scs[-1], 'impl': im[-1]}]
    fr.distribution = dict(dist, scenarios=len(scs))


def search(fam, ctx, fr, model_available=True):
    for k in range(1, 6):
        rnd = random.Random((ctx.seed + 1000 * k) * 7919 + sum(map(ord, fam.pid)))
        scs = [fam.make(rnd, i) for i in range(1500)]
        im = scn.run_impl(scs)
        for sc, oi in zip(scs, im):
            fr.evaluations += 1
            for what, tag in fam.monitor(sc, oi):
                fr.violations.append({'scenario': sc, 'impl': oi, 'what': what, 'signature': tag})
        if [v for v in fr.violations if not v.get('signature')]:
            return


def classify(v, findings):
    for f in findings:
        if f.get('status') == 'open' and f.get('signature') and f['signature'] == v.get('signature'):
            return f['id']
    return None
