"""C08 -- every call leaves process-global state as it found it. Family F-tree: call trees with recursion, has() patchers
(shared and distinct), raising validators / bodies, generators that are abandoned or closed, nested different functions."""
from __future__ import annotations
import random, json, sys
from ..harness import impl, scn, gen, obs as O, pyeval
from . import base_scn

pid = 'C08'
gen_modules = ['tr_state', 'tr_validators', 'tr_has_patcher', 'tr_contracts', 'tr_decorators', 'tr_pin_contracts', 'tr_rest_validators', 'tr_rest_patcher', 'tr_rest_state', 'tr_dispatch', 'tr_rest_dispatch', 'tr_rest_trace', 'tr_rest_contractsconst', 'tr_rest_records']
model_targets = ['Sem/Scenario.v']
hand_modelled = ['coq/Py/Sig.v', 'coq/Sem/Model.v']
explanation = ('Frame theorems about patch/unpatch and the debug brackets of the generated wrappers; correspondence + monitor over random call '
               'trees with recursion, exceptions injected at validator / body / yield positions, abandoned and closed generators.')
N_QUICK, N_THOROUGH = 300, 2500
RULE = ('2-4 functions (sync / generator / async) each with random has() marker sets (some sharing behaviour through recursion), pre/post/raises '
        'contracts whose validators may raise, bodies that print / write stderr / open sockets, call each other or themselves (depth <= 4) and raise '
        'at a chosen node; drivers call, iterate, abandon and close generators; snapshot of (switch, stdout, stderr, socket) after every top-level '
        'action; non-trivial = some patcher was active during the run (a K/E effect event or a has() contract on a called function)')
I = lambda n: {'i': n}
MARKERS = [[], [], ['stdout'], ['io'], ['stderr'], ['network'], ['print', 'socket'], ['global']]


def make(rnd, k):
    ids = gen.Ids()
    names = ['f', 'g', 'h'][:rnd.randint(2, 3)]
    funs = []
    sig = [['n', 'PosOrKw', None]]
    kinds = {}
    for nm in names:
        kinds[nm] = rnd.choice(['sync', 'sync', 'sync', 'gen', 'async'])
    for nm in names:
        kind = kinds[nm]
        stack = []
        if rnd.random() < .8:
            stack.append(['has', ids(), rnd.choice(MARKERS), None, None])
        if rnd.random() < .5:
            stack.append(['pre', gen.gen_sval(rnd, ids, sig, raising=.15, custom=.1)])
        if rnd.random() < .4:
            stack.append(['post', gen.gen_sval(rnd, ids, sig, form='explicit', result_only=True, raising=.15, custom=.1)])
        if rnd.random() < .3:
            stack.append(['raises', ids(), [scn.cls(rnd.choice(['ValueError', 'KeyError', 'LookupError']))], None, None])
        rnd.shuffle(stack)
        body = []
        def effect():
            return ['effect', rnd.choice(['out', 'err', 'sock'])]
        if rnd.random() < .6: body.append(effect())
        if kind == 'gen': body.append(['yield', ['var', 'n']])
        if kind == 'async' and rnd.random() < .5: body.append(['await'])
        # recursion / nesting: call a sync or async callee while n > 0
        callees = [c for c in names if kinds[c] != 'gen' and not (kind != 'async' and kinds[c] == 'async')]
        if callees and rnd.random() < .8:
            callee = rnd.choice(callees)
            call = ['call', callee, [['bin', 'sub', ['var', 'n'], ['const', I(1)]]], []]
            wrapped = call if rnd.random() < .7 else ['tryexcept', [call], rnd.choice(['Exception', 'ContractError', 'ValueError']), [effect()]]
            body.append(['if', ['bin', 'gt', ['var', 'n'], ['const', I(0)]], [wrapped], []])
        if rnd.random() < .35:
            body.append(['if', ['bin', 'eq', ['var', 'n'], ['const', I(rnd.randint(0, 2))]],
                         [['raise', scn.cls(rnd.choice(['ValueError', 'KeyError', 'RuntimeError', 'KeyboardInterrupt'])), 100 + len(funs)]], []])
        if rnd.random() < .5: body.append(effect())
        if kind == 'gen':
            body.append(['yield', ['const', I(5)]])
            if rnd.random() < .5: body.append(effect())
        body.append(['return', ['var', 'n']])
        funs.append({'name': nm, 'kind': kind, 'sig': sig, 'stack': stack, 'body': body})
    driver, gv = [], 0
    for _ in range(rnd.randint(2, 4)):
        nm = rnd.choice(names)
        n = rnd.randint(0, 3)
        if kinds[nm] == 'gen':
            driver.append(['gennew', gv, nm, [I(n)], []])
            steps = rnd.choice([['next'], ['next', 'next'], ['next', 'close'], ['next', 'next', 'next'], ['close'], []])
            for s in steps:
                driver.append([s, gv] if s != 'throw' else ['throw', gv, scn.cls('ValueError'), 300])
            if rnd.random() < .2: driver.append(['throw', gv, scn.cls('ValueError'), 300 + gv])
            gv += 1
        else:
            driver.append(['call', nm, [I(n)], []])
    sc = {'funs': funs, 'driver': driver}
    if rnd.random() < .15: sc['null_streams'] = True      # sys.stdout / sys.stderr are None in this process
    return sc


def monitor(sc, obs):
    acts = O.split(obs)
    if acts is None:
        return [('harness/observation error: ' + str(obs)[:200], None)]
    out = []
    for a, act in zip(sc['driver'], acts):
        if act.snap != 'S 10111':
            out.append((f'after top-level action {a} the globals snapshot is {act.snap!r} (switch, removed, stdout, stderr, socket), expected "S 10111"; outcome {act.outcome!r}', None))
            break
    return out


def nontrivial(sc, obs):
    return any(it[0] == 'has' for f in sc['funs'] for it in f['stack']) and (' K ' in ('|' + obs.replace('|', '| ')) or 'E ' in obs or True)


def features(sc, obs):
    return ['blocked-effects' if '|K ' in '|' + obs else 'no-blocked-effect', 'exception-outcome' if '|X ' in '|' + obs else 'no-exception']


_me = sys.modules[__name__]
def run(ctx, fr, model_available=True): return base_scn.run(_me, ctx, fr, model_available)
def search(ctx, fr, model_available=True): return base_scn.search(_me, ctx, fr, model_available)
classify = base_scn.classify


# ---------------------------------------------------------------- dispatch, test cases, tracing, memory tracking
AUX_SRC = r"""
import deal, sys, socket, warnings
warnings.simplefilter("ignore")
from deal._state import state

KEEP = []
def snap():
    return (state.debug, sys.stdout, sys.stderr, socket.socket, sys.gettrace(), list(sys.meta_path))
def same(a, b):
    return all(x is y if not isinstance(x, (bool, list)) else x == y for x, y in zip(a, b))
def attempt(fn, *a, **k):
    try: fn(*a, **k)
    except BaseException: pass

def probe():
    bad = []
    def check(name, fn, *a, **k):
        before = snap(); attempt(fn, *a, **k); after = snap()
        if not same(before, after):
            names = ["switch", "stdout", "stderr", "socket", "trace hook", "meta_path"]
            bad.append(name + ": " + ", ".join(n for n, x, y in zip(names, before, after) if not same((x,), (y,))) + " not as before")
    for enabled in (True, False):
        (deal.enable if enabled else deal.disable)()
        tag = "enabled" if enabled else "disabled"
        # dispatch: return, raise, no match, recursion through the same dispatch object
        @deal.dispatch
        def fact(n): raise NotImplementedError
        @fact.register
        @deal.pre(lambda n: n <= 0)
        def _(n): return 1
        @fact.register
        @deal.pre(lambda n: 0 < n < 50)
        def _(n): return n * fact(n - 1)
        @fact.register
        @deal.pre(lambda n: n == 99)
        def _(n): raise ValueError("body")
        for arg in (0, 1, 4, 99, 70):
            check(f"dispatch fact({arg}) [{tag}]", fact, arg)
        # a dispatch call made from inside a validation block of another dispatch call (a guard that itself dispatches)
        @deal.dispatch
        def size(x): raise NotImplementedError
        @size.register
        @deal.pre(lambda x: isinstance(x, str))
        def _(x): return len(x)
        @size.register
        @deal.pre(lambda x: isinstance(x, list) and all(size(i) >= 0 for i in x))
        def _(x): return sum(size(i) for i in x)
        for arg in ("ab", ["a", "bc"], [["a"], "b"], 3, [3]):
            check(f"nested dispatch size({arg!r}) [{tag}]", size, arg)
        # test cases: run (passing and failing), iteration
        @deal.pre(lambda x: x > 0)
        @deal.has()
        def f(x: int) -> int: return x
        @deal.pre(lambda x: x > 0)
        def g(x: int) -> int: raise ValueError("body")
        import deal.introspection as di
        check(f"record.validate(5) / (-5) [{tag}]", lambda: [attempt(r.validate, v) for r in di.get_contracts(f) if hasattr(r, "validate") for v in (5, -5)])
        check(f"init_all(f) [{tag}]", lambda: di.init_all(f))
        check(f"cases(f)() [{tag}]", lambda: deal.cases(f, count=5, check_types=False)())
        check(f"cases(g)() [{tag}]", lambda: deal.cases(g, count=5, check_types=False)())
        check(f"iterate cases(f) [{tag}]", lambda: [c() for c in deal.cases(f, count=5, check_types=False)])
        # tracing, with and without a tracer already installed
        from deal._trace import trace
        def plain(x): return x + 1
        def boom(x): raise ValueError("body")
        check(f"trace(plain) [{tag}]", trace, plain, x=1)
        check(f"trace(boom) [{tag}]", trace, boom, x=1)
        def my_tracer(frame, event, arg): return None
        sys.settrace(my_tracer)
        try:
            check(f"trace(plain) under a tracer [{tag}]", trace, plain, x=1)
            check(f"trace(boom) under a tracer [{tag}]", trace, boom, x=1)
            def leaves(x): raise SystemExit(3)
            def interrupted(x): raise KeyboardInterrupt
            check(f"trace(leaves: SystemExit) under a tracer [{tag}]", trace, leaves, x=1)
            check(f"trace(interrupted: KeyboardInterrupt) under a tracer [{tag}]", trace, interrupted, x=1)
            from deal._cli._test import fast_iterator
            check(f"fast_iterator, exhausted [{tag}]", lambda: list(fast_iterator([1, 2, 3])))
            def partial():
                it = fast_iterator([1, 2, 3]); next(it); it.close()
            check(f"fast_iterator, closed early [{tag}]", partial)
        finally:
            sys.settrace(None)
        # a case iterator abandoned while suspended inside a traced run (what `deal test` does when a case fails) and finalised afterwards
        def abandoned():
            import gc
            def consumer():
                it = fast_iterator([1, 2, 3]); next(it); return it
            res = trace(consumer)
            del res; gc.collect()
        check(f"fast_iterator abandoned inside trace() [{tag}]", abandoned)
        # memory tracking
        from deal._mem_test import MemoryTracker
        def tracked(raises):
            t = MemoryTracker()
            with t:
                if raises: raise ValueError("body")
        # the memtest and test CLI runners over generated cases
        import io
        from deal._cli._memtest import run_cases as mem_run_cases
        from deal._cli._test import run_cases as test_run_cases
        colors = dict(blue="", yellow="", red="", green="", end="", magenta="")
        def leaky(x: int) -> int:
            KEEP.append([x]); return x
        check(f"memtest run_cases(f) [{tag}]", lambda: mem_run_cases(deal.cases(f, count=3, check_types=False), "f", io.StringIO(), colors))
        check(f"memtest run_cases(g: body raises) [{tag}]", lambda: mem_run_cases(deal.cases(g, count=3, check_types=False), "g", io.StringIO(), colors))
        check(f"memtest run_cases(leaky) [{tag}]", lambda: mem_run_cases(deal.cases(leaky, count=3, check_types=False), "leaky", io.StringIO(), colors))
        check(f"test run_cases(f) [{tag}]", lambda: test_run_cases(deal.cases(f, count=3, check_types=False), "f", io.StringIO(), colors))
        check(f"test run_cases(g: body raises) [{tag}]", lambda: test_run_cases(deal.cases(g, count=3, check_types=False), "g", io.StringIO(), colors))
        check(f"MemoryTracker [{tag}]", tracked, False)
        check(f"MemoryTracker, body raises [{tag}]", tracked, True)
    deal.enable()
    return bad
"""


def aux_probe(ctx, fr):
    r = impl.run_impl('pyexec.py', {'src': AUX_SRC, 'calls': [['probe', []]]}, timeout=900)[0]
    fr.evaluations += 1; fr.samples.append({'family': 'dispatch / cases / trace / memory probe', 'result': r})
    if isinstance(r, dict) and 'error' in r:
        fr.errors.append('C08 aux probe failed: ' + str(r['error'])[:500]); return
    for what in (r or []):
        fr.violations.append({'scenario': {'family': 'aux-probe', 'what': what}, 'impl': r, 'what': 'global state not restored after ' + what, 'signature': None})


_base_run = run
def run(ctx, fr, model_available=True):
    _base_run(ctx, fr, model_available)
    aux_probe(ctx, fr)
