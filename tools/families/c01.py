"""C01 -- preconditions gate execution. Family F-call: random signatures x validator forms x bindings x kinds."""
from __future__ import annotations
import random, json
from ..harness import scn, gen, obs as O, pyeval

pid = 'C01'
gen_modules = ['tr_state', 'tr_validators', 'tr_has_patcher', 'tr_contracts', 'tr_decorators', 'tr_pin_contracts', 'tr_rest_validators', 'tr_rest_patcher', 'tr_rest_state', 'tr_rest_contractsconst']
model_targets = ['Sem/Scenario.v']
hand_modelled = ['coq/Py/Sig.v (CPython call binding; validated against CPython in this family)',
                 'coq/Sem/Model.v: Validator.init mode selection (vaa branch excluded), calling a raw validator']
explanation = ('Theorems about the pre-validation block of the generated _run_sync/_run_async/_run_iter for every registry, every '
               'validator and all arguments; correspondence + monitor on random (signature, validator stack, call) scenarios.')


def make(rnd, k):
    ids = gen.Ids()
    fsig = gen.gen_sig(rnd)
    kind = rnd.choice(['sync', 'sync', 'async', 'gen'])
    npre = rnd.randint(1, 3)
    stack = [['pre', gen.gen_sval(rnd, ids, fsig, raising=.05, underscore_first=.3)] for _ in range(npre)]
    if rnd.random() < .3:
        # exception contracts on the same function: a failing precondition (whatever its configured error type) is not an exception of the body
        extra = []
        if rnd.random() < .7: extra.append(['raises', ids(), [scn.cls(rnd.choice(['ZeroDivisionError', 'LookupError']))], None, None])
        if rnd.random() < .5: extra.append(['reason', scn.cls(rnd.choice(['ValueError', 'KeyError'])), {'id': ids(), 'sig': [['_', 'PosOrKw', None]], 'expr': ['const', {'b': False}], 'msg': None, 'exc': None}])
        for it in extra: stack.insert(rnd.randint(0, len(stack)), it)
    body = [['yield', ['locals']]] if kind == 'gen' else [['return', ['locals']]]
    driver, calls = [], []
    for j in range(rnd.randint(2, 4)):
        a, kw = gen.gen_call(rnd, fsig)
        calls.append((a, kw))
        if kind == 'gen':
            driver += [['gennew', j, 'f', a, kw], ['next', j]]
        else:
            driver.append(['call', 'f', a, kw])
    funs = [{'name': 'f', 'kind': kind, 'sig': fsig, 'stack': stack, 'body': body}]
    if any(p[2] is not None for p in fsig) and rnd.random() < .2:
        # a second function made from the same `def` (it shares the code object) with other default values, as a factory or a loop would
        import copy
        gsig = [[p[0], p[1], ({'i': p[2]['i'] + 7} if (p[2] is not None and 'i' in p[2]) else p[2])] for p in fsig]
        gstack = copy.deepcopy(stack)
        for it in gstack:
            if it[0] != 'pre': continue
            it[1]['id'] = ids()
            if [p[0] for p in it[1]['sig']] != ['_']:
                it[1]['sig'] = [[p[0], p[1], next((q[2] for q in gsig if q[0] == p[0]), p[2])] for p in it[1]['sig']]
        funs.append({'name': 'g', 'kind': kind, 'sig': gsig, 'stack': gstack, 'body': body, 'clone_of': 'f'})
        for j, (a, kw) in enumerate(calls):
            if kind == 'gen': driver += [['gennew', 10 + j, 'g', a, kw], ['next', 10 + j]]
            else: driver.append(['call', 'g', a, kw])
    return {'funs': funs, 'driver': driver}


N_QUICK, N_THOROUGH = 400, 3000


def configured(v, default):
    return v['exc'][1]['name'] if v['exc'] else default


def monitor(sc, obs):
    """the property on implementation observations; returns list of (what, tag) -- tag names a known-finding signature or None"""
    acts = O.split(obs)
    if acts is None:
        return [('harness/observation error: ' + str(obs)[:200], None)]
    funs = {x['name']: x for x in sc['funs']}
    out, i = [], 0
    for a in sc['driver']:
        act = acts[i]; i += 1
        if a[0] == 'gennew':
            continue
        if a[0] == 'next':
            call = sc['driver'][sc['driver'].index(a) - 1]
            args, kws = call[3], call[4]
            f = funs[call[2]]
        else:
            args, kws = a[2], a[3]
            f = funs[a[1]]
        pres = [it[1] for it in f['stack'] if it[0] == 'pre']
        sig_tag = None
        posonly = {p[0] for p in f['sig'] if p[1] == 'PosOnly'}
        if any(n in posonly for n, _ in kws) and any(p[1] == 'VarKw' for p in f['sig']):
            sig_tag = 'posonly_name_as_keyword'
        if any(n == 'result' for n, _ in kws) and any([p[0] for p in v['sig']] == ['_'] for v in pres):
            sig_tag = 'keyword_named_result'
        b = pyeval.own_binding(f['sig'], args, kws)
        if b is None:
            # the function itself rejects the call: TypeError -- unless a precondition whose own signature does accept the call
            # (an explicit validator with a renamed first parameter) fails first; the body never starts
            first = None
            for v in pres:
                r = pyeval.verdict(v, f['sig'], args, kws)
                if r[0] != 'accept':
                    first = configured(v, 'PreContractError') if r[0] == 'reject' else r[1]; break
            ok_classes = {'TypeError', first}
            if f['kind'] != 'gen' and any(it[0] == 'raises' for it in f['stack']):
                ok_classes.add('RaisesContractError')      # the TypeError of the call itself is an exception the raises contract does not list (C03)
            if not (act.kind == 'X' and act.exc_class in ok_classes) or act.bodies():
                out.append((f'call that the function itself rejects (TypeError) gave {act.outcome!r}, bodies={act.bodies()}', sig_tag))
            continue
        expect_body, expect_exc, ran = True, None, []
        for v in pres:
            ran.append(v['id'])
            r = pyeval.verdict(v, f['sig'], args, kws)
            if [p[0] for p in v['sig']] != ['_'] and pyeval.own_binding(v['sig'], args, kws) is None:
                ran.pop()          # the call does not bind to the explicit validator's own signature: TypeError before its body starts
            if r[0] == 'accept':
                continue
            expect_body = False
            expect_exc = (configured(v, 'PreContractError') if r[0] == 'reject' else r[1])
            break
        if expect_body:
            want = f'B {f["name"]} ' + pyeval.show_dict(b)
            if act.bodies() != [want]:
                out.append((f'every precondition accepts, but body events are {act.bodies()} (expected [{want}]); outcome {act.outcome!r}', sig_tag))
            elif act.kind not in ('R', 'Y'):
                out.append((f'every precondition accepts and the body returns its locals, but outcome is {act.outcome!r}', sig_tag))
        else:
            if act.bodies():
                out.append((f'a precondition does not accept (expected {expect_exc}) but the body started: {act.bodies()}', sig_tag))
            elif not (act.kind == 'X' and act.exc_class == expect_exc):
                out.append((f'precondition failure should raise {expect_exc}; outcome {act.outcome!r}', sig_tag))
        if act.validators() != ran and not out:
            out.append((f'validators invoked {act.validators()}, expected exactly {ran} (application order, stopping at the first failure)', sig_tag))
    return out


def nontrivial(sc, obs):
    acts = O.split(obs) or []
    return any(a.validators() for a in acts)


RULE = ('random function signature (0-4 parameters of all five kinds, defaults), 1-3 preconditions (explicit / `_` / message-returning, '
        'custom exception classes and instances, raising validators), sync/async/generator, 2-4 calls each (positional, keyword, mixed, '
        'omitted defaults, ill-formed); non-trivial = at least one validator was invoked')


def features(sc, obs):
    return ['kind=' + sc['funs'][0]['kind']]


import sys as _sys
from . import base_scn
_me = _sys.modules[__name__]
def run(ctx, fr, model_available=True): return base_scn.run(_me, ctx, fr, model_available)
def search(ctx, fr, model_available=True): return base_scn.search(_me, ctx, fr, model_available)
classify = base_scn.classify
