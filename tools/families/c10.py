"""C10 -- violation errors carry the configured type, message and the actual arguments. Exhaustive configuration matrix:
contract kind x message x exception form x validator outcome x signature shape."""
from __future__ import annotations
import random, json, sys, itertools, re
from ..harness import scn, gen, obs as O, pyeval
from . import base_scn

pid = 'C10'
gen_modules = ['tr_state', 'tr_validators', 'tr_has_patcher', 'tr_contracts', 'tr_decorators', 'tr_pin_contracts', 'tr_rest_validators', 'tr_rest_patcher', 'tr_rest_state', 'tr_rest_errors', 'tr_rest_contractsconst', 'tr_rest_errsource']
model_targets = ['Sem/Scenario.v']
hand_modelled = ['coq/Sem/Model.v: new_contract_error / new_exception (what ContractError.__init__ and a plain exception constructor store)',
                 'str() / pickle / source rendering of ContractError: not modelled (observed on the implementation only)']
explanation = ('Theorems: closed form of Validator._exception / __init__ over the whole configuration space; correspondence + monitor over the '
               'complete matrix kind x message x exception form x outcome x signature; str() and pickling probed on the implementation only.')
N_QUICK, N_THOROUGH = 0, 0
RULE = ('complete matrix: contract kind {pre, post, ensure, raises, reason, has} x {no message, message} x exception {default, custom class, custom '
        'instance with / without text, ContractError subclass class / instance} x validator outcome {False, 0, None, empty string, message string} x 4 '
        'signature shapes; every cell is one scenario with one violating call; non-trivial = a violation error was raised')
I = lambda n: {'i': n}
S = lambda s: {'s': s}
KINDS = ['pre', 'post', 'ensure', 'raises', 'reason', 'has']
MESSAGES = [None, 'configured message']
EXCS = [None, ['class', scn.cls('ValueError')], ['inst', scn.cls('IndexError'), [S('instance text')]], ['inst', scn.cls('IndexError'), []],
        ['class', scn.cls('PostContractError')], ['inst', scn.cls('ContractError'), [S('contract instance text')]], ['inst', scn.cls('PreContractError'), []],
        # strict subclasses of MarkerError: a configured one is not the default of has()
        ['class', scn.cls('OfflineContractError')], ['inst', scn.cls('OfflineContractError'), [S('marker instance text')]]]
OUTCOMES = [('false', ['const', {'b': False}]), ('zero', ['const', I(0)]), ('none', ['const', 'N']), ('empty', ['const', S('')]),
            ('text', ['const', S('returned text')])]
SIGS = [
    ([['a', 'PosOrKw', None]], [I(1)], []),
    ([['a', 'PosOrKw', None], ['b', 'PosOrKw', I(5)]], [I(1)], []),
    ([['a', 'PosOnly', None], ['args', 'VarPos', None], ['k', 'KwOnly', I(2)], ['kw', 'VarKw', None]], [I(1), I(2)], [['z', I(3)]]),
    ([['a', 'PosOrKw', None], ['args', 'VarPos', None], ['kw', 'VarKw', None]], [I(1)], []),
    # as many arguments as parameters, yet a default is left to fill in (variadic signatures)
    ([['a', 'PosOrKw', None], ['b', 'PosOrKw', I(2)], ['kw', 'VarKw', None]], [I(1)], [['x', I(10)], ['y', I(20)]]),
    ([['rest', 'VarPos', None], ['flag', 'KwOnly', I(7)]], [I(1), I(2)], []),
]
DEFAULT = {'pre': 'PreContractError', 'post': 'PostContractError', 'ensure': 'PostContractError', 'raises': 'RaisesContractError',
           'reason': 'ReasonContractError', 'has': 'SilentContractError'}


def cell(kind, msg, exc, outcome, shape, form):
    fsig, args, kws = SIGS[shape]
    oname, oexpr = outcome
    ids = gen.Ids()
    body = [['return', ['const', I(1)]]]
    vsig = [['_', 'PosOrKw', None]] if form == 'short' else None
    if kind == 'pre':
        stack = [['pre', {'id': ids(), 'sig': vsig or fsig, 'expr': oexpr, 'msg': msg, 'exc': exc}]]
    elif kind == 'post':
        stack = [['post', {'id': ids(), 'sig': [['result', 'PosOrKw', None]], 'expr': oexpr, 'msg': msg, 'exc': exc}]]
    elif kind == 'ensure':
        es = vsig or ([list(p) for p in fsig if p[1] != 'VarKw'] + [['result', 'KwOnly', None]] + [p for p in fsig if p[1] == 'VarKw'])
        stack = [['ensure', {'id': ids(), 'sig': es, 'expr': oexpr, 'msg': msg, 'exc': exc}]]
    elif kind == 'raises':
        stack = [['raises', ids(), [scn.cls('ValueError')], msg, exc]]
        body = [['raise', scn.cls('KeyError'), 100]]
    elif kind == 'reason':
        stack = [['reason', scn.cls('KeyError'), {'id': ids(), 'sig': vsig or fsig, 'expr': oexpr, 'msg': msg, 'exc': exc}]]
        body = [['raise', scn.cls('KeyError'), 100]]
    else:
        stack = [['has', ids(), [], msg, exc]]
        body = [['effect', 'out'], ['return', ['const', I(1)]]]
    return {'funs': [{'name': 'f', 'kind': 'sync', 'sig': fsig, 'stack': stack, 'body': body}],
            'driver': [['call', 'f', args, kws]], 'probes': True,
            'meta': {'kind': kind, 'msg': msg, 'exc': exc, 'outcome': oname, 'shape': shape, 'form': form}}


def cells(tier, seed):
    out = []
    rnd = random.Random(seed + 10)
    for kind, msg, exc in itertools.product(KINDS, MESSAGES, EXCS):
        outs = OUTCOMES if kind not in ('raises', 'has') else [OUTCOMES[0]]
        for outcome in outs:
            shapes = range(len(SIGS)) if tier == 'thorough' else [0, rnd.randrange(1, len(SIGS))]
            for shape in shapes:
                forms = ['explicit', 'short'] if kind in ('pre', 'ensure', 'reason') else ['explicit']
                for form in forms:
                    out.append(cell(kind, msg, exc, outcome, shape, form))
    return out


def strip(obs):
    return re.sub(r' str=[^ |]+ pickle=[^ |]+', '', obs)


def monitor(sc, obs):
    acts = O.split(obs)
    if acts is None:
        return [('harness/observation error: ' + str(obs)[:200], None)]
    m = sc['meta']; act = acts[0]
    out = []
    f = sc['funs'][0]
    want_cls = m['exc'][1]['name'] if m['exc'] else DEFAULT[m['kind']]
    if act.kind != 'X' or act.exc_class != want_cls:
        return [(f'{m["kind"]} violation configured as {m["exc"]} should raise {want_cls}; outcome {act.outcome!r}', None)]
    # message: returned text, else configured message or exception-instance text
    returned = 'returned text' if m['outcome'] == 'text' and m['kind'] not in ('raises', 'has') else None
    inst_text = (m['exc'][2][0]['s'] if (m['exc'] and m['exc'][0] == 'inst' and m['exc'][2]) else None)
    is_inst = bool(m['exc'] and m['exc'][0] == 'inst')
    if returned: want_msgs = {returned}
    elif is_inst: want_msgs = {inst_text} if inst_text else {None, m['msg']}      # an instance keeps its own text; `message` may also apply
    else: want_msgs = {m['msg']}
    deal_cls = want_cls.endswith('ContractError') or want_cls == 'MarkerError'
    got = None
    if deal_cls:
        mm = re.search(r'msg=<([^>]*)>', act.outcome); got = (mm.group(1) or None) if mm else None
    else:
        mm = re.search(r'args=\[(.*?)\] cause', act.outcome)
        a = mm.group(1) if mm else ''
        got = a[2:-1] if a.startswith('s<') else None
    if got not in want_msgs:
        out.append((f'message should be {sorted(str(x) for x in want_msgs)} (returned text, else configured message or instance text); got {got!r} in {act.outcome!r}', None))
    # params: exactly the arguments of the failing call (+ result for post / ensure)
    if deal_cls and m['kind'] in ('pre', 'ensure', 'reason', 'post'):
        fsig, args, kws = SIGS[m['shape']]
        b = pyeval.own_binding(fsig, args, kws)
        if m['kind'] == 'post': b = {'result': 1}
        if m['kind'] == 'ensure': b = dict(b, result=1)
        mm = re.search(r'params=(\{.*?\}) origin=', act.outcome)
        gotp = mm.group(1) if mm else None
        if gotp != pyeval.show_dict(b):
            # C10-F2 is exactly: params = the call's kwargs (top level) overlaid with the binding; anything else is a different defect
            b2 = {n: pyeval.val(v) for n, v in kws}; b2.update(b)
            tag = 'params_extra_kwargs_copy' if (any(p[1] == 'VarKw' for p in fsig) and kws and gotp == pyeval.show_dict(b2)) else None
            out.append((f'params should be the arguments of the failing call {pyeval.show_dict(b)}; got {gotp}', tag))
        if 'origin=f' not in act.outcome:
            out.append((f'the violated function should be exposed as origin; {act.outcome!r}', None))
    if m['kind'] in ('raises', 'reason') and ' cause=t100' not in act.outcome:
        out.append((f'{m["kind"]} violation should chain the original exception (cause); {act.outcome!r}', None))
    mm = re.search(r' str=([^ |]+) pickle=([^ |]+)', act.outcome)
    if mm:
        if mm.group(1) != 'ok':
            out.append((f'the error cannot be rendered as text: str -> {mm.group(1)}', None))
        if mm.group(2) != 'ok':
            tag = 'pickle_lambda_validator' if deal_cls and m['kind'] != 'has' else None
            out.append((f'the error does not survive pickling: {mm.group(2)}', tag))
    return out


FACTORY_SRC = r"""
import deal, random
__name__ = "c10_factory_probe"
def probe(seed):
    # functions (and explicit validators) made by one factory share a code object and differ in their default values: the params of a
    # violation error are the values of the failing call -- the defaults of THAT function
    rnd = random.Random(seed)
    bad = []
    for _ in range(20):
        limits = rnd.sample(range(1, 60), 3)
        def make(limit, short):
            if short:
                @deal.pre(lambda _: _.x < _.limit)
                def check(x, limit=limit): return x
            else:
                @deal.pre(lambda x, limit=limit: x < limit)
                def check(x, limit=limit): return x
            return check
        short = rnd.random() < .5
        fs = [(l, make(l, short)) for l in limits]
        for l, f in fs:
            for x in (l - 1, l, l + 100):
                try: f(x); got = "ok"
                except deal.PreContractError as e: got = dict(e.params)
                except BaseException as e: got = "exc:" + type(e).__name__
                want = "ok" if x < l else {"x": x, "limit": l}
                if got != want: bad.append([short, limits, l, x, got if isinstance(got, str) else sorted(got.items()), want if isinstance(want, str) else sorted(want.items())])
    # a marker contract that reaches a method through deal.inherit raises what was configured: type, text, message
    for exc, msg, want in ((ValueError("instance text"), None, ("ValueError", ("instance text",))),
                           (deal.SilentContractError("silent text"), None, ("SilentContractError", "silent text")),
                           (KeyError, "configured message", ("KeyError", ("configured message",))),
                           (None, "configured message", ("SilentContractError", "configured message"))):
        kw = {}
        if exc is not None: kw["exception"] = exc
        if msg is not None: kw["message"] = msg
        class Base:
            @deal.has(**kw)
            def m(self): print("x")
        class Child(Base):
            @deal.inherit
            def m(self): print("x")
        for label, obj in (("direct", Base()), ("inherited", Child())):
            try: obj.m(); got = "no error"
            except deal.ContractError as e: got = (type(e).__name__, e.message)
            except BaseException as e: got = (type(e).__name__, e.args)
            if got != want: bad.append(["has through " + label, repr(exc), msg, list(got) if isinstance(got, tuple) else got, list(want)])
    return bad

def roundtrip():
    # errors that carry a message AND a list of errors (what a scheme-style validator with a configured message raises), errors with only
    # one of the two, and with neither: each survives pickle (default protocol and protocol 2), copy and deepcopy unchanged
    import pickle, copy
    bad = []
    class Scheme:
        def __init__(self, data): self.data = data; self.errors = None
        def is_valid(self):
            if self.data.get("x", 0) > 0: return True
            self.errors = ["x must be positive"]; return False
    def vf(x): return x
    ways = (("pickle", lambda x: pickle.loads(pickle.dumps(x))), ("pickle2", lambda x: pickle.loads(pickle.dumps(x, 2))), ("copy", copy.copy), ("deepcopy", copy.deepcopy))
    for msg in (None, "bad input"):
        f = deal.pre(Scheme, **({} if msg is None else {"message": msg}))(vf)
        try: f(-1); bad.append(["scheme validator did not reject", msg])
        except deal.PreContractError as e:
            if e.errors != ["x must be positive"] or (msg is not None and e.message != msg): bad.append(["scheme error fields", msg, e.message, e.errors])
            e2 = type(e)(message=e.message, errors=e.errors)      # the same error without its references to the validator and the function (C10-F1 is about those)
            for how, rt in ways:
                try:
                    r = rt(e2)
                    if (type(r), r.message, r.errors, str(r)) != (type(e2), e2.message, e2.errors, str(e2)): bad.append(["scheme", how, "changed", msg, str(r)])
                except BaseException as x: bad.append(["scheme", how, "raised", msg, repr(x)])
    for cls in (deal.PreContractError, deal.PostContractError, deal.InvContractError, deal.RaisesContractError, deal.ReasonContractError, deal.MarkerError,
                deal.SilentContractError, deal.OfflineContractError, deal.ExampleContractError, deal.ContractError):
        for m, errs in (("", None), ("m", None), ("", ["e1"]), ("m", ["e1", "e2"])):
            e = cls(message=m, errors=errs)
            for how, rt in ways:
                try:
                    r = rt(e)
                    if (type(r), r.message, r.errors, str(r)) != (cls, e.message, e.errors, str(e)): bad.append([cls.__name__, how, "changed", m, errs, str(r)])
                except BaseException as x: bad.append([cls.__name__, how, "raised", m, errs, repr(x)])
    return bad
"""


def make(rnd, k): raise NotImplementedError


def nontrivial(sc, obs): return '|X ' in '|' + obs or obs.startswith('X ') or 'X ' in obs


def features(sc, obs): return ['kind=' + sc['meta']['kind']]


_me = sys.modules[__name__]
def run(ctx, fr, model_available=True):
    scs = base_scn.corpus(pid) + cells(ctx.tier, ctx.seed)
    for s in scs: s.setdefault('meta', {'kind': 'corpus', 'msg': None, 'exc': None, 'outcome': 'false', 'shape': 0, 'form': 'explicit'})
    base_scn.run(_me, ctx, fr, model_available, scs=[s for s in scs if s['meta']['kind'] != 'corpus'])
    fr.exhaustive = True
    from ..harness import impl
    r = impl.run_impl('pyexec.py', {'src': FACTORY_SRC, 'calls': [['probe', [ctx.seed]]]})[0]
    fr.evaluations += 40; fr.add_nontrivial({'factory_probe': ctx.seed})
    fr.samples.append({'family': 'functions and validators made by a factory', 'deviations': r})
    if isinstance(r, dict): fr.errors.append('C10 factory probe failed: ' + str(r)[:400])
    elif r:
        fr.violations.append({'scenario': {'family': 'factory', 'seed': ctx.seed}, 'impl': r[:4], 'signature': None,
                              'what': f'the params of a violation error are not the arguments of the failing call (passed or default values): {r[0]}'})
    r = impl.run_impl('pyexec.py', {'src': FACTORY_SRC, 'calls': [['roundtrip', []]]})[0]
    fr.evaluations += 168; fr.add_nontrivial({'roundtrip_probe': 0})
    fr.samples.append({'family': 'errors with message and / or errors through pickle and copy', 'deviations': r})
    if isinstance(r, dict): fr.errors.append('C10 round-trip probe failed: ' + str(r)[:400])
    elif r:
        fr.violations.append({'scenario': {'family': 'roundtrip'}, 'impl': r[:4], 'signature': None,
                              'what': f'a violation error does not survive pickling / copying unchanged: [class, how, what, message, errors, ...] = {r[0]}'})
def search(ctx, fr, model_available=True):
    class C2: tier = 'thorough'; seed = ctx.seed
    scs = cells('thorough', ctx.seed)
    im = scn.run_impl(scs)
    for sc, oi in zip(scs, im):
        fr.evaluations += 1
        for what, tag in monitor(sc, oi):
            fr.violations.append({'scenario': sc, 'impl': oi, 'what': what, 'signature': tag})
classify = base_scn.classify
