"""C17 -- the linter's partial execution of contracts agrees with the runtime. Modules with closed-expression pre / post / ensure /
example contracts, literal returns and literal calls are generated; the linter's DEL011 / DEL012 / DEL013 findings are compared
with what the real decorators do on the same validator and values (the runtime outcome), through the model of the template tail
and Rule._validate (Sem/LintExec.v)."""
from __future__ import annotations
import random, json, sys, os
from ..harness import coq, impl

pid = 'C17'
gen_modules = ['tr_lintexec', 'tr_lint', 'tr_rest_lintcontract', 'tr_rest_lintrules', 'tr_rest_lintglue', 'tr_rest_linttables', 'tr_rest_lintmisc']
model_targets = ['Sem/LintExec.v']
hand_modelled = ['coq/Sem/LintExec.v: the tail of deal/linter/_template.py, Rule._validate, the test of get_pre.handle_call (hand-written; source pinned by tools/py2coq/lintexec_pins.json)',
                 'ast.literal_eval / astroid (extraction of literal values, resolution of the callee) and the runtime Validator itself are oracles: the runtime outcome is obtained by '
                 'performing the same call with the real decorators']
explanation = ('Theorems: on the outcome of the runtime validator the linter reports a finding iff the runtime rejects; the message of a message-returning validator becomes the text; a '
               'contract that cannot be executed is skipped; the return rule and the call rule agree. Correspondence: model verdict on the observed runtime outcome = linter finding '
               '(presence and text) for every generated return / call / example. Monitor: the same comparison stated directly (finding iff runtime rejects).')
RULE = ('modules with one contracted function g over 6 signature shapes (positional, defaults, keyword-only, *args, **kw), 1-2 pre (explicit signature or `_` form, message-returning, '
        'some referring to undefined names), 0-2 post, 0-1 ensure, 0-3 examples, 1-3 literal returns and a contracted caller with 1-4 literal calls (positional / keyword / '
        'defaults omitted / too many arguments); literals: ints, floats, strings, bytes, None, booleans, nested tuples / lists / sets / dicts; both parser back-ends; '
        'non-trivial = the runtime rejects at least one of the described checks')

SIGS = [('a', ['a']), ('a, b', ['a', 'b']), ('a, b=2', ['a', 'b']), ('a, *, c=3', ['a', 'c']), ('a, b=1, *args', ['a', 'b']), ('a, **kw', ['a']), ('a, /, b=1', ['a', 'b']), ('a, b, /', ['a', 'b']), ('a=0, b=1', ['a', 'b'])]
LITS = ['0', '1', '-1', '2', '5', '-3', '0.5', '-1.0', "''", "'x'", "'abc'", "b'ab'", 'None', 'True', 'False', '()', '(1, 2)', "(1, ('a', None))", '[]', '[1, 2, 3]',
        '{1, 2}', "{'k': 1}", '[(1, 2), [3]]', '1.0']


def atom(rnd, n):
    r = rnd.random()
    if r < .3: return f'{n} {rnd.choice([">", ">=", "<", "!=", "=="])} {rnd.randint(-1, 3)}'
    if r < .4: return f'isinstance({n}, {rnd.choice(["int", "str", "bool", "(int, float)", "tuple"])})'
    if r < .5: return f'{n} is not None'
    if r < .6: return f'len({n}) {rnd.choice([">", "<", "=="])} {rnd.randint(0, 2)}'
    if r < .7: return f"{n} in (1, 2, 'x', None)"
    if r < .78: return f'type({n}) is {rnd.choice(["int", "bool", "float", "str"])}'
    if r < .85: return f'{n} != {rnd.choice(LITS)}'
    if r < .9: return f'bool({n})'
    if r < .95: return f'undefined_helper({n})'
    return f'{n}'


def pred(rnd, names, short):
    ref = (lambda n: f'_.{n}') if short else (lambda n: n)
    e = atom(rnd, ref(rnd.choice(names)))
    if rnd.random() < .25: e = f'({e}) {rnd.choice(["and", "or"])} ({atom(rnd, ref(rnd.choice(names)))})'
    if rnd.random() < .25: e = '(' + e + ') or ' + rnd.choice(['"bad value"', '"a must be ok"'])
    return e


def gen_case(rnd):
    sig, names = rnd.choice(SIGS)
    pres, posts, ensures = [], [], []
    for _ in range(rnd.randint(1, 2)):
        short = rnd.random() < .35
        pres.append(f'lambda _: {pred(rnd, names, True)}' if short else f'lambda {sig}: {pred(rnd, names, False)}')
    for _ in range(rnd.randint(0, 2)):
        posts.append(f'lambda result: {pred(rnd, ["result"], False)}')
    if rnd.random() < .4:
        ensures.append(f'lambda _: {pred(rnd, names + ["result"], True)}')

    def call(bad_ok=True):
        args, kwargs = [], {}
        r = rnd.random()
        if sig == 'a': args = [rnd.choice(LITS)] if r < .8 else [];
        elif sig == 'a, b':
            if r < .5: args = [rnd.choice(LITS), rnd.choice(LITS)]
            elif r < .8: args = [rnd.choice(LITS)]; kwargs = {'b': rnd.choice(LITS)}
            else: kwargs = {'b': rnd.choice(LITS), 'a': rnd.choice(LITS)}
        elif sig == 'a, b=2':
            if r < .4: args = [rnd.choice(LITS)]
            elif r < .7: args = [rnd.choice(LITS), rnd.choice(LITS)]
            else: args = [rnd.choice(LITS)]; kwargs = {'b': rnd.choice(LITS)}
        elif sig == 'a, *, c=3':
            args = [rnd.choice(LITS)]
            if r < .5: kwargs = {'c': rnd.choice(LITS)}
        elif sig == 'a, b=1, *args':
            args = [rnd.choice(LITS) for _ in range(rnd.randint(1, 4))]
        elif sig == 'a, /, b=1':
            args = [rnd.choice(LITS)] if r < .4 else [rnd.choice(LITS), rnd.choice(LITS)]
            if r < .2: kwargs = {'b': rnd.choice(LITS)}
        elif sig == 'a, b, /':
            args = [rnd.choice(LITS), rnd.choice(LITS)]
        elif sig == 'a=0, b=1':
            # every parameter has a default: the call may pass nothing at all
            if r < .5: args = []
            elif r < .75: args = [rnd.choice(LITS)]
            else: kwargs = {'b': rnd.choice(LITS)}
        else:
            args = [rnd.choice(LITS)]
            if r < .5: kwargs = {'z': rnd.choice(LITS)}
        if bad_ok and rnd.random() < .08: args = args + [rnd.choice(LITS), rnd.choice(LITS), rnd.choice(LITS)]
        return args, kwargs

    fmt = lambda a, k: ', '.join(list(a) + [f'{n}={v}' for n, v in k.items()])
    lines = ['import deal', '']
    if posts and rnd.random() < .15:
        # a validator with a positional-only parameter, and a module-level name spelled the same: the argument is the parameter, not the global
        posts = [p.replace('lambda result:', 'lambda result, /:') for p in posts]
        lines = ['import deal', 'result = 7', '']
    items = []
    examples = []
    for _ in range(rnd.randint(0, 3)):
        a, k = call(bad_ok=False)
        res = rnd.choice(LITS) if rnd.random() < .8 else None
        examples.append((a, k, res))
    # the contract decorators in a random order (the rules walk func.contracts in source order)
    decos = [('example', ex) for ex in examples] + [('pre', p) for p in pres] + [('post', p) for p in posts] + [('ensure', e) for e in ensures]
    rnd.shuffle(decos)
    ordered = [[c, v] for c, v in decos if c != 'example']
    pres = [v for c, v in ordered if c == 'pre']; posts = [v for c, v in ordered if c == 'post']
    for c, v in decos:
        if c == 'example':
            a, k, res = v
            cmp_ = f' == {res}' if res is not None else ' != 77'
            lines.append(f'@deal.example(lambda: g({fmt(a, k)}){cmp_})')
            items.append({'kind': 'example', 'row': len(lines), 'args': a, 'kwargs': k, 'sig': sig, 'result': res, 'validators': ordered})
        else:
            lines.append(f'@deal.{c}({v})')
    is_async = rnd.random() < .15 and not examples and not ensures      # a coroutine function: the same contracts, the same findings on both back-ends
    lines.append(f'{"async " if is_async else ""}def g({sig}):')
    rets = [rnd.choice(LITS) for _ in range(rnd.randint(1, 3))]
    is_gen = rnd.random() < .25 and not examples and not ensures and not is_async       # a generator: every yielded literal is judged like a returned one
    # a generator that only delegates (`yield from`): the literals it returns are not validated by the runtime
    delegating = (not is_gen) and rnd.random() < .08 and not examples and not ensures and not is_async
    kw = 'yield' if is_gen else 'return'
    for i, v in enumerate(rets):
        if i + 1 < len(rets) and rnd.random() < .2:
            # inside a try body: still a value the function returns / yields
            lines += ['    try:', f'        {kw} {v}', '    except ValueError:', '        pass']
            if posts and not delegating: items.append({'kind': 'post', 'row': len(lines) - 2, 'value': v, 'validators': posts})
            continue
        if i + 1 < len(rets):
            lines.append(f'    if a == {i}:'); lines.append(f'        {kw} {v}')
        else:
            lines.append(f'    {kw} {v}')
        if posts and not delegating: items.append({'kind': 'post', 'row': len(lines), 'value': v, 'validators': posts})
    quiet = []
    if not is_gen and not delegating and not is_async and rnd.random() < .06:
        # a lambda that would yield is another scope: g is no generator and its returns are validated as usual
        first = next(i for i, l in enumerate(lines) if l.startswith('def g(')) + 1
        lines.insert(first, '    unused = lambda: (yield)')
        for it in items:
            if it['row'] > first: it['row'] += 1
    if delegating:
        # every `return <literal>` written above is a quiet row now; the delegation goes first in the body
        first = next(i for i, l in enumerate(lines) if l.startswith(('def g(', 'async def g('))) + 1
        lines.insert(first, f'    yield from ({rnd.choice(LITS)},)')
        for it in items:
            if it['row'] > first: it['row'] += 1
        quiet = [i + 1 for i, l in enumerate(lines) if i >= first and l.strip().startswith('return ')] + [first + 1]
    if rnd.random() < .2:
        # a nested function: its returns are not returns of g (defining it returns nothing); placed before the last return of g
        at = len(lines) - 1
        nested = ['    def inner():', f'        return {rnd.choice(LITS)}'] if rnd.random() < .6 else ['    async def inner():', f'        return {rnd.choice(LITS)}']
        last = lines[at:]; del lines[at:]
        for it in items:
            if it['kind'] == 'post' and it['row'] > at: it['row'] += len(nested)
        quiet = [q + len(nested) if q > at else q for q in quiet]
        lines += nested; quiet.append(len(lines)); lines += last
    if is_gen and rnd.random() < .5:
        # the value a generator returns is not validated by the runtime (only what it yields)
        lines.append(f'    return {rnd.choice(LITS)}'); quiet.append(len(lines))
    if is_gen:
        # delegation: the values come from the iterable one by one; the collection itself is not a yielded value
        lines.append(f'    yield from [{rnd.choice(LITS)}, {rnd.choice(LITS)}]'); quiet.append(len(lines))
        lines.append(f'    yield from ({rnd.choice(LITS)},)'); quiet.append(len(lines))
    lines += ['', '', '@deal.safe', f'{"async " if is_async else ""}def caller():']
    for _ in range(rnd.randint(1, 4)):
        a, k = call()
        lines.append(f'    {"await " if is_async else ""}g({fmt(a, k)})')
        items.append({'kind': 'pre', 'row': len(lines), 'args': a, 'kwargs': k, 'sig': sig, 'validators': [['pre', p] for p in pres]})
    lines.append('    return 0')
    return {'src': '\n'.join(lines) + '\n', 'items': items, 'helpers': '', 'quiet_rows': quiet}


DEFAULT = {'post': 'post contract error', 'pre': 'pre contract error', 'example': 'example violates contract'}


def expected(item, outs):
    """findings the property demands, from the runtime outcomes: key (code, row, contract category for examples) -> admissible texts.
    The driver reports one finding per (row, col, code, value): several rejecting contracts of one kind at one place give one finding."""
    exp = {}
    for v, o in zip(item['validators'], outs):
        if o == 'skip' or o == 'accept' or o[0] == 'crash': continue
        msg = o[1]
        if item['kind'] == 'post': exp.setdefault((12, item['row'], None), set()).add(msg or DEFAULT['post'])
        elif item['kind'] == 'pre': exp.setdefault((11, item['row'], None), set()).add(msg or DEFAULT['pre'])
        else: exp.setdefault((13, item['row'], 'deal.' + v[0]), set()).add(msg or DEFAULT['example'])
    return exp


def observed(item, findings):
    got = {}
    for code, row, col, text, value in findings:
        if row != item['row']: continue
        if item['kind'] == 'post' and code == 12: got.setdefault((12, row, None), set()).add(text)
        elif item['kind'] == 'pre' and code == 11: got.setdefault((11, row, None), set()).add(text)
        elif item['kind'] == 'example' and code == 13: got.setdefault((13, row, str(value)), set()).add(text)
    return got


def agree(got, exp):
    return set(got) == set(exp) and all(got[k] <= exp[k] for k in got)


def coutcome(o):
    if o == 'accept': return 'Accepted'
    if o[0] == 'crash': return f'(Crashed "{o[1]}")'
    if o[1] is None: return '(Rejected None)'
    return '(Rejected (Some (VStr "' + o[1].replace('"', '""') + '")))'


def run(ctx, fr, model_available=True, cases=None):
    rnd = random.Random(ctx.seed * 23 + 17)
    import glob
    cases = cases if cases is not None else ([json.load(open(f)) for f in sorted(glob.glob(os.path.join(coq.VERIF, 'corpus', 'C17', '*.json')))]
                                              + [gen_case(rnd) for _ in range(1200 if ctx.tier == 'thorough' else 300)])
    res = []
    for i in range(0, len(cases), 150):
        res += impl.run_impl('c17_exec.py', cases[i:i + 150], timeout=1500)
    dist = {'modules': len(cases), 'items': 0, 'rejected': 0, 'crashed': 0, 'accepted': 0}
    model_rows = []
    for c, r in zip(cases, res):
        fr.evaluations += 1
        for be in ('ast', 'astroid'):
            if isinstance(r[be], dict):
                fr.violations.append({'scenario': {'src': c['src']}, 'impl': r[be], 'what': f'the linter raised ({be} back-end): {r[be]["crash"][:300]}', 'signature': None})
        if isinstance(r['ast'], dict) or isinstance(r['astroid'], dict): continue
        for be in ('ast', 'astroid'):
            stray = [f for f in r[be] if f[0] in (11, 12, 13) and f[1] in c.get('quiet_rows', [])]
            if stray:
                fr.violations.append({'scenario': {'src': c['src']}, 'impl': stray, 'signature': None,
                                      'what': f'the linter ({be} back-end) reports {stray} at a `yield from` line: no literal value is returned or yielded there'})
        for it, outs in zip(c['items'], r['items']):
            if isinstance(outs, dict):
                fr.errors.append('C17 harness: ' + outs['harness_error']); continue
            dist['items'] += 1
            for o in outs:
                if o == 'accept': dist['accepted'] += 1
                elif o != 'skip' and o[0] == 'reject': dist['rejected'] += 1
                elif o != 'skip': dist['crashed'] += 1
            exp = expected(it, outs)
            if exp: fr.add_nontrivial({'item': it})
            for be in ('ast', 'astroid'):
                if it['kind'] == 'pre' and be == 'ast': continue          # the call rule needs inference: astroid only
                got = observed(it, r[be])
                if not agree(got, exp):
                    fr.violations.append({'scenario': {'src': c['src'], 'item': it}, 'impl': {'findings': str(got), 'runtime': outs},
                                          'what': f'{it["kind"]} at line {it["row"]} ({be} back-end): the linter reports {got}; the runtime outcomes {outs} demand {exp}', 'signature': None})
            # rows for the model: verdict on the runtime outcome vs the linter's text (astroid back-end)
            for v, o in zip(it['validators'], outs):
                if o == 'skip': continue
                fn = 'pre_verdict' if it['kind'] == 'pre' else 'lint_verdict'
                model_rows.append((c, it, v, o, f'({fn} "{DEFAULT[it["kind"]]}" {coutcome(o)})'))
    per_item = {}
    if model_available and model_rows:
        for lo in range(0, len(model_rows), 1500):
            part = model_rows[lo:lo + 1500]
            text = ('From Coq Require Import List String.\nImport ListNotations.\nFrom Deal Require Import Base Show LintExec.\nOpen Scope string_scope.\n'
                    'Eval vm_compute in (join (String (Ascii.ascii_of_nat 30) "") (map (fun o => match o with None => "-" | Some s => ("+" ++ s)%string end) [\n  '
                    + ';\n  '.join(p[4] for p in part) + '\n])).\n')
            ok, outp = coq.eval_cases(f'C17_{lo}', text)
            strs = coq.parse_strings(outp) if ok else []
            if len(strs) != 1 or len(strs[0].split('\x1e')) != len(part):
                fr.errors.append('C17 cases failed: ' + outp[-1500:]); continue
            for (c, it, v, o, _), m in zip(part, strs[0].split('\x1e')):
                fr.programs += 1; fr.traces_validated += 1
                per_item.setdefault(id(it), [c, it, {}])
                if m != '-':
                    code = {'post': 12, 'pre': 11, 'example': 13}[it['kind']]
                    per_item[id(it)][2].setdefault((code, it['row'], 'deal.' + v[0] if it['kind'] == 'example' else None), set()).add(m[1:])
        # the model's findings per described check = the linter's (astroid back-end), up to the driver's de-duplication
        for c, it, mset in per_item.values():
            r = res[cases.index(c)]
            got = observed(it, r['astroid'])
            if not agree(got, mset):
                fr.disagreements.append({'scenario': {'src': c['src'], 'item': it}, 'model': str(mset), 'impl': str(got)})
    fr.rule = RULE
    fr.samples.append({'src': cases[0]['src'], 'runtime': res[0].get('items')})
    fr.distribution = dist


def search(ctx, fr, model_available=True):
    rnd = random.Random(ctx.seed * 23 + 1017)
    fr2 = type(fr)()
    run(ctx, fr2, model_available=False, cases=[gen_case(rnd) for _ in range(700)])
    fr.violations += fr2.violations; fr.evaluations += fr2.evaluations


def classify(v, findings):
    for f in findings:
        if f.get('status') == 'open' and f.get('signature') and f['signature'] == v.get('signature'):
            return f['id']
    return None
