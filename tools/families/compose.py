"""Shared generator for composition scenarios (C09, C14): contract objects applied to functions by stacking, chain and through
foreign decorators; contract objects shared between functions."""
from __future__ import annotations
import random
from ..harness import scn, gen, pyeval

I = lambda n: {'i': n}


def gen_contracts(rnd, sigs, n):
    """contract objects; explicit validators are written against a common first parameter name `a`"""
    out = []
    for cid in range(1, n + 1):
        k = rnd.choice(['pre', 'pre', 'post', 'ensure', 'raises', 'has', 'reason'])
        short = rnd.random() < .35
        if k == 'pre':
            vs = [['_', 'PosOrKw', None]] if short else None
            e = ['bin', rnd.choice(['gt', 'ge', 'ne']), (['attr', 'a'] if short else ['var', 'a']), ['const', I(rnd.randint(-1, 3))]]
            out.append([cid, ['pre', {'id': cid, 'sig': vs, 'expr': e, 'msg': None, 'exc': None}]])
        elif k == 'post':
            e = ['bin', rnd.choice(['gt', 'ne']), ['var', 'r'], ['const', I(rnd.randint(-1, 3))]]
            out.append([cid, ['post', {'id': cid, 'sig': [['r', 'PosOrKw', None]], 'expr': e, 'msg': None, 'exc': None}]])
        elif k == 'ensure':
            e = ['bin', rnd.choice(['ge', 'ne']), ['attr', 'result'], ['const', I(rnd.randint(-1, 2))]]
            out.append([cid, ['ensure', {'id': cid, 'sig': [['_', 'PosOrKw', None]], 'expr': e, 'msg': None, 'exc': None}]])
        elif k == 'raises':
            out.append([cid, ['raises', cid, [scn.cls(rnd.choice(['ValueError', 'LookupError', 'Exception']))], None, None]])
        elif k == 'reason':
            e = ['bin', rnd.choice(['ge', 'ge', 'ne']), ['attr', 'a'], ['const', I(rnd.randint(0, 4))]]      # the body raises when a == 2: accepts and rejects both occur
            out.append([cid, ['reason', scn.cls('ValueError'), {'id': cid, 'sig': [['_', 'PosOrKw', None]], 'expr': e, 'msg': None, 'exc': None}]])
        else:
            out.append([cid, ['has', cid, rnd.choice([[], ['stdout'], ['io']]), None, None]])
    return out


def make(rnd, k, foreign=.5, share=.5):
    nf = rnd.choice([1, 2, 2])
    sigs = [[['a', 'PosOrKw', None]], [['a', 'PosOrKw', None], ['b', 'PosOrKw', I(4)]], [['b', 'PosOrKw', None], ['a', 'PosOrKw', I(1)]]]
    fsigs = [rnd.choice(sigs if rnd.random() < share else sigs[:1]) for _ in range(nf)]
    contracts = gen_contracts(rnd, fsigs, rnd.randint(2, 6))
    funs = []
    shared_chains = {}
    pool = [c[0] for c in contracts]
    for i in range(nf):
        name = 'fgh'[i]
        fsig = fsigs[i]
        # explicit pre validators take the function's own signature
        mine = rnd.sample(pool, rnd.randint(1, len(pool))) if i == 0 or rnd.random() < share else []
        if not mine: mine = [rnd.choice(pool)]
        build, j = [], 0
        tags = iter([10 * (i + 1) + t for t in range(9)] + [100 * (i + 1) + t for t in range(90)])
        while j < len(mine):
            r = rnd.random()
            if shared_chains and i > 0 and r < .35:
                # one deal.chain(...) object applied to several functions
                key = rnd.choice(sorted(shared_chains))
                build.append(['chain', shared_chains[key], key])
            elif r < .3 and j + 1 < len(mine):
                n = rnd.randint(2, min(3, len(mine) - j))
                key = f'k{len(shared_chains)}'
                shared_chains[key] = mine[j:j + n]
                build.append(['chain', mine[j:j + n], key]); j += n
            else:
                build.append(['use', mine[j]]); j += 1
            if rnd.random() < foreign * .5:
                build.append([rnd.choice(['wraps', 'wraps', 'plain']), next(tags)])
        body = [['if', ['bin', 'eq', ['var', 'a'], ['const', I(2)]], [['raise', scn.cls(rnd.choice(['ValueError', 'KeyError'])), 100 + i]], []],
                ['effect', 'out'], ['return', ['var', 'a']]]
        funs.append({'name': name, 'kind': 'sync', 'sig': fsig, 'body': body, 'build': build})
    # explicit pre validators need a signature: give each the signature of the first function that uses it
    for cid, it in contracts:
        if it[0] == 'pre' and it[1]['sig'] is None:
            user = next((f for f in funs if any((b[0] == 'use' and b[1] == cid) or (b[0] == 'chain' and cid in b[1]) for b in f['build'])), funs[0])
            it[1]['sig'] = user['sig']
    driver = []
    for f in funs:
        for _ in range(rnd.randint(1, 3)):
            driver.append(['call', f['name'], [I(rnd.randint(-1, 3))], []])
    queries = [[q, f['name']] for f in funs for q in ('contracts', 'unwrap')]
    return {'contracts': contracts, 'funs': funs, 'driver': driver, 'queries': queries}


def applied(f):
    """contract ids applied to a function, in application order, with the layer index (layers are separated by foreign steps)"""
    out, layer, foreigns = [], 0, []
    for b in f['build']:
        if b[0] == 'use': out.append((b[1], layer))
        elif b[0] == 'chain': out += [(c, layer) for c in b[1]]
        else:
            foreigns.append((b[0], b[1], layer)); layer += 1
    return out, foreigns, layer
