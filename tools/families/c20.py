"""C20 -- module-load contracts are enforced at import time and only there. Generated modules (declaration absent / pure / safe /
has(markers) / several / unsupported forms / aliased / nested, at any top-level position) x import-time behaviours x orders of
activate / deactivate / import / disable, through the real import system."""
from __future__ import annotations
import random, json, sys
from ..harness import coq, impl

pid = 'C20'
gen_modules = ['tr_pin_imports', 'tr_has_patcher', 'tr_rest_patcher', 'tr_rest_imports']
model_targets = ['Sem/ImportModel.v']
hand_modelled = ['coq/Sem/ImportModel.v: activate / deactivate / module_load / DealLoader.exec_module / _get_contracts / _exec_contract (hand-written; source pinned); '
                 'importlib (a module whose execution raised is not registered) as an oracle']
explanation = ('Theorems on the import state machine; correspondence: the same action lists on the real import system (fresh process per case) vs the model; monitor: '
               'the property restated on the observations.')
RULE = ('action lists of 2-6 steps over {activate, deactivate, disable, enable, import a freshly generated module}; modules: 0-3 filler statements around a declaration '
        'that is absent / deal.module_load(<1-3 contracts from pure, safe, has(markers), raises(Exc), typo, foreign name, nested attribute, keyword call>) / aliased / nested in if; '
        'import-time behaviour: clean / prints / raises / opens a socket; laid out as a single file, a package __init__.py or a submodule of a package; non-trivial = a module with a declaration is imported while activated')

CONTRACTS = [
    ('deal.pure', 'CAttr "deal" "pure"', 'pure'), ('deal.safe', 'CAttr "deal" "safe"', 'safe'),
    ("deal.has()", 'CCall (CAttr "deal" "has") true false []', 'has:'), ("deal.has('stdout')", 'CCall (CAttr "deal" "has") true false ["stdout"]', 'has:stdout'),
    ("deal.has('io')", 'CCall (CAttr "deal" "has") true false ["io"]', 'has:io'), ("deal.has('network')", 'CCall (CAttr "deal" "has") true false ["network"]', 'has:network'),
    ('deal.raises(ValueError)', 'CCall (CAttr "deal" "raises") false false []', 'unsupported'),
    ('deal.typo', 'CAttr "deal" "typo"', 'unsupported:AttributeError'), ('notdeal.pure', 'CAttr "notdeal" "pure"', 'unsupported:NameError'),
    ("deal.has('stdout', message='m')", 'CCall (CAttr "deal" "has") true true ["stdout"]', 'unsupported'),
    ("deal.safe(message='m')", 'CCall (CAttr "deal" "safe") true true []', 'unsupported'),
    ('deal.has', 'CAttr "deal" "has"', 'unsupported'), ('deal.raises', 'CAttr "deal" "raises"', 'unsupported'), ('deal.pre', 'CAttr "deal" "pre"', 'unsupported'),
    ('deal.chain', 'CAttr "deal" "chain"', 'unsupported'), ('deal.ensure', 'CAttr "deal" "ensure"', 'unsupported'),
    # attributes of deal that module_load does not accept are not even looked up
    ('deal.pre(1)', 'CCall (CAttr "deal" "pre") true false []', 'unsupported'),
    ('deal.introspection.unwrap', 'CNested', 'crash'), ("deal.has(markers='io')", 'CCall (CAttr "deal" "has") true true []', 'unsupported:TypeError?'),
]


def gen_module(rnd, name):
    # statements that are no declaration, among them calls whose callee is not a dotted name and calls of other functions
    fill = ['x = 1', 'import os', 'def helper():\n    return 2', '"""doc"""', '(lambda: 0)()', '"a b".split()[0].strip()', '[len][0]("abc")', 'len("abc")', 'str.upper("a")']
    pre = rnd.sample(fill, rnd.randint(0, 3))
    kind = rnd.choice(['none', 'decl', 'decl', 'decl', 'decl', 'alias', 'nested', 'two'])
    behaviour = rnd.choice(['clean', 'clean', 'print', 'raise', 'socket'])
    cs = [rnd.choice(CONTRACTS if rnd.random() < .35 else CONTRACTS[:6]) for _ in range(rnd.choice([0, 1, 1, 1, 2, 2, 3]))]      # 0: `deal.module_load()`, an empty declaration
    lines, body_coq = ['import deal'], ['TOther']
    for p in pre: lines.append(p); body_coq.append('TOther')
    calls, arg_error = None, None
    def arg_err(cs):
        for text, _, tag in cs:     # arguments are evaluated left to right: the first that cannot be evaluated decides
            if tag.startswith('unsupported:'): return tag.split(':')[1].rstrip('?')
        return None
    if kind == 'decl' or kind == 'two':
        decl = 'deal.module_load(' + ', '.join(c[0] for c in cs) + ')'
        r = rnd.random()
        if r < .12: lines.append('y0 = 0; ' + decl); body_coq.append('TOther')          # a top-level statement need not start its line
        elif r < .2: lines.append('deal \\\n    .module_load(' + ', '.join(c[0] for c in cs) + ')')
        else: lines.append(decl)
        body_coq.append('TLoad "deal.module_load" [' + '; '.join(c[1] for c in cs) + ']')
        calls, arg_error = len(cs), arg_err(cs)
        if kind == 'two':
            lines.append('deal.module_load(deal.safe)'); body_coq.append('TLoad "deal.module_load" [CAttr "deal" "safe"]')
    elif kind == 'alias':
        lines.insert(1, 'import deal as d'); body_coq.insert(1, 'TOther')
        lines.append('d.module_load(deal.pure)'); body_coq.append('TLoad "d.module_load" [CAttr "deal" "pure"]')
        calls = 1
    elif kind == 'nested':
        lines.append('if True:\n    deal.module_load(deal.pure)'); body_coq.append('TOther')
        calls = 1
    if behaviour == 'print': lines.append("print('hello')")
    elif behaviour == 'raise': lines.append("raise ValueError('boom')")
    elif behaviour == 'socket': lines.append('import socket\nsocket.socket().close()')
    if behaviour != 'clean': body_coq.append('TOther')
    if behaviour != 'raise': lines.append('c20_done = 1'); body_coq.append('TOther')
    src = '\n'.join(lines) + '\n'
    cq = ('{| m_body := [' + '; '.join(body_coq) + ']; m_calls_module_load := ' + ('None' if calls is None else f'(Some {calls})') +
          '; m_arg_error := ' + ('None' if arg_error is None else f'(Some "{arg_error}")') +
          f'; m_prints := {"true" if behaviour == "print" else "false"}; m_raises := ' + ('(Some "ValueError")' if behaviour == 'raise' else 'None') +
          f'; m_socket := {"true" if behaviour == "socket" else "false"} |}}')
    meta = {'kind': kind, 'behaviour': behaviour, 'contracts': [c[2] for c in cs] if kind in ('decl', 'two') else []}
    return src, cq, meta


EXT = ['cmath', 'mmap', '_csv', 'resource', 'syslog', 'audioop', '_lsprof', 'xxsubtype', '_heapq', '_bisect']


def gen_case(rnd, k):
    acts, cq, metas = [], [], []
    if rnd.random() < .12:
        # activated, then disabled: every later import is an ordinary import, whatever the module declares
        acts += [['activate'], ['enabled', False]]; cq += ['AActivate', 'ASetEnabled false']; metas += [None, None]
    for j in range(rnd.randint(2, 6)):
        r = rnd.random()
        if r < .25: acts.append(['activate']); cq.append('AActivate'); metas.append(None)
        elif r < .35: acts.append(['deactivate']); cq.append('ADeactivate'); metas.append(None)
        elif r < .45:
            b = rnd.random() < .5
            acts.append(['enabled', b]); cq.append(f'ASetEnabled {"true" if b else "false"}'); metas.append(None)
        elif r < .52:
            # a compiled extension module of the standard library (no source, no declaration): imports exactly as without deal
            name = rnd.choice(EXT)
            if any(x[0] == 'import_ext' and x[1] == name for x in acts): continue
            acts.append(['import_ext', name]); metas.append({'kind': 'none', 'behaviour': 'clean', 'contracts': []})
            cq.append(f'AImport "{name}" {{| m_body := []; m_calls_module_load := None; m_arg_error := None; m_prints := false; m_raises := None; m_socket := false |}}')
        else:
            name = f'm{k}_{j}'
            src, c, meta = gen_module(rnd, name)
            acts.append(['import', name, src, rnd.choice(['module', 'module', 'package', 'submodule', 'namespace'])]); cq.append(f'AImport "{name}" {c}'); metas.append(meta)
    return acts, '[' + '; '.join(cq) + ']', metas


def monitor(acts, metas, obs):
    out = []
    steps = obs.split('|')
    if len(steps) != len(acts): return [('harness/observation error: ' + obs[:200], None)]
    enabled, active = True, False
    for a, m, st in zip(acts, metas, steps):
        if f' enabled={int(enabled if a[0] != "enabled" else a[1])}' not in st and a[0] != 'enabled':
            out.append((f'the contract switch changed during {a[0]}: {st} (expected enabled={int(enabled)})', None)); break
        if a[0] == 'activate':
            want = enabled and not active
            if st.split(' ')[0] != f'activate={int(want)}': out.append((f'activate returned {st}; expected {int(want)} (idempotent, inert when disabled)', None)); break
            active = active or want
        elif a[0] == 'deactivate':
            if st.split(' ')[0] != f'deactivate={int(active)}': out.append((f'deactivate returned {st}', None)); break
            active = False
        elif a[0] == 'enabled': enabled = a[1]
        else:
            res = st.split('=')[1].split(' ')[0]; reg = st.split('registered=')[1][0] == '1'
            if (res == 'ok') != reg:
                out.append((f'import outcome {res} but module registered={reg}: a failed import must leave no module registered', None)); break
            tag = None
            if m['kind'] in ('alias', 'nested', 'two'): tag = {'alias': 'aliased_declaration_ignored', 'nested': 'nested_declaration_ignored', 'two': 'second_declaration_ignored'}[m['kind']]
            beh = m['behaviour']
            plain = {'clean': 'ok', 'print': 'ok', 'socket': 'ok', 'raise': 'ValueError'}[beh]
            if m['kind'] == 'none':
                if res != plain: out.append((f'a module without declaration must import exactly as without deal ({plain}); got {res}', None)); break
                continue
            if not enabled:
                # inert
                if m['kind'] in ('decl', 'two') and any(c.startswith('unsupported:') for c in m['contracts']):
                    continue        # evaluating the arguments of the statement fails at run time, with or without deal
                if res != plain:
                    out.append((f'contracts are disabled: the import must behave as without deal ({plain}); got {res}', tag)); break
                continue
            if not active:
                if m['kind'] in ('decl', 'two', 'alias', 'nested') and not any(c.startswith('unsupported:') for c in m['contracts']):
                    if res != 'RuntimeError' and plain == 'ok' :
                        out.append((f'declaring module-load contracts without prior activation must raise RuntimeError; got {res}', tag)); break
                continue
            # activated and enabled
            if m['kind'] in ('alias', 'nested'):
                # the declaration is real (the statement executes) but the loader does not see it: contracts silently not enforced
                want = 'SilentContractError' if beh == 'print' else 'OfflineContractError' if beh == 'socket' else 'RaisesContractError' if beh == 'raise' else 'ok'
                if res != want: out.append((f'{m["kind"]} declaration of deal.pure: the import should be checked ({want}); got {res}', tag)); break
                continue
            cs = m['contracts']
            if not cs:
                # an empty declaration declares nothing: rejected loudly ("no contracts specified"), never imported unchecked
                if res != 'RuntimeError': out.append((f'empty declaration deal.module_load() must be rejected with RuntimeError; import gave {res}', None)); break
                continue
            if any(c.startswith('unsupported') or c == 'crash' for c in cs):
                if res == 'ok' or res == plain and plain != 'ok':
                    out.append((f'unsupported declaration {cs} must be rejected loudly; import gave {res}', None)); break
                continue
            allow_out = all(c not in ('pure', 'has:', 'has:network') for c in cs)
            allow_sock = all(c not in ('pure', 'has:', 'has:stdout') for c in cs)
            if sum(1 for c in cs if c == 'pure' or c.startswith('has:')) > 1: tag = tag or 'stacked_has_replaces'
            restrict = any(c in ('pure', 'safe') for c in cs)
            want = 'ok'
            if beh == 'print' and not allow_out: want = 'SilentContractError'
            elif beh == 'socket' and not allow_sock: want = 'OfflineContractError'
            elif beh == 'raise': want = 'RaisesContractError' if restrict else 'ValueError'
            if res != want:
                out.append((f'module with declaration {cs} and behaviour {beh}: expected {want}, got {res}', tag)); break
    return out


def no_call_probe(fr):
    """scanning a declaration never calls a function of deal that is no contract: deal.module_load(deal.disable()) is rejected and the switch stays on"""
    acts = [['activate'], ['import', 'c20_nocall', "import deal\ndeal.module_load(deal.disable())\nc20_done = 1\n", 'module'], ['import', 'c20_after', "import deal\ndeal.module_load(deal.has())\nprint('x')\nc20_done = 1\n", 'module']]
    obs = impl.run_impl('c20_imports.py', [acts])[0]
    want = 'activate=1 active=1 enabled=1|import c20_nocall=RuntimeError registered=0 active=1 enabled=1|import c20_after=SilentContractError registered=0 active=1 enabled=1'
    fr.evaluations += 1; fr.add_nontrivial({'no-call-probe': 1})
    if obs != want:
        fr.violations.append({'scenario': {'actions': acts}, 'impl': obs, 'signature': None,
                              'what': f'a declaration naming a function of deal that is no contract must be rejected without calling it; observed {obs}; expected {want}'})


def reload_probe(fr):
    """the declaration that counts is the one in the source that is executed: a module imported once, its declaration then tightened /
    removed, imported afresh"""
    acts = [['activate'],
            ['import', 'c20_reload', "import deal\ndeal.module_load(deal.has('stdout'))\nprint('x')\nc20_done = 1\n", 'module'],
            ['reimport', 'c20_reload', "import deal\ndeal.module_load(deal.has())\nprint('x')\nc20_done = 1\n"],
            ['reimport', 'c20_reload', "print('x')\nc20_done = 1\n"],
            ['reimport', 'c20_reload', "raise ValueError('v')\n"]]
    obs = impl.run_impl('c20_imports.py', [acts])[0]
    want = ('activate=1 active=1 enabled=1|import c20_reload=ok registered=1 active=1 enabled=1|reimport c20_reload=SilentContractError registered=0 active=1 enabled=1|'
            'reimport c20_reload=ok registered=1 active=1 enabled=1|reimport c20_reload=ValueError registered=0 active=1 enabled=1')
    fr.evaluations += 1; fr.add_nontrivial({'reload-probe': 1})
    if obs != want:
        fr.violations.append({'scenario': {'actions': acts}, 'impl': obs, 'signature': None,
                              'what': f'a module imported again after its declaration was edited must run under the declaration its source has now; observed {obs}; expected {want}'})


def run(ctx, fr, model_available=True):
    no_call_probe(fr)
    reload_probe(fr)
    rnd = random.Random(ctx.seed * 3 + 20)
    cases = [gen_case(rnd, k) for k in range(1200 if ctx.tier == 'thorough' else 200)]
    res = impl.run_impl('c20_imports.py', [c[0] for c in cases])
    mo = None
    if model_available:
        text = ('From Coq Require Import List String.\nImport ListNotations.\nFrom Deal Require Import Base Show ImportModel.\nOpen Scope string_scope.\n'
                'Eval vm_compute in lines [\n ' + ';\n '.join(f'(show_imports {c[1]})' for c in cases) + '\n].\n')
        ok, outp = coq.eval_cases('C20', text)
        strs = coq.parse_strings(outp) if ok else []
        if len(strs) == 1: mo = strs[0].split('\n')
        else: fr.errors.append('C20 cases failed: ' + outp[-1500:])
    for i, ((acts, cq, metas), r) in enumerate(zip(cases, res)):
        fr.evaluations += 1
        if any(m and m['kind'] != 'none' for m in metas): fr.add_nontrivial(acts)
        for what, tag in monitor(acts, metas, r):
            fr.violations.append({'scenario': {'actions': acts}, 'impl': r, 'what': what, 'signature': tag})
        if mo is not None:
            fr.programs += 1; fr.traces_validated += 1
            if mo[i] != r: fr.disagreements.append({'scenario': {'actions': acts, 'coq': cq}, 'impl': r, 'model': mo[i]})
    fr.rule = RULE
    fr.samples.append({'actions': cases[0][0], 'impl': res[0]})
    fr.distribution = {'cases': len(cases)}


def search(ctx, fr, model_available=True):
    class C2: tier = 'thorough'; seed = ctx.seed + 1
    fr2 = type(fr)(); run(C2, fr2, model_available=False)
    fr.violations += fr2.violations; fr.evaluations += fr2.evaluations


def classify(v, findings):
    for f in findings:
        if f.get('status') == 'open' and f.get('signature') and f['signature'] == v.get('signature'): return f['id']
    return None
