"""C11 -- inherited contracts. Random class hierarchies (single, multiple, diamond) with contracted and uncontracted same-named methods,
inherit on the method or on the class, own contracts below inherit; the model (Sem/ClassModel.v + Py/Mro.v) predicts the registry of the
patched method; the monitor checks enforcement by calls, on the first and on later calls, and the binding of self."""
from __future__ import annotations
import random, json, sys
from ..harness import coq, impl, scn

pid = 'C11'
gen_modules = ['tr_pin_inherit', 'tr_pin_contracts', 'tr_contracts', 'tr_rest_decorators', 'tr_rest_contractsconst']
model_targets = ['Sem/ClassModel.v', 'Sem/ScnInherit.v', 'Thm/C11/HeapClosed.v']
hand_modelled = ['coq/Py/Mro.v (C3 linearisation, validated against CPython here)', 'coq/Sem/ClassModel.v: Inherit._patch on a class table (hand-written; source pinned)',
                 'coq/Sem/InheritHeap.v: Contracts.wrap, Inherit.wrap / __get__ / _patch on the heap of shared registries, patchers and class dictionaries (hand-written; source pinned; '
                 'compared with the Contracts objects of the implementation on every scenario)']
explanation = ('Heap-level theorems: no look-up changes the registry of a method that is not marked inherit, nor any registry outside the own registries of inherit-marked methods, nor the markers of an existing patcher (hypotheses decidable and evaluated on every scenario). Class-table theorem: the registry of a method marked inherit contains its own contracts and, for every class of the MRO owning a contracted same-named method, '
               'all of that method\'s contracts. Correspondence: registry reported by the real get_contracts vs the model on random hierarchies; monitor: enforcement by '
               'calls (first and second call), self binding.')
RULE = ('random hierarchies of 2-6 classes (single / multiple / diamond inheritance, consistent MROs only), each class defining the method m with probability 0.6, '
        'with 0-2 contracts and inherit on the method or the class; queries on every class; non-trivial = some inherit-marked method has a contracted ancestor')


def gen_case(rnd):
    n = rnd.randint(2, 6)
    names = [chr(65 + i) for i in range(n)]
    classes, cid = [], 0
    import itertools
    for i, nm in enumerate(names):
        k = rnd.choice([0, 1, 1, 2]) if i else 0
        bases = rnd.sample(names[:i], min(k, i)) if i else []
        # keep only consistent hierarchies: let CPython decide
        env = {}
        ok = True
        try:
            for c in classes: env[c['name']] = type(c['name'], tuple(env[b] for b in c['bases']), {})
            type(nm, tuple(env[b] for b in bases), {})
        except TypeError:
            bases = bases[:1]
        methods = []
        if rnd.random() < .65:
            cs = []
            for _ in range(rnd.choice([0, 1, 1, 2])):
                cid += 1; cs.append(cid)
            methods.append(['m', {'contracts': cs, 'inherit': bool(bases) and rnd.random() < .6}])
        classes.append({'name': nm, 'bases': bases, 'methods': methods, 'inherit_class': bool(bases) and rnd.random() < .2})      # @deal.inherit on the class: every method it can see
    queries = [[c['name'], 'm'] for c in classes if any(True for _ in [1])]
    # every contract is a precondition, a post / ensure contract or a raises contract (get_contracts lists them in that order)
    kinds = {str(i): rnd.choice(['pre', 'pre', 'pre', 'raises', 'raises', 'post', 'ensure']) for i in range(1, cid + 1)}
    return {'classes': classes, 'queries': queries, 'kinds': kinds, 'first_disabled': rnd.random() < .3, 'falsy': rnd.random() < .25, 'gen_methods': rnd.random() < .2}


def q(s): return '"' + s + '"'


def coq_case(case):
    cl = '; '.join('{| c_cname := %s; c_bases := [%s]; c_methods := [%s] |}' % (
        q(c['name']), '; '.join(q(b) for b in c['bases']),
        '; '.join('(%s, {| m_contracts := [%s]; m_inherit := %s |})' % (q(m), '; '.join(f'{x}%nat' for x in md['contracts']), 'true' if md['inherit'] else 'false')
                  for m, md in c['methods'])) for c in case['classes'])
    qs = '; '.join(f'({q(a)}, {q(b)})' for a, b in case['queries'])
    return f'(lines (map (show_enforced [{cl}]) [{qs}]))'


def resolves(case, cname):
    """does getattr(cls, 'm') exist (by Python's own MRO)"""
    env = {}
    for c in case['classes']:
        env[c['name']] = type(c['name'], tuple(env[b] for b in c['bases']), {m: 1 for m, _ in c['methods']})
    return hasattr(env[cname], 'm'), env


def monitor(case, res):
    out = []
    import copy
    defs = {c['name']: copy.deepcopy(c) for c in case['classes']}
    # @deal.inherit on a class marks every method the class can see (its own and the ones it gets from its bases): the class then
    # owns an inherit-marked method whose function is the one the name resolved to
    env0 = resolves(case, case['classes'][0]['name'])[1]
    for c in case['classes']:
        if not c.get('inherit_class'): continue
        d = defs[c['name']]
        own = dict(d['methods'])
        if 'm' in own:
            own['m']['inherit'] = True
        else:
            mro0 = [k.__name__ for k in env0[c['name']].__mro__ if k is not object]
            o2 = next((k for k in mro0 if any(m == 'm' for m, _ in defs[k]['methods'])), None)
            if o2 is not None:
                d['methods'].append(['m', {'contracts': list(dict(defs[o2]['methods'])['m']['contracts']), 'inherit': True}])
    for (cname, mname), r in zip(case['queries'], res):
        has, env = resolves(case, cname)
        if not has: continue
        mro = [k.__name__ for k in env[cname].__mro__ if k is not object]
        owner = next(k for k in mro if any(m == mname for m, _ in defs[k]['methods']))
        md = dict(defs[owner]['methods'])[mname]
        want = set(md['contracts'])
        if md['inherit']:
            omro = [k.__name__ for k in env[owner].__mro__ if k is not object]
            def collect(k, seen):
                # contracts of the same-named method visible from k (its own definition or the one it inherits), transitively
                km = [x.__name__ for x in env[k].__mro__ if x is not object]
                o2 = next((x for x in km if any(m == mname for m, _ in defs[x]['methods'])), None)
                if o2 is None: return set()
                m2 = dict(defs[o2]['methods'])[mname]
                s = set(m2['contracts'])
                if m2['inherit'] and o2 not in seen:
                    for b in [x.__name__ for x in env[o2].__mro__ if x is not object][1:]:
                        s |= collect(b, seen | {o2})
                return s
            for b in omro[1:]: want |= collect(b, {owner})
        for which in ('enforced_first', 'enforced_second'):
            got = set(r[which])
            if got != want:
                out.append(f'{cname}.{mname}: {which.replace("_", " on the ")} call the contracts enforced are {sorted(got)}; own + every contracted ancestor in the MRO = {sorted(want)}')
                break
        for which in ('self_first', 'self_second'):
            if r[which] not in (['instance'], []):
                out.append(f'{cname}.{mname}: the body sees self as {r[which]} ({which})'); break
    return out


def run(ctx, fr, model_available=True):
    rnd = random.Random(ctx.seed * 11 + 5)
    import glob, os
    corp = [json.load(open(f)) for f in sorted(glob.glob(os.path.join(coq.VERIF, 'corpus', 'C11', '*.json')))]
    cases = corp + [gen_case(rnd) for _ in range(1500 if ctx.tier == 'thorough' else 250)]
    res = impl.run_impl('c11_classes.py', cases)
    mo = None
    if model_available:
        text = ('From Coq Require Import List String.\nImport ListNotations.\nFrom Deal Require Import Base Show Mro ClassModel.\nOpen Scope string_scope.\n'
                'Eval vm_compute in lines [\n ' + ';\n '.join(coq_case(c) for c in cases) + '\n].\n')
        ok, outp = coq.eval_cases('C11', text)
        strs = coq.parse_strings(outp) if ok else []
        if len(strs) == 1: mo = strs[0].split('\n')
        else: fr.errors.append('C11 cases failed: ' + outp[-1500:])
    pos = 0
    for case, r in zip(cases, res):
        fr.evaluations += 1
        if any(md['inherit'] for c in case['classes'] for _, md in c['methods']): fr.add_nontrivial(case)
        for what in monitor(case, r):
            fr.violations.append({'scenario': case, 'impl': r, 'what': what, 'signature': None})
        if mo is not None:
            fr.programs += 1; fr.traces_validated += 1
            has_any = [resolves(case, q_[0])[0] for q_ in case['queries']]
            for (cn, mn), rr, h in zip(case['queries'], r, has_any):
                ml = mo[pos]; pos += 1
                # the model lists the registry in application order; get_contracts groups by kind: preconditions, then raises
                head, _, tail = ml.partition('=')
                ids_s, _, mro_s = tail.partition(' mro=')
                ids = [x for x in ids_s.split(',') if x]
                kd = case.get('kinds', {})
                ids = [x for k in ('pre', 'post', 'ensure', 'raises') for x in ids if kd.get(x, 'pre') == k]
                ml = head + '=' + ','.join(ids) + ' mro=' + mro_s
                il = rr['line']
                # the MRO printed by CPython ends with object, as the model's
                if h and ml != il and not any(c.get('inherit_class') for c in case['classes']):      # class-level inherit: monitor only
                    fr.disagreements.append({'scenario': case, 'impl': il, 'model': ml}); break
    fr.rule = RULE
    fr.samples.append({'case': cases[0], 'impl': res[0]})
    fr.distribution = {'hierarchies': len(cases)}


def gen_heap_case(rnd):
    """class statements with shared contract / has decorator objects, inherit on methods and classes; queries in random order, then every class again"""
    n = rnd.randint(2, 6)
    names = [chr(65 + i) for i in range(n)]
    ncid = rnd.randint(1, 5)
    kinds = {str(i): rnd.choice(['pre', 'pre', 'post', 'ensure', 'raises']) for i in range(1, ncid + 1)}
    patchers = {str(p): sorted(rnd.sample(['stdout', 'stderr', 'network'], rnd.randint(0, 2))) for p in range(1, rnd.randint(1, 3) + 1)}
    classes = []
    for i, nm in enumerate(names):
        k = rnd.choice([0, 1, 1, 2]) if i else 0
        bases = rnd.sample(names[:i], min(k, i)) if i else []
        env = {}
        try:
            for c in classes: env[c['name']] = type(c['name'], tuple(env[b] for b in c['bases']), {})
            type(nm, tuple(env[b] for b in bases), {})
        except TypeError:
            bases = bases[:1]
        method = None
        if rnd.random() < .65:
            steps = []
            for _ in range(rnd.choice([0, 1, 1, 2, 3])):
                steps.append(['has', int(rnd.choice(sorted(patchers)))] if rnd.random() < .35 else ['val', int(rnd.choice(sorted(kinds)))])
            method = {'steps': steps, 'inherit': rnd.random() < (.6 if bases else .1)}
        classes.append({'name': nm, 'bases': bases, 'method': method, 'inherit_class': rnd.random() < (.3 if bases else .05)})
    qs = names[:]; rnd.shuffle(qs)
    return {'patchers': patchers, 'kinds': kinds, 'classes': classes, 'queries': qs + names}


CK = {'pre': 'KPre', 'post': 'KPost', 'ensure': 'KEnsure', 'raises': 'KRaises'}
def coq_heap_case(case):
    def step(st): return f'SVal {CK[case["kinds"][str(st[1])]]} {st[1]}' if st[0] == 'val' else f'SHas {st[1]}'
    def meth(m):
        if m is None: return 'None'
        return 'Some {| ms_steps := [%s]; ms_inherit := %s |}' % ('; '.join(step(s) for s in m['steps']), 'true' if m['inherit'] else 'false')
    cl = '; '.join('{| cs_name := %s; cs_bases := [%s]; cs_method := %s; cs_inherit := %s |}' % (
        q(c['name']), '; '.join(q(b) for b in c['bases']), meth(c['method']), 'true' if c['inherit_class'] else 'false') for c in case['classes'])
    ps = '; '.join('(%s, [%s])' % (p, '; '.join(q(m) for m in ms)) for p, ms in sorted(case['patchers'].items()))
    return f'((if run_case_wf [{ps}] [{cl}] then "WF " else "NOTWF ") ++ run_case [{ps}] [{cl}] [{"; ".join(q(x) for x in case["queries"])}])'


def heap_monitor(case, line):
    """independent of the model: (1) answers are stable: the second answer for a class equals its first answer (nothing that happens later changes what
    is in force on it); (2) a method that is not marked inherit (and whose class is not) has exactly the contracts written on it."""
    out = []
    if line.startswith('ERROR'): return ['implementation raised: ' + line]
    ans = [x.split('=', 1) for x in line.split('|')]
    first = {}
    for cn, a in ans:
        if cn in first and first[cn] != a:
            out.append(f'{cn}: what is in force changed from {first[cn]!r} to {a!r} although nothing was decorated in between')
        first.setdefault(cn, a)
    defs = {c['name']: c for c in case['classes']}
    for c in case['classes']:
        m = c['method']
        if m is None or m['inherit'] or c['inherit_class']: continue
        want = {k: [] for k in ('pre', 'post', 'ensure', 'raises')}
        hasp = None
        for st in m['steps']:
            if st[0] == 'val': want[case['kinds'][str(st[1])]].append(str(st[1]))
            else: hasp = st[1]
        w = ';'.join(f'{k}:' + ','.join(want[k]) for k in ('pre', 'post', 'ensure', 'raises')) + ';has:' + ('-' if hasp is None else ','.join(sorted(case['patchers'][str(hasp)])))
        if first.get(c['name']) != w:
            out.append(f'{c["name"]}.m is not marked inherit: in force {first.get(c["name"])!r}, written on it {w!r}')
    return out


def run_heap(ctx, fr, model_available):
    rnd = random.Random(ctx.seed * 13 + 7)
    import glob, os
    corp = [json.load(open(f)) for f in sorted(glob.glob(os.path.join(coq.VERIF, 'corpus', 'C11', 'heap-*.json')))]
    cases = corp + [gen_heap_case(rnd) for _ in range(1500 if ctx.tier == 'thorough' else 300)]
    res = impl.run_impl('c11_heap.py', cases)
    mo = None
    if model_available:
        text = ('From Coq Require Import List String.\nImport ListNotations.\nFrom Deal Require Import Base Show Mro Interp ObjModel InheritHeap ScnInherit HeapCheck HeapClosed.\nOpen Scope string_scope.\n'
                'Eval vm_compute in lines [\n ' + ';\n '.join(coq_heap_case(c) for c in cases) + '\n].\n')
        ok, outp = coq.eval_cases('C11heap', text)
        strs = coq.parse_strings(outp) if ok else []
        if len(strs) == 1 and len(strs[0].split('\n')) == len(cases): mo = strs[0].split('\n')
        else: fr.errors.append('C11 heap cases failed: ' + outp[-1500:])
    wf_ok = 0
    for i, (case, r) in enumerate(zip(cases, res)):
        fr.evaluations += 1
        if any(c['inherit_class'] or (c['method'] and c['method']['inherit']) for c in case['classes']): fr.add_nontrivial(case)
        for what in heap_monitor(case, r):
            fr.violations.append({'scenario': dict(case, family='heap'), 'impl': r, 'what': what, 'signature': None})
        if mo is not None:
            fr.programs += 1; fr.traces_validated += 1
            wf, _, ml = mo[i].partition(' ')
            if wf != 'WF':
                fr.disagreements.append({'scenario': dict(case, family='heap'), 'impl': r, 'model': mo[i],
                                         'note': 'a world built by this scenario does not satisfy the hypotheses (wwf / hier_ok) of the frame theorems of Props/C11.v'})
            elif ml != r: fr.disagreements.append({'scenario': dict(case, family='heap'), 'impl': r, 'model': ml})
            else: wf_ok += 1
    fr.distribution['heap_scenarios'] = len(cases); fr.distribution['heap_scenarios_meeting_theorem_hypotheses'] = wf_ok
    fr.samples.append({'family': 'heap', 'case': cases[-1], 'impl': res[-1]})


HAS_SRC = r"""
import deal, random, socket, sys, io
__name__ = "c11_has_probe"
EFFECTS = ["print", "stderr", "socket"]
def allowed(markers, e):
    if "io" in markers: return True
    return {"print": bool({"print", "stdout"} & set(markers)), "stderr": "stderr" in markers, "socket": bool({"network", "socket"} & set(markers))}[e]
def do(e):
    if e == "print": print("", end="")
    elif e == "stderr": sys.stderr.write("")
    else: socket.socket().close()
def verdicts(call):
    out = []
    for e in EFFECTS:
        try: call(e); out.append(True)
        except deal.MarkerError: out.append(False)
        except BaseException as x: out.append(type(x).__name__)
    return out

def probe(seed):
    rnd = random.Random(seed)
    bad = []
    for _ in range(60):
        pool = [rnd.sample(["stdout", "stderr", "network"], rnd.randint(0, 2)) for _ in range(3)]
        decos = [deal.has(*m) for m in pool]                       # decorator objects, shared between methods and plain functions
        n = rnd.randint(2, 4)
        classes, spec = [], []
        plain = []
        for j, d in enumerate(decos):
            @d
            def g(e): do(e)
            plain.append((g, pool[j]))
        for i in range(n):
            bases = tuple(rnd.sample(classes, min(len(classes), rnd.choice([0, 1, 1, 2])))) if classes else ()
            body, own, marked = {}, None, False
            if rnd.random() < .75 or not bases:
                def m(self, e): do(e)
                if rnd.random() < .7:
                    own = rnd.randrange(3); m = decos[own](m)
                marked = bool(bases) and rnd.random() < .6
                body["m"] = deal.inherit(m) if marked else m
            try: cls = type("K%d" % i, bases, body)
            except TypeError: continue
            cls_level = bool(bases) and rnd.random() < .25
            if cls_level: cls = deal.inherit(cls)
            classes.append(cls); spec.append({"own": own, "marked": marked or cls_level, "defines": "m" in body})
        def table(k):
            return [allowed(pool[k], e) for e in EFFECTS]
        def snapshot():
            snap = {}
            for (g, mk), k in zip(plain, range(3)): snap["g%d" % k] = verdicts(g)
            for cls, sp in zip(classes, spec):
                if hasattr(cls, "m"): snap[cls.__name__] = verdicts(lambda e: cls().m(e))
            return snap
        order = list(range(len(classes))); rnd.shuffle(order)
        # touch the classes in a random order, then look at everything twice
        for i in order:
            if hasattr(classes[i], "m"):
                try: classes[i]().m("none")
                except BaseException: pass
        s1 = snapshot(); s2 = snapshot()
        desc = {"markers": pool, "classes": [[c.__name__, [b.__name__ for b in c.__bases__ if b is not object], sp] for c, sp in zip(classes, spec)]}
        if s1 != s2: bad.append(["unstable", desc, s1, s2]); continue
        for k in range(3):
            if s1["g%d" % k] != table(k): bad.append(["plain function sharing a has() object changed", desc, "g%d" % k, s1["g%d" % k], table(k)])
        for cls, sp in zip(classes, spec):
            if not hasattr(cls, "m"): continue
            # the method this class resolves to and every contracted same-named method of its MRO
            owner = next(c for c in cls.__mro__ if "m" in vars(c))
            osp = spec[classes.index(owner)]
            got = s1[cls.__name__]
            own_t = table(osp["own"]) if osp["own"] is not None else [True, True, True]
            if not osp["marked"] and not spec[classes.index(cls)]["marked"]:
                if got != own_t: bad.append(["method not marked inherit changed", desc, cls.__name__, got, own_t])
                continue
            want, union = list(own_t), (list(own_t) if osp["own"] is not None else [False, False, False])
            anc = [spec[classes.index(c)]["own"] for c in cls.__mro__[1:] if c is not object and "m" in vars(c)]
            anc = [a for a in anc if a is not None]
            for a in anc:
                want = [x and y for x, y in zip(want, table(a))]
                union = [x or y for x, y in zip(union, table(a))]
            if osp["own"] is None and not anc: union = [True, True, True]
            if got != want:
                bad.append(["inherit-marked method", desc, cls.__name__, got, want, "union" if got == union else "other"])
    return bad
"""


def has_probe(ctx, fr):
    r = impl.run_impl('pyexec.py', {'src': HAS_SRC, 'calls': [['probe', [ctx.seed]]]})[0]
    fr.evaluations += 60; fr.add_nontrivial({'has_probe': ctx.seed})
    if isinstance(r, dict):
        fr.errors.append('C11 has probe failed: ' + str(r)[:600]); return
    fr.samples.append({'family': 'inherited has() probe', 'deviations': len(r), 'first': r[:1]})
    for b in r:
        tag = 'has_merged_by_union' if b[0] == 'inherit-marked method' and b[-1] == 'union' else None
        fr.violations.append({'scenario': {'family': 'has-probe', 'seed': ctx.seed, 'case': b[1]}, 'impl': b[2:], 'signature': tag,
                              'what': f'{b[0]}: {b[2:]} ([print, stderr, socket] allowed: observed, expected) in {json.dumps(b[1])[:400]}'})


_run0 = run
def run(ctx, fr, model_available=True):
    _run0(ctx, fr, model_available)
    run_heap(ctx, fr, model_available)
    has_probe(ctx, fr)


def search(ctx, fr, model_available=True):
    class C2: tier = 'thorough'; seed = ctx.seed + 1
    fr2 = type(fr)(); run(C2, fr2, model_available=False)
    fr.violations += fr2.violations; fr.evaluations += fr2.evaluations


from . import base_scn
classify = base_scn.classify
