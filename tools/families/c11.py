"""C11 -- inherited contracts. Random class hierarchies (single, multiple, diamond) with contracted and uncontracted same-named methods,
inherit on the method or on the class, own contracts below inherit; the model (Sem/ClassModel.v + Py/Mro.v) predicts the registry of the
patched method; the monitor checks enforcement by calls, on the first and on later calls, and the binding of self."""
from __future__ import annotations
import random, json, sys
from ..harness import coq, impl, scn

pid = 'C11'
gen_modules = ['tr_pin_inherit', 'tr_pin_contracts', 'tr_contracts', 'tr_rest_decorators', 'tr_rest_contractsconst']
model_targets = ['Sem/ClassModel.v']
hand_modelled = ['coq/Py/Mro.v (C3 linearisation, validated against CPython here)', 'coq/Sem/ClassModel.v: Inherit._patch on a class table (hand-written; source pinned)']
explanation = ('Theorem: the registry of a method marked inherit contains its own contracts and, for every class of the MRO owning a contracted same-named method, '
               'all of that method\'s contracts. Correspondence: registry reported by the real get_contracts vs the model on random hierarchies; monitor: enforcement by '
               'calls (first and second call), self binding.')
RULE = ('random hierarchies of 2-6 classes (single / multiple / diamond inheritance, consistent MROs only), each class defining the method m with probability 0.6, '
        'with 0-2 contracts and inherit on the method or the class; queries on every class; non-trivial = some inherit-marked method has a contracted ancestor')


def gen_case(rnd):
    n = rnd.randint(2, 6)
    names = [chr(65 + i) for i in range(n)]
    classes, cid = [], 0
    import itertools
    for i, nm in enumerate(names):
        k = rnd.choice([0, 1, 1, 2]) if i else 0
        bases = rnd.sample(names[:i], min(k, i)) if i else []
        # keep only consistent hierarchies: let CPython decide
        env = {}
        ok = True
        try:
            for c in classes: env[c['name']] = type(c['name'], tuple(env[b] for b in c['bases']), {})
            type(nm, tuple(env[b] for b in bases), {})
        except TypeError:
            bases = bases[:1]
        methods = []
        if rnd.random() < .65:
            cs = []
            for _ in range(rnd.choice([0, 1, 1, 2])):
                cid += 1; cs.append(cid)
            methods.append(['m', {'contracts': cs, 'inherit': bool(bases) and rnd.random() < .6}])
        classes.append({'name': nm, 'bases': bases, 'methods': methods, 'inherit_class': bool(bases) and rnd.random() < .2})      # @deal.inherit on the class: every method it can see
    queries = [[c['name'], 'm'] for c in classes if any(True for _ in [1])]
    # every contract is a precondition, a post / ensure contract or a raises contract (get_contracts lists them in that order)
    kinds = {str(i): rnd.choice(['pre', 'pre', 'pre', 'raises', 'raises', 'post', 'ensure']) for i in range(1, cid + 1)}
    return {'classes': classes, 'queries': queries, 'kinds': kinds, 'first_disabled': rnd.random() < .3}


def q(s): return '"' + s + '"'


def coq_case(case):
    cl = '; '.join('{| c_cname := %s; c_bases := [%s]; c_methods := [%s] |}' % (
        q(c['name']), '; '.join(q(b) for b in c['bases']),
        '; '.join('(%s, {| m_contracts := [%s]; m_inherit := %s |})' % (q(m), '; '.join(f'{x}%nat' for x in md['contracts']), 'true' if md['inherit'] else 'false')
                  for m, md in c['methods'])) for c in case['classes'])
    qs = '; '.join(f'({q(a)}, {q(b)})' for a, b in case['queries'])
    return f'(lines (map (show_enforced [{cl}]) [{qs}]))'


def resolves(case, cname):
    """does getattr(cls, 'm') exist (by Python's own MRO)"""
    env = {}
    for c in case['classes']:
        env[c['name']] = type(c['name'], tuple(env[b] for b in c['bases']), {m: 1 for m, _ in c['methods']})
    return hasattr(env[cname], 'm'), env


def monitor(case, res):
    out = []
    import copy
    defs = {c['name']: copy.deepcopy(c) for c in case['classes']}
    # @deal.inherit on a class marks every method the class can see (its own and the ones it gets from its bases): the class then
    # owns an inherit-marked method whose function is the one the name resolved to
    env0 = resolves(case, case['classes'][0]['name'])[1]
    for c in case['classes']:
        if not c.get('inherit_class'): continue
        d = defs[c['name']]
        own = dict(d['methods'])
        if 'm' in own:
            own['m']['inherit'] = True
        else:
            mro0 = [k.__name__ for k in env0[c['name']].__mro__ if k is not object]
            o2 = next((k for k in mro0 if any(m == 'm' for m, _ in defs[k]['methods'])), None)
            if o2 is not None:
                d['methods'].append(['m', {'contracts': list(dict(defs[o2]['methods'])['m']['contracts']), 'inherit': True}])
    for (cname, mname), r in zip(case['queries'], res):
        has, env = resolves(case, cname)
        if not has: continue
        mro = [k.__name__ for k in env[cname].__mro__ if k is not object]
        owner = next(k for k in mro if any(m == mname for m, _ in defs[k]['methods']))
        md = dict(defs[owner]['methods'])[mname]
        want = set(md['contracts'])
        if md['inherit']:
            omro = [k.__name__ for k in env[owner].__mro__ if k is not object]
            def collect(k, seen):
                # contracts of the same-named method visible from k (its own definition or the one it inherits), transitively
                km = [x.__name__ for x in env[k].__mro__ if x is not object]
                o2 = next((x for x in km if any(m == mname for m, _ in defs[x]['methods'])), None)
                if o2 is None: return set()
                m2 = dict(defs[o2]['methods'])[mname]
                s = set(m2['contracts'])
                if m2['inherit'] and o2 not in seen:
                    for b in [x.__name__ for x in env[o2].__mro__ if x is not object][1:]:
                        s |= collect(b, seen | {o2})
                return s
            for b in omro[1:]: want |= collect(b, {owner})
        for which in ('enforced_first', 'enforced_second'):
            got = set(r[which])
            if got != want:
                out.append(f'{cname}.{mname}: {which.replace("_", " on the ")} call the contracts enforced are {sorted(got)}; own + every contracted ancestor in the MRO = {sorted(want)}')
                break
        for which in ('self_first', 'self_second'):
            if r[which] not in (['instance'], []):
                out.append(f'{cname}.{mname}: the body sees self as {r[which]} ({which})'); break
    return out


def run(ctx, fr, model_available=True):
    rnd = random.Random(ctx.seed * 11 + 5)
    import glob, os
    corp = [json.load(open(f)) for f in sorted(glob.glob(os.path.join(coq.VERIF, 'corpus', 'C11', '*.json')))]
    cases = corp + [gen_case(rnd) for _ in range(1500 if ctx.tier == 'thorough' else 250)]
    res = impl.run_impl('c11_classes.py', cases)
    mo = None
    if model_available:
        text = ('From Coq Require Import List String.\nImport ListNotations.\nFrom Deal Require Import Base Show Mro ClassModel.\nOpen Scope string_scope.\n'
                'Eval vm_compute in lines [\n ' + ';\n '.join(coq_case(c) for c in cases) + '\n].\n')
        ok, outp = coq.eval_cases('C11', text)
        strs = coq.parse_strings(outp) if ok else []
        if len(strs) == 1: mo = strs[0].split('\n')
        else: fr.errors.append('C11 cases failed: ' + outp[-1500:])
    pos = 0
    for case, r in zip(cases, res):
        fr.evaluations += 1
        if any(md['inherit'] for c in case['classes'] for _, md in c['methods']): fr.add_nontrivial(case)
        for what in monitor(case, r):
            fr.violations.append({'scenario': case, 'impl': r, 'what': what, 'signature': None})
        if mo is not None:
            fr.programs += 1; fr.traces_validated += 1
            has_any = [resolves(case, q_[0])[0] for q_ in case['queries']]
            for (cn, mn), rr, h in zip(case['queries'], r, has_any):
                ml = mo[pos]; pos += 1
                # the model lists the registry in application order; get_contracts groups by kind: preconditions, then raises
                head, _, tail = ml.partition('=')
                ids_s, _, mro_s = tail.partition(' mro=')
                ids = [x for x in ids_s.split(',') if x]
                kd = case.get('kinds', {})
                ids = [x for k in ('pre', 'post', 'ensure', 'raises') for x in ids if kd.get(x, 'pre') == k]
                ml = head + '=' + ','.join(ids) + ' mro=' + mro_s
                il = rr['line']
                # the MRO printed by CPython ends with object, as the model's
                if h and ml != il and not any(c.get('inherit_class') for c in case['classes']):      # class-level inherit: monitor only
                    fr.disagreements.append({'scenario': case, 'impl': il, 'model': ml}); break
    fr.rule = RULE
    fr.samples.append({'case': cases[0], 'impl': res[0]})
    fr.distribution = {'hierarchies': len(cases)}


def search(ctx, fr, model_available=True):
    class C2: tier = 'thorough'; seed = ctx.seed + 1
    fr2 = type(fr)(); run(C2, fr2, model_available=False)
    fr.violations += fr2.violations; fr.evaluations += fr2.evaluations


def classify(v, findings): return None
