"""C14 -- introspection reports exactly the contracts that are enforced. Composition scenarios with introspection queries;
record.validate vs runtime, init_all idempotence on the implementation."""
from __future__ import annotations
import random, json, sys
from collections import Counter
from ..harness import scn, gen, obs as O, pyeval, impl
from . import base_scn, compose

pid = 'C14'
gen_modules = ['tr_state', 'tr_validators', 'tr_has_patcher', 'tr_contracts', 'tr_decorators', 'tr_pin_contracts', 'tr_attach', 'tr_extractor', 'tr_pin_introspect', 'tr_rest_validators', 'tr_rest_patcher', 'tr_rest_state', 'tr_rest_contractsconst', 'tr_rest_records', 'tr_pin_invariant', 'tr_invariant']
model_targets = ['Sem/ScnObj.v']
hand_modelled = ['coq/Sem/ObjModel.v: get_contracts / unwrap over the heap of function objects (specification; proved equal to the statements regenerated '
                 'into Gen/Extractor.v, Thm/C14/ExtractRefine.v; instruction semantics coq/Sem/ExtractCode.v hand-written)',
                 'record.validate / init_all: checked on the implementation only']
explanation = ('Theorems on the object-graph model: get_contracts yields exactly one record per applied contract, unwrap returns the original, a registry is reported '
               'once. Correspondence + monitor over random compositions with introspection queries; validate/init_all probes on the implementation.')
N_QUICK, N_THOROUGH = 400, 3000
RULE = ('composition scenarios (see C09) with the queries get_contracts / unwrap on every function, compared model vs implementation and against the multiset of '
        'applied contracts; plus record.validate == runtime verdict and init_all idempotence on generated stacks; non-trivial = a function carries >= 2 contracts')


def make(rnd, k): return compose.make(rnd, k, foreign=.6, share=.3)


def monitor(sc, obs):
    parts = obs.split('|Q ')
    if len(parts) < 2 or obs.startswith('<'):
        return [('harness/observation error: ' + str(obs)[:200], None)]
    cs = {cid: it for cid, it in sc['contracts']}
    funs = {f['name']: f for f in sc['funs']}
    out = []
    for q in parts[1:]:
        kind, name, *rest = q.split(' ')
        ans = rest[0] if rest else ''
        f = funs[name]
        app, foreigns, nl = compose.applied(f)
        tag = None
        if any(k == 'plain' for k, t, l in foreigns): tag = 'plain_foreign_hides_contracts'
        if kind == 'contracts':
            got = Counter(x for x in ans.split(',') if x)
            # has(): the last one of each registry is in force
            want = Counter()
            layers = {}
            for cid, l in app:
                k = cs[cid][0]
                if k == 'has': layers[l] = cid
                else: want[f'{k}:{cid}'] += 1
            for l, cid in layers.items(): want[f'has:{cid}'] += 1
            t = tag
            if len([c for c, l in app if cs[c][0] == 'has']) > len(layers): t = t or 'stacked_has_replaces'
            if got != want:
                out.append((f'get_contracts({name}) = {dict(got)}; contracts in force: {dict(want)}', t))
        else:
            t = tag or ('unwrap_stops_at_foreign' if foreigns and any(l < nl or True for _, _, l in foreigns) and len(app) and max(l for _, l in app) > min(l for _, _, l in foreigns) else None)
            if ans != name:
                out.append((f'unwrap({name}) returned {ans!r}, not the original function', t))
    return out


def nontrivial(sc, obs):
    return any(len(compose.applied(f)[0]) >= 2 for f in sc['funs'])


def features(sc, obs):
    return ['foreign' if any(b[0] in ('wraps', 'plain') for f in sc['funs'] for b in f['build']) else 'no-foreign']


VALIDATE_SRC = '''
import deal, random
import deal.introspection as di
def probe(seed):
    rnd = random.Random(seed)
    bad = []
    for _ in range(60):
        lo, hi, m = rnd.randint(-2, 2), rnd.randint(0, 4), rnd.choice([None, "msg"])
        @deal.pre(lambda x: x > lo, message=m)
        @deal.pre(lambda _: _.x != hi)
        @deal.post(lambda r: r < 3)
        @deal.ensure(lambda _: _.result >= _.x)
        def f(x): return x
        recs = list(di.get_contracts(f))
        if rnd.random() < .5:
            di.init_all(f); di.init_all(f)
        for x in range(-3, 6):
            # runtime verdict
            try: f(x); rt = "ok"
            except deal.PreContractError: rt = "pre"
            except deal.PostContractError: rt = "post"
            # the same through the records
            via = "ok"
            for r in recs:
                try:
                    if isinstance(r, di.Pre): r.validate(x)
                    elif isinstance(r, di.Post): r.validate(x)
                    elif isinstance(r, di.Ensure): r.validate(x, result=x)
                except deal.PreContractError:
                    via = "pre"; break
                except deal.PostContractError:
                    via = "post"; break
            if via != rt: bad.append([lo, hi, x, rt, via])
    # a record reports what was declared: the exception classes of raises (in order), the markers of has, the event of reason
    for decl in [(LookupError, KeyError), (OSError, FileNotFoundError, ValueError), (KeyError,), (ArithmeticError, ZeroDivisionError), ()]:
        @deal.raises(*decl)
        @deal.has("stdout", "custom")
        @deal.reason(ValueError, lambda x: True)
        def h(x): return x
        recs = list(di.get_contracts(h))
        ra = [r for r in recs if isinstance(r, di.Raises)]; ha = [r for r in recs if isinstance(r, di.Has)]; re_ = [r for r in recs if isinstance(r, di.Reason)]
        if len(ra) != 1 or tuple(ra[0].exceptions) != tuple(decl):
            bad.append(["raises record", [c.__name__ for c in decl], [c.__name__ for c in ra[0].exceptions] if ra else None])
        if len(ha) != 1 or set(ha[0].markers) != {"stdout", "custom"}: bad.append(["has record", sorted(ha[0].markers) if ha else None])
        if len(re_) != 1 or re_[0].event is not ValueError: bad.append(["reason record", repr(getattr(re_[0], "event", None)) if re_ else None])
    # a record reports the exception that is raised and the configured message, however they were given (class / instance, with / without message)
    class Negative(Exception): pass
    for exc in (None, ValueError, Negative, ValueError("text"), Negative("neg"), Negative()):
        for msg in (None, "msg", ""):
            kw = {}
            if exc is not None: kw["exception"] = exc
            if msg is not None: kw["message"] = msg
            @deal.pre(lambda x: x > 0, **kw)
            def p(x): return x
            @deal.post(lambda r: r > 0, **kw)
            def q(x): return x
            @deal.ensure(lambda x, result: result > 0, **kw)
            def e(x): return x
            for fn in (p, q, e):
                rec = list(di.get_contracts(fn))[0]
                try: fn(-1); raised = None
                except BaseException as err: raised = err
                et = rec.exception_type
                if not isinstance(et, type) or type(raised) is not et:
                    bad.append(["record.exception_type", fn.__name__, repr(exc), repr(msg), repr(et), type(raised).__name__])
                if rec.message != msg and not (msg == "" and rec.message in (None, "")):
                    bad.append(["record.message", fn.__name__, repr(exc), repr(msg), repr(rec.message)])
    # enumerating is a pure read: contracts added after an enumeration are reported by the next one
    def kinds(fn): return sorted(type(r).__name__ for r in di.get_contracts(fn))
    @deal.post(lambda r: r > 0)
    def dbl(x): return x * 2
    first = kinds(dbl); di.init_all(dbl)
    dbl2 = deal.pre(lambda x: x != 13)(dbl)
    if kinds(dbl2) != sorted(first + ["Pre"]): bad.append(["records after adding a contract", first, kinds(dbl2)])
    @deal.has("stdout")
    def greet(): return 1
    m1 = [tuple(sorted(r.markers)) for r in di.get_contracts(greet) if isinstance(r, di.Has)]
    greet2 = deal.has()(greet)
    m2 = [tuple(sorted(r.markers)) for r in di.get_contracts(greet2) if isinstance(r, di.Has)]
    if m1 != [("stdout",)] or m2 != [()]: bad.append(["has record after re-decoration", m1, m2])
    # a contracted method of an invariant class, reached through the instance (the callable that is actually called)
    @deal.inv(lambda obj: obj.balance >= 0)
    class Account:
        def __init__(self): self.balance = 10
        @deal.pre(lambda self, amount: amount > 0)
        @deal.raises(ValueError)
        @deal.has()
        def withdraw(self, amount): self.balance -= amount; return self.balance
    acc = Account()
    names_i = sorted(type(r).__name__ for r in di.get_contracts(acc.withdraw))
    names_c = sorted(type(r).__name__ for r in di.get_contracts(Account.withdraw))
    if names_i != ["Has", "Pre", "Raises"] or names_c != names_i: bad.append(["records of a method of an invariant class", names_i, names_c])
    # validating through a record is a read of the switch, not a write: disabled stays disabled
    from deal._state import state as _state
    deal.disable()
    try:
        for r in di.get_contracts(acc.withdraw):
            if isinstance(r, di.Pre):
                try: r.validate(acc, 5)
                except BaseException: pass
        if _state.debug is not False: bad.append(["record.validate switched contracts on", _state.debug])
    finally:
        deal.enable()
    # pre-initialising inherited contracts changes no later outcome (the overriding method has other defaults / an extra parameter)
    for _ in range(20):
        d1, d2 = rnd.randint(5, 15), rnd.randint(50, 150)
        def build():
            class Parent:
                @deal.pre(lambda _: _.x < _.limit)
                @deal.post(lambda r: r is not None)
                def f(self, x, limit=d1): return x
            class Child(Parent):
                @deal.inherit
                def f(self, x, limit=d2, extra=0): return x
            return Child
        def outcomes(cls):
            out = []
            for x in (0, d1 - 1, d1, d1 + 1, d2 - 1, d2, d2 + 1):
                try: cls().f(x); out.append("ok")
                except deal.ContractError as e: out.append(type(e).__name__)
                except BaseException as e: out.append("exc:" + type(e).__name__)
            return out
        lazy = outcomes(build())
        c2 = build(); di.init_all(c2().f); pre_init = outcomes(c2)
        c3 = build(); [getattr(r, "source", None) for r in di.get_contracts(c3().f)]; read_source = outcomes(c3)
        if not (lazy == pre_init == read_source):
            bad.append(["inherited", d1, d2, {"lazy": lazy, "after init_all": pre_init, "after reading record.source": read_source}])
    return bad
'''


_me = sys.modules[__name__]
def run(ctx, fr, model_available=True):
    scs = base_scn.scenarios(_me, ctx.tier, ctx.seed)
    im = scn.run_impl(scs)
    mo, errs = (scn.run_model_obj(pid, scs) if model_available else ([None] * len(scs), []))
    fr.errors += errs
    dist = {}
    for sc, oi, om in zip(scs, im, mo):
        fr.evaluations += 1
        if nontrivial(sc, oi): fr.add_nontrivial(sc)
        for key in features(sc, oi): dist[key] = dist.get(key, 0) + 1
        for what, tag in monitor(sc, oi):
            fr.violations.append({'scenario': sc, 'impl': oi, 'what': what, 'signature': tag})
        if om is not None:
            fr.programs += 1; fr.traces_validated += 1
            if om != oi: fr.disagreements.append({'scenario': sc, 'impl': oi, 'model': om})
    fr.rule = RULE; fr.samples.append({'scenario': scs[-1], 'impl': im[-1]}); fr.distribution = dict(dist, scenarios=len(scs))
    r = impl.run_impl('pyexec.py', {'src': VALIDATE_SRC, 'calls': [['probe', [ctx.seed]]]})[0]
    fr.evaluations += 540; fr.add_nontrivial({'validate_probe': ctx.seed})
    if r:
        fr.violations.append({'scenario': {'family': 'validate-agrees', 'seed': ctx.seed}, 'impl': r, 'signature': None,
                              'what': f'record.validate disagrees with the runtime (or init_all changed an outcome): [lo, hi, x, runtime, via records] = {r[:3] if isinstance(r, list) else r}'})
def search(ctx, fr, model_available=True): return base_scn.search(_me, ctx, fr, model_available)
classify = base_scn.classify
