"""C15 -- generated test cases are valid, reproducible and judged correctly. hypothesis is an oracle; the family drives the real deal.cases
on generated annotated functions and checks every emitted case; the judgement of a case is additionally compared with the model."""
from __future__ import annotations
import random, json, sys
from ..harness import impl, coq

pid = 'C15'
gen_modules = ['tr_testing', 'tr_validators', 'tr_contracts', 'tr_rest_validators', 'tr_rest_testing', 'tr_rest_contractsconst', 'tr_rest_records', 'tr_extractor', 'tr_pin_introspect']
model_targets = ['Gen/Testing.v']
hand_modelled = ['hypothesis (strategies, seeds, the number of examples) is an oracle: the theorems start from the candidates it hands over']
explanation = ('Theorems on TestCase.__call__ and the wrapper of deal.cases regenerated from deal/_testing.py: a candidate becomes a test case iff every precondition accepts it; '
               'a case returns the result, NoReturn for a suppressed exception, propagates the rest. The implementation is driven on generated annotated functions: every emitted '
               'case is checked against the preconditions, explicit kwargs, counts and seeds (paired runs).')
RULE = ('generated functions with 1-3 int/str/bool annotated parameters, 0-2 preconditions from a predicate grammar, optional raises contract and body that raises, optional '
        'post, examples; deal.cases with counts 1-40, seeds, explicit kwargs (values and strategies); every emitted case is evaluated; non-trivial = the function has a precondition '
        'that rejects part of the input space')

PROBE = r'''
import deal, random, typing, warnings
warnings.simplefilter("ignore")
from hypothesis import strategies as st

def build(rnd):
    names = ["a", "b", "c"][:rnd.randint(1, 3)]
    types = [rnd.choice(["int", "int", "str", "bool"]) for _ in names]
    pres = []
    for _ in range(rnd.randint(0, 2)):
        i = rnd.randrange(len(names))
        if types[i] == "int": pres.append((f"lambda {', '.join(names)}: {names[i]} {rnd.choice(['>', '>=', '!=', '<'])} {rnd.randint(-5, 5)}", i))
        elif types[i] == "str": pres.append((f"lambda {', '.join(names)}: len({names[i]}) {rnd.choice(['>', '<'])} {rnd.randint(0, 3)}", i))
        else: pres.append((f"lambda {', '.join(names)}: {names[i]} is {rnd.choice(['True', 'False'])}", i))
    raises = rnd.choice([None, None, "ValueError", "LookupError", "SystemExit, ValueError", "KeyboardInterrupt"])      # also classes outside the Exception hierarchy
    body_raise = rnd.choice([None, "ValueError", "KeyError", "ZeroDivisionError", "SystemExit", "KeyboardInterrupt"]) if rnd.random() < .5 else None
    if raises and ("SystemExit" in raises or "KeyboardInterrupt" in raises) and types[0] == "int" and rnd.random() < .8:
        body_raise = raises.split(",")[0]          # the declared BaseException-only class does escape
    post = rnd.random() < .3
    src = "import deal, functools\ndef logged(fn):\n    @functools.wraps(fn)\n    def w(*a, **k): return fn(*a, **k)\n    return w\n"
    pexc = rnd.choice([None, None, "ValueError", "KeyError"])      # a custom precondition error type that the body may raise too
    decos = [f"@deal.pre({p}{', exception=' + pexc if pexc else ''})\n" for p, _ in pres]
    dependent = False
    if types[0] == "int" and rnd.random() < .2:
        # a precondition that is only defined where the one BELOW it holds (the runtime evaluates them bottom-up)
        args_ = ', '.join(names)
        decos.insert(0, f"@deal.pre(lambda {args_}: 100 // {names[0]} >= 0)\n"); decos.append(f"@deal.pre(lambda {args_}: {names[0]} > 0)\n")
        pres = pres + [(f"lambda {args_}: {names[0]} > 0", 0)]
        dependent = True
    if raises: decos.append(f"@deal.raises({raises})\n")
    if post: decos.append("@deal.post(lambda r: r != 12345)\n")
    if rnd.random() < .3 and not dependent:      # (a foreign layer between the two would put them into different registries: the outer one is then evaluated first, also at run time)
        # functools.wraps-style foreign decorators above / between / below the deal decorators
        for _ in range(rnd.randint(2, 3)): decos.insert(rnd.randint(0, max(0, len(decos) - 1)), "@logged\n")
    src += "".join(decos)
    src += f"def f({', '.join(n + ': ' + t for n, t in zip(names, types))}):\n"
    src += "    LOG.append((" + ", ".join(names) + ",))\n"
    if body_raise and types[0] == "int": src += f"    if {names[0]} % 3 == 0: raise {body_raise}('x')\n"
    src += f"    return {names[0]}\n"
    return names, types, pres, raises, body_raise, post, src

def probe(seed, n):
    rnd = random.Random(seed)
    bad, stats = [], {"functions": 0, "cases": 0, "with_pre": 0, "noreturn": 0, "propagated": 0}
    for _ in range(n):
        names, types, pres, raises, body_raise, post, src = build(rnd)
        ns = {"LOG": []}
        exec(src, ns)
        f = ns["f"]
        stats["functions"] += 1; stats["with_pre"] += bool(pres)
        count = rnd.randint(1, 40); s = rnd.choice([0, 0, 1, rnd.randint(0, 10**6), rnd.randint(0, 10**6)])      # 0 is a seed like any other
        fixed = {}
        if rnd.random() < .4:
            # one or several explicit arguments, plain values and strategies in any order
            for i in rnd.sample(range(len(names)), rnd.randint(1, len(names))):
                fixed[names[i]] = {"int": 7 + i, "str": "zz" + "z" * i, "bool": True}[types[i]] if rnd.random() < .5 else {"int": st.integers(100, 105), "str": st.sampled_from(["q", "qq"]), "bool": st.just(False)}[types[i]]
        def collect():
            return [(c.args, tuple(sorted(c.kwargs.items()))) for c in deal.cases(f, count=count, seed=s, kwargs=dict(fixed), check_types=False)]
        try:
            c1, c2 = collect(), collect()
        except BaseException as e:
            if type(e).__name__ in ("Unsatisfiable", "FailedHealthCheck"):
                stats["unsatisfiable"] = stats.get("unsatisfiable", 0) + 1; continue      # the generated preconditions exclude (almost) every input: hypothesis says so
            bad.append(["cases() raised", src, repr(e)]); continue
        if c1 != c2: bad.append(["same seed, different cases", src, str(c1[:3]), str(c2[:3])])
        # one deal.cases object iterated twice: the same cases again, never more than requested
        obj = deal.cases(f, count=count, seed=s, kwargs=dict(fixed), check_types=False)
        try:
            i1 = [(c.args, tuple(sorted(c.kwargs.items()))) for c in obj]; i2 = [(c.args, tuple(sorted(c.kwargs.items()))) for c in obj]
            if i1 != i2 or len(i2) > count: bad.append(["iterating one deal.cases object twice gives different / more cases", src, len(i1), len(i2), count])
        except BaseException as e:
            if type(e).__name__ not in ("Unsatisfiable", "FailedHealthCheck"): bad.append(["iterating cases raised", src, repr(e)])
        if len(c1) > count: bad.append(["more cases than requested", src, len(c1), count])
        rawpres = [eval(p) for p, _ in pres]
        failing = []
        for args, kw in c1:
            stats["cases"] += 1
            kwd = dict(kw)
            full = dict(zip(names, args)); full.update(kwd)
            for n_, t in zip(names, types):
                if type(full[n_]).__name__ != t: bad.append(["argument not drawn from the annotation", src, n_, repr(full[n_])])
            for k, v in fixed.items():
                if not hasattr(v, "example"):
                    if full[k] != v: bad.append(["explicit value not used", src, k, repr(full[k])])
                else:
                    ok = {"int": lambda x: 100 <= x <= 105, "str": lambda x: x in ("q", "qq"), "bool": lambda x: x is False}[types[names.index(k)]](full[k])
                    if not ok: bad.append(["explicit strategy not used", src, k, repr(full[k])])
            for rp in rawpres:
                if not rp(*[full[n_] for n_ in names]): bad.append(["emitted case violates a precondition", src, repr(full)])
            # judgement
            case = deal.TestCase(args=args, kwargs=kwd, func=f, exceptions=deal.cases(f, check_types=False).exceptions, check_types=False)
            exc = None
            try: direct = f(*args, **kwd)
            except BaseException as e: exc = e
            try:
                r = case(); out = ("ret", r)
            except BaseException as e:
                out = ("exc", type(e).__name__)
            if out[0] == "exc": failing.append(out[1])
            if exc is None:
                if out != ("ret", direct): bad.append(["case() does not return the result", src, repr(full), repr(out)])
            else:
                import builtins as _b
                declared = () if raises is None else tuple(getattr(_b, n.strip()) for n in raises.split(","))
                if isinstance(exc, declared):
                    stats["noreturn"] += 1
                    if out != ("ret", typing.NoReturn): bad.append(["admitted exception should give NoReturn", src, repr(full), repr(out)])
                else:
                    stats["propagated"] += 1
                    if out != ("exc", type(exc).__name__): bad.append(["everything else must propagate", src, repr(full), repr(out), type(exc).__name__])
        # the generated test (test form, same seed): fails iff one of its generated cases fails
        try:
            deal.cases(f, count=count, seed=s, kwargs=dict(fixed), check_types=False)(); verdict = None
        except BaseException as e:
            verdict = type(e).__name__
        stats["tests_failed"] = stats.get("tests_failed", 0) + (verdict is not None)
        if bool(failing) != (verdict is not None):
            bad.append(["the generated test's verdict differs from its cases", src, "failing cases: " + str(failing[:3]), "test raised: " + str(verdict)])
    return {"bad": bad[:10], "nbad": len(bad), "stats": stats}

def examples_probe():
    ran = []
    @deal.example(lambda: ran.append("ex1") or True)
    @deal.example(lambda: ran.append("ex2") or True)
    @deal.pre(lambda x: x > 0)
    def g(x: int): return x
    deal.cases(g, count=3, check_types=False)()
    return sorted(set(ran))

def late_contracts_probe():
    # contracts attached to a function AFTER cases were generated for it (decorating an already decorated function extends the same
    # wrapper object): a new deal.cases(f) honours them -- the added precondition, the added raises declaration, the added example
    bad = []
    @deal.pre(lambda a, b: a >= 0)
    def f(a: int, b: int) -> int: return a + b
    list(deal.cases(f, count=5, seed=1, check_types=False))
    f2 = deal.pre(lambda a, b: b < 10)(f)
    for case in deal.cases(f2, count=20, seed=1, check_types=False):
        if not (case.kwargs["a"] >= 0 and case.kwargs["b"] < 10): bad.append(["case violates a precondition added after the first generation", dict(case.kwargs)]); break
    @deal.pre(lambda x: True)
    def g(x: int) -> float: return 1 / x
    list(deal.cases(g, count=3, seed=1, check_types=False))
    g2 = deal.raises(ZeroDivisionError)(g)
    try:
        r = deal.cases(g2, count=1, kwargs=dict(x=0), check_types=False)
        for case in r: case()
    except ZeroDivisionError: bad.append(["an exception admitted by a raises contract added after the first generation propagates", "x=0"])
    except BaseException as e: bad.append(["raises added later", type(e).__name__])
    ran = []
    @deal.pre(lambda x: True)
    def h(x: int) -> int: return x
    deal.cases(h, count=2, seed=1, check_types=False)()
    h2 = deal.example(lambda: ran.append("late") or True)(h)
    deal.cases(h2, count=2, seed=1, check_types=False)()
    if ran != ["late"] and "late" not in ran: bad.append(["an example contract added after the first generation is not executed", ran])
    return bad
'''


def run(ctx, fr, model_available=True):
    n = 400 if ctx.tier == 'thorough' else 60
    r = impl.run_impl('pyexec.py', {'src': PROBE, 'calls': [['probe', [ctx.seed, n]], ['examples_probe', []], ['late_contracts_probe', []]]}, timeout=1500)
    res, ex, late = r
    if isinstance(res, dict) and 'error' in res:
        fr.errors.append('probe failed: ' + res['error']); return
    st = res['stats']
    fr.evaluations += st['cases']
    for i in range(st['with_pre']): fr.add_nontrivial({'fn': i, 'seed': ctx.seed})
    for b in res['bad']:
        fr.violations.append({'scenario': {'family': 'cases-probe', 'seed': ctx.seed, 'source': b[1]}, 'impl': b[2:], 'what': b[0], 'signature': None})
    if ex != ['ex1', 'ex2']:
        fr.violations.append({'scenario': {'family': 'examples'}, 'impl': ex, 'what': f'example contracts are not executed as part of the test: ran {ex}', 'signature': None})
    fr.evaluations += 3; fr.samples.append({'family': 'contracts attached after a first generation', 'deviations': late})
    if late:
        fr.violations.append({'scenario': {'family': 'late-contracts'}, 'impl': late, 'signature': None,
                              'what': f'deal.cases does not honour a contract attached after cases were first generated for the function: {late[0] if isinstance(late, list) else late}'})
    fr.rule = RULE
    fr.samples.append({'stats': st, 'examples_ran': ex})
    fr.distribution = st
    fr.programs = st['functions']; fr.traces_validated = st['cases']


def search(ctx, fr, model_available=True):
    class C2: tier = 'thorough'; seed = ctx.seed + 1
    fr2 = type(fr)(); run(C2, fr2, model_available=False)
    fr.violations += fr2.violations; fr.evaluations += fr2.evaluations


def classify(v, findings): return None
