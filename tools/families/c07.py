"""C07 -- the global switch. Correspondence: histories over {enable, disable, reset, disable(permament=True)} on a fresh
_State (normal and -O interpreter), model = Gen/State.v run by Sem/ScnSwitch.show_hist. Monitor: the property itself."""
from __future__ import annotations
import itertools, random, json
from ..harness import coq, impl

pid = 'C07'
gen_modules = ['tr_state']
model_targets = ['Sem/ScnSwitch.v']
hand_modelled = []
OPS = ['enable', 'disable', 'reset', 'perm']
COQ = {'enable': 'OEnable', 'disable': 'ODisable', 'reset': 'OReset', 'perm': 'ODisablePerm'}
explanation = ('Theorems over all histories on the state machine generated from deal/_state.py; correspondence on all histories '
               'up to a length bound against a fresh deal._state._State under python and python -O.')


def histories(tier, seed):
    rnd = random.Random(seed)
    maxlen = 6 if tier == 'thorough' else 5
    hs = [list(h) for n in range(maxlen + 1) for h in itertools.product(OPS, repeat=n)]
    for _ in range(600 if tier == 'thorough' else 150):
        hs.append([rnd.choice(OPS) for _ in range(rnd.randint(maxlen + 1, 14))])
    return hs, maxlen


def monitor(h, obs, py_debug):
    """the property, restated: returns None or a description of the violation"""
    outs, final = obs.split('|')
    outs = outs.split(',') if outs else []
    if len(outs) != len(h):
        return 'wrong number of outcomes'
    removed, debug = False, py_debug
    for op, o in zip(h, outs):
        must_raise = removed and op in ('enable', 'reset', 'perm')
        if must_raise:
            if not o.startswith('RuntimeError'):
                return f'{op} after a permanent disable did not raise RuntimeError (got {o})'
            continue
        if o != 'ok':
            return f'{op} raised {o} although contracts were not permanently disabled'
        if op == 'enable': debug = True
        elif op == 'reset': debug = py_debug
        else: debug = False
        if op == 'perm': removed = True
    want = ('1' if debug else '0') + ('1' if removed else '0')
    if final != want:
        return f'final (enabled, removed) = {final}, the last effective switch requires {want}'
    return None


def model_run(hs, py_debug, name):
    cases = '; '.join('[' + '; '.join(COQ[o] for o in h) + ']' for h in hs)
    text = ('From Coq Require Import List String.\nImport ListNotations.\nFrom Deal Require Import Show ScnSwitch.\n'
            f'Definition cases : list (list op) := [{cases}].\n'
            f'Eval vm_compute in lines (map (show_hist {"true" if py_debug else "false"}) cases).\n')
    ok, out = coq.eval_cases(name, text)
    if not ok:
        return None, out
    res = coq.parse_strings(out)
    if len(res) != 1:
        return None, out
    return res[0].split('\n'), out


def run(ctx, fr, model_available=True, extra=1):
    hs, maxlen = histories(ctx.tier, ctx.seed)
    fr.rule = (f'all histories of length <= {maxlen} over 4 switch operations plus random longer ones, each under python and python -O; '
               'non-trivial = contains a permanent disable followed by at least one more operation, or ends enabled after a disable')
    fr.exhaustive = True
    for py_debug in (True, False):
        obs = impl.run_impl('c07_state.py', hs, optimise=not py_debug)
        mod = None
        if model_available:
            mod, out = model_run(hs, py_debug, f'C07_{int(py_debug)}')
            if mod is None or len(mod) != len(hs):
                fr.errors.append('model cases failed: ' + out[-1500:])
                mod = None
        for i, (h, o) in enumerate(zip(hs, obs)):
            fr.evaluations += 1
            scen = {'family': 'switch-history', 'py_debug': py_debug, 'history': h}
            if 'perm' in h[:-1] or ('disable' in h and o.endswith('|10')):
                fr.add_nontrivial(scen)
            v = monitor(h, o, py_debug)
            if v:
                fr.violations.append({'scenario': scen, 'impl': o, 'what': v})
            if mod is not None:
                fr.programs += 1
                fr.traces_validated += 1
                if mod[i] != o:
                    fr.disagreements.append({'scenario': scen, 'impl': o, 'model': mod[i]})
        fr.samples.append({'py_debug': py_debug, 'history': hs[700 % len(hs)], 'impl': obs[700 % len(hs)]})
    fr.distribution = {'histories': len(hs), 'max_exhaustive_length': maxlen,
                       'with_permanent_disable': sum('perm' in h for h in hs)}


def search(ctx, fr, model_available=True):
    # widen: longer random histories with other seeds (monitor only)
    import random as _r
    for k in range(5):
        rnd = _r.Random(ctx.seed * 1000 + k)
        hs = [[rnd.choice(OPS) for _ in range(rnd.randint(1, 20))] for _ in range(2000)]
        for py_debug in (True, False):
            obs = impl.run_impl('c07_state.py', hs, optimise=not py_debug)
            for h, o in zip(hs, obs):
                fr.evaluations += 1
                v = monitor(h, o, py_debug)
                if v:
                    fr.violations.append({'scenario': {'family': 'switch-history', 'py_debug': py_debug, 'history': h}, 'impl': o, 'what': v})
                    return


def classify(v, findings):
    return None
