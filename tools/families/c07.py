"""C07 -- the global switch. Correspondence: histories over {enable, disable, reset, disable(permament=True)} on a fresh
_State (normal and -O interpreter), model = Gen/State.v run by Sem/ScnSwitch.show_hist. Monitor: the property itself."""
from __future__ import annotations
import itertools, random, json
from ..harness import coq, impl, scn, gen, obs as O, pyeval

pid = 'C07'
gen_modules = ['tr_state', 'tr_validators', 'tr_has_patcher', 'tr_contracts', 'tr_decorators', 'tr_pin_contracts', 'tr_invariant', 'tr_pin_invariant', 'tr_rest_validators', 'tr_rest_patcher', 'tr_rest_state', 'tr_rest_contractsconst', 'tr_dispatch', 'tr_rest_dispatch', 'tr_rest_trace', 'tr_pin_inherit']
model_targets = ['Sem/ScnSwitch.v', 'Sem/Scenario.v']
hand_modelled = []
OPS = ['enable', 'disable', 'reset', 'perm']
COQ = {'enable': 'OEnable', 'disable': 'ODisable', 'reset': 'OReset', 'perm': 'ODisablePerm'}
explanation = ('Theorems over all histories on the state machine generated from deal/_state.py; correspondence on all histories '
               'up to a length bound against a fresh deal._state._State under python and python -O.')


def histories(tier, seed):
    rnd = random.Random(seed)
    maxlen = 6 if tier == 'thorough' else 5
    hs = [list(h) for n in range(maxlen + 1) for h in itertools.product(OPS, repeat=n)]
    for _ in range(600 if tier == 'thorough' else 150):
        hs.append([rnd.choice(OPS) for _ in range(rnd.randint(maxlen + 1, 14))])
    return hs, maxlen


def monitor(h, obs, py_debug):
    """the property, restated: returns None or a description of the violation"""
    outs, final = obs.split('|')
    outs = outs.split(',') if outs else []
    if len(outs) != len(h):
        return 'wrong number of outcomes'
    removed, debug = False, py_debug
    for op, o in zip(h, outs):
        must_raise = removed and op in ('enable', 'reset', 'perm')
        if must_raise:
            if not o.startswith('RuntimeError'):
                return f'{op} after a permanent disable did not raise RuntimeError (got {o})'
            continue
        if o != 'ok':
            return f'{op} raised {o} although contracts were not permanently disabled'
        if op == 'enable': debug = True
        elif op == 'reset': debug = py_debug
        else: debug = False
        if op == 'perm': removed = True
    want = ('1' if debug else '0') + ('1' if removed else '0')
    if final != want:
        return f'final (enabled, removed) = {final}, the last effective switch requires {want}'
    return None


def model_run(hs, py_debug, name):
    cases = '; '.join('[' + '; '.join(COQ[o] for o in h) + ']' for h in hs)
    text = ('From Coq Require Import List String.\nImport ListNotations.\nFrom Deal Require Import Show ScnSwitch.\n'
            f'Definition cases : list (list op) := [{cases}].\n'
            f'Eval vm_compute in lines (map (show_hist {"true" if py_debug else "false"}) cases).\n')
    ok, out = coq.eval_cases(name, text)
    if not ok:
        return None, out
    res = coq.parse_strings(out)
    if len(res) != 1:
        return None, out
    return res[0].split('\n'), out


def run(ctx, fr, model_available=True, extra=1):
    hs, maxlen = histories(ctx.tier, ctx.seed)
    fr.rule = (f'all histories of length <= {maxlen} over 4 switch operations plus random longer ones, each under python and python -O; '
               'non-trivial = contains a permanent disable followed by at least one more operation, or ends enabled after a disable')
    fr.exhaustive = True
    for py_debug in (True, False):
        obs = impl.run_impl('c07_state.py', hs, optimise=not py_debug)
        mod = None
        if model_available:
            mod, out = model_run(hs, py_debug, f'C07_{int(py_debug)}')
            if mod is None or len(mod) != len(hs):
                fr.errors.append('model cases failed: ' + out[-1500:])
                mod = None
        for i, (h, o) in enumerate(zip(hs, obs)):
            fr.evaluations += 1
            scen = {'family': 'switch-history', 'py_debug': py_debug, 'history': h}
            if 'perm' in h[:-1] or ('disable' in h and o.endswith('|10')):
                fr.add_nontrivial(scen)
            v = monitor(h, o, py_debug)
            if v:
                fr.violations.append({'scenario': scen, 'impl': o, 'what': v})
            if mod is not None:
                fr.programs += 1
                fr.traces_validated += 1
                if mod[i] != o:
                    fr.disagreements.append({'scenario': scen, 'impl': o, 'model': mod[i]})
        fr.samples.append({'py_debug': py_debug, 'history': hs[700 % len(hs)], 'impl': obs[700 % len(hs)]})
    fr.distribution = {'histories': len(hs), 'max_exhaustive_length': maxlen,
                       'with_permanent_disable': sum('perm' in h for h in hs)}
    api_part(ctx, fr, model_available)
    removal_part(ctx, fr)


I = lambda n: {'i': n}


def api_scenario(rnd):
    """a contracted function (every kind of contract, violated by the calls) driven through a random switch history"""
    ids = gen.Ids()
    sig = [['x', 'PosOrKw', None]]
    kind = rnd.choice(['sync', 'sync', 'async', 'gen'])
    stack = [['pre', {'id': ids(), 'sig': sig, 'expr': ['bin', 'gt', ['var', 'x'], ['const', I(100)]], 'msg': None, 'exc': None}],
             ['post', {'id': ids(), 'sig': [['r', 'PosOrKw', None]], 'expr': ['const', {'b': False}], 'msg': None, 'exc': None}],
             ['ensure', {'id': ids(), 'sig': [['_', 'PosOrKw', None]], 'expr': ['const', {'b': False}], 'msg': None, 'exc': None}],
             ['raises', ids(), [], None, None],
             ['reason', scn.cls('ValueError'), {'id': ids(), 'sig': sig, 'expr': ['const', {'b': False}], 'msg': None, 'exc': None}],
             ['has', ids(), [], None, None]]
    stack = rnd.sample(stack, rnd.randint(1, len(stack)))
    body = [['effect', rnd.choice(['out', 'err', 'sock'])]]
    if kind == 'gen':
        body.append(['yield', ['var', 'x']])
        if rnd.random() < .5: body += [['effect', rnd.choice(['out', 'err', 'sock'])], ['yield', ['var', 'x']]]
    if rnd.random() < .3: body.append(['if', ['bin', 'eq', ['var', 'x'], ['const', I(1)]], [['raise', scn.cls('ValueError'), 100]], []])
    body.append(['return', ['var', 'x']])
    driver, gv = [], 0
    for _ in range(rnd.randint(3, 7)):
        if rnd.random() < .45:
            driver.append(['switch', rnd.choice(OPS)])
        else:
            x = rnd.randint(0, 3)
            if kind == 'gen':
                if rnd.random() < .3: x = rnd.randint(101, 103)      # the precondition accepts: the generator gets going
                steps = [['gennew', gv, 'f', [I(x)], []]] + [['next', gv]] * (sum(1 for s in body if s[0] == 'yield') + 1); gv += 1
                if rnd.random() < .4:
                    # the switch is operated while the generator is suspended (or between its creation and its first step)
                    steps.insert(rnd.randint(1, len(steps) - 1), ['switch', rnd.choice(OPS)])
                driver += steps
            else:
                driver.append(['call', 'f', [I(x)], []])
    return {'funs': [{'name': 'f', 'kind': kind, 'sig': sig, 'stack': stack, 'body': body}], 'driver': driver}


def api_monitor(sc, obs):
    acts = O.split(obs)
    if acts is None:
        return 'harness/observation error: ' + str(obs)[:200]
    enabled, removed = True, False
    f = sc['funs'][0]
    raises_x1 = any(s[0] == 'if' for s in f['body'])
    gens = {}
    for a, act in zip(sc['driver'], acts):
        if a[0] == 'switch':
            op = a[1]
            if removed and op in ('enable', 'reset', 'perm'):
                if not (act.kind == 'X' and act.exc_class == 'RuntimeError'):
                    return f'{op} after a permanent disable must raise RuntimeError; got {act.outcome!r}'
            else:
                if act.kind != 'R': return f'{op} raised {act.outcome!r}'
                if op == 'enable': enabled = True
                elif op == 'reset': enabled = True
                else: enabled = False
                if op == 'perm': removed = True
            want = 'S ' + ('1' if enabled else '0') + ('1' if removed else '0')
            if not act.snap.startswith(want):
                return f'after {op}: snapshot {act.snap!r}, expected enabled={enabled} removed={removed}'
            continue
        if a[0] == 'next' and a[1] not in gens:
            gens[a[1]] = enabled          # the wrapper reads the switch at the first step
            if enabled: continue
        if a[0] == 'next' and gens.get(a[1]) and not enabled:
            # C07-F1: the wrapper of a generator that was created while contracts were enabled does not look at the switch again
            sig = 'generator_resumed_while_disabled'
            if act.validators() or any(e.startswith('K ') for e in act.effects()):
                return (f'contracts are disabled but a generator created while they were enabled still evaluates validators / blocks effects on {a}: {act.validators()} {act.effects()}', sig)
            if not act.snap.startswith('S 0'):
                return (f'{a} on a generator created while contracts were enabled switched contracts back on: snapshot {act.snap!r}', sig)
            continue
        if a[0] == 'next' and gens.get(a[1]) is False and enabled:
            continue      # created while disabled (the bare generator), resumed after enable: the bare generator goes on
        if not enabled:
            # inert: no validator evaluated, no stream replaced, behaves as the undecorated function
            if act.validators():
                return f'contracts are disabled but validators {act.validators()} were evaluated on {a}'
            if any(e.startswith('K ') for e in act.effects()):
                return f'contracts are disabled but an effect was blocked on {a}: {act.effects()}'
            if a[0] == 'call':
                x = a[2][0]['i']
                ok = (act.kind == 'X' and act.field('tag') == '100') if (raises_x1 and x == 1) else (act.kind == 'R' and act.value == f'i{x}')
                if not ok: return f'contracts are disabled: {a} should behave as the undecorated function; got {act.outcome!r}'
    return None


def api_part(ctx, fr, model_available):
    rnd = random.Random(ctx.seed * 31 + 7)
    scs = [api_scenario(rnd) for _ in range(1500 if ctx.tier == 'thorough' else 250)]
    im = scn.run_impl(scs)
    mo, errs = (scn.run_model('C07api', scs) if model_available else ([None] * len(scs), []))
    fr.errors += errs
    for sc, oi, om in zip(scs, im, mo):
        fr.evaluations += 1
        if any(a[0] == 'switch' for a in sc['driver']): fr.add_nontrivial(sc)
        v = api_monitor(sc, oi)
        if isinstance(v, tuple): fr.violations.append({'scenario': sc, 'impl': oi, 'what': v[0], 'signature': v[1]})
        elif v: fr.violations.append({'scenario': sc, 'impl': oi, 'what': v})
        if om is not None:
            fr.programs += 1; fr.traces_validated += 1
            if om != oi: fr.disagreements.append({'scenario': sc, 'impl': oi, 'model': om})
    fr.distribution['api_scenarios'] = len(scs)


REMOVAL_SRC = '''
import deal, warnings
warnings.simplefilter("ignore")
def check():
    out = {}
    def f(x): return x
    class K:
        def m(self, x): return x
    # a dispatcher built before the permanent switch-off keeps dispatching on its guards afterwards (C12: "works with contracts globally disabled")
    @deal.dispatch
    def dd(x): raise NotImplementedError
    @dd.register
    @deal.pre(lambda x: x == 1)
    def _(x): return "one"
    @dd.register
    @deal.pre(lambda x: x == 2)
    def _(x): return "two"
    deal.disable(permament=True)
    got = []
    for arg in (1, 2, 3):
        try: got.append(dd(arg))
        except deal.NoMatchError: got.append("nomatch")
        except BaseException as e: got.append(type(e).__name__)
    out["dispatch_after_permanent_disable"] = got == ["one", "two", "nomatch"]
    from deal._state import state as _st
    out["switch_still_off_after_dispatch"] = _st.debug is False
    decs = {
        "pre": deal.pre(lambda x: x > 0), "post": deal.post(lambda r: r > 0), "ensure": deal.ensure(lambda _: True),
        "raises": deal.raises(ValueError), "reason": deal.reason(ValueError, lambda x: True), "has": deal.has(),
        "safe": deal.safe, "pure": deal.pure, "example": deal.example(lambda: True), "inherit": deal.inherit,
        "chain": deal.chain(deal.pre(lambda x: x > 0), deal.has()),
    }
    for name, d in decs.items():
        out[name] = d(f) is f
    out["inv"] = deal.inv(lambda obj: False)(K) is K
    class Base7:
        @deal.pre(lambda self, x: x > 0)
        def m(self, x): return x
    class Sub7(Base7):
        def m(self, x): return x
        def other(self): return 1
    before = dict(vars(Sub7))
    out["inherit_class_returns_it"] = deal.inherit(Sub7) is Sub7
    out["inherit_class_untouched"] = all(vars(Sub7).get(k) is v for k, v in before.items()) and Sub7().m(-1) == -1 and list(deal.introspection.get_contracts(Sub7.m)) == []
    for op in ("enable", "reset"):
        try:
            getattr(deal, op)(); out[op + "_raises"] = False
        except RuntimeError:
            out[op + "_raises"] = True
    try:
        deal.disable(permament=True); out["perm_again_raises"] = False
    except RuntimeError:
        out["perm_again_raises"] = True
    try:
        deal.module_load(deal.pure); out["module_load_inert"] = True
    except BaseException as e:
        out["module_load_inert"] = type(e).__name__
    return out

def check_disabled_inv():
    @deal.inv(lambda obj: obj.x > 0)
    class A:
        def __init__(self): self.x = 1
        def bad(self): self.x = -5; return "ran"
    a = A()
    kept = a.bad          # a bound method handed out while contracts were enabled (a stored callback) ...
    deal.disable()
    r = {"assign": None, "method": None, "kept_method": None}
    try:
        r["kept_method"] = kept() == "ran"      # ... is inert too once contracts are disabled: the switch is read at the call
    except BaseException as e:
        r["kept_method"] = type(e).__name__
    a.x = 1
    try:
        a.x = -1; r["assign"] = True
    except BaseException as e:
        r["assign"] = type(e).__name__
    try:
        r["method"] = a.bad() == "ran"
    except BaseException as e:
        r["method"] = type(e).__name__
    deal.enable()
    return r

def check_decorated_while_disabled():
    # whatever the switch position at decoration time (short of permanent removal), the last effective switch decides at call time
    out = {}
    deal.disable()
    @deal.inv(lambda obj: obj.x > 0)
    class A:
        def __init__(self): self.x = 1
        def bad(self): self.x = -5; return "ran"
    @deal.pre(lambda x: x > 0)
    def f(x): return x
    @deal.post(lambda r: r > 0)
    def g(x): return x
    @deal.has()
    def h(): print("x"); return 1
    a = A()
    def raised(fn, *args):
        try:
            fn(*args); return None
        except BaseException as e:
            return type(e).__name__
    out["disabled_inv_assign_inert"] = raised(setattr, a, "x", -1) is None
    out["disabled_pre_inert"] = raised(f, -1) is None
    deal.enable()
    a.__dict__["x"] = 1
    out["enabled_inv_assign_raises"] = raised(setattr, a, "x", -1) == "InvContractError"
    a.__dict__["x"] = 1
    out["enabled_inv_method_raises"] = raised(a.bad) == "InvContractError"
    out["enabled_pre_raises"] = raised(f, -1) == "PreContractError"
    out["enabled_post_raises"] = raised(g, -1) == "PostContractError"
    out["enabled_has_raises"] = raised(h) == "SilentContractError"
    deal.disable()
    a.__dict__["x"] = 1
    out["disabled_again_inert"] = raised(setattr, a, "x", -1) is None and raised(f, -1) is None
    # dispatch turns contracts on for the duration of a call: whatever the outcome (return, body exception, no match), the last
    # effective switch (disabled) must be in force afterwards
    @deal.dispatch
    def d(x): raise NotImplementedError
    @d.register
    @deal.pre(lambda x: x == 1)
    def _(x): return "one"
    @d.register
    @deal.pre(lambda x: x == 2)
    def _(x): raise ValueError("body")
    from deal._state import state
    for arg in (1, 2, 3):
        raised(d, arg)
        out[f"disabled_after_dispatch_{arg}"] = (state.debug is False) and raised(f, -1) is None
    deal.enable()
    # a contracted generator suspended between two items does not hold the switch: no disable() was issued, so contracts are in force
    @deal.post(lambda r: r >= 0)
    @deal.has()
    def numbers():
        yield 1
        yield 2
    it = numbers(); next(it)
    out["enabled_while_generator_suspended"] = (state.debug is True) and raised(f, -1) == "PreContractError"
    it.close()
    async def _co():
        @deal.pre(lambda: True)
        async def inner():
            import asyncio
            await asyncio.sleep(0)
            return (state.debug is True) and raised(f, -1) == "PreContractError"
        return await inner()
    import asyncio
    out["enabled_inside_contracted_coroutine"] = asyncio.run(_co())
    deal.disable()
    # the case runners of the test / memtest commands switch contracts off and on around each case: afterwards the last effective
    # switch (here: disabled; under -O the mirror image, enabled by hand) decides again
    import io
    from deal._cli._memtest import run_cases as mem_run_cases
    from deal._cli._test import run_cases as test_run_cases
    colors = dict(blue="", yellow="", red="", green="", end="", magenta="")
    @deal.pre(lambda x: x > 0)
    def k(x: int) -> int: return x
    for label, runner in (("memtest", mem_run_cases), ("test", test_run_cases)):
        raised(runner, deal.cases(k, count=3, check_types=False), "k", io.StringIO(), colors)
        out[f"disabled_after_{label}_run_cases"] = (state.debug is False) and raised(f, -1) is None
    deal.enable()
    for label, runner in (("memtest", mem_run_cases), ("test", test_run_cases)):
        raised(runner, deal.cases(k, count=3, check_types=False), "k", io.StringIO(), colors)
        out[f"enabled_after_{label}_run_cases"] = (state.debug is True) and raised(f, -1) == "PreContractError"
    return out

def check_generator_across_switch():
    # C07-F1: a contracted generator that got going while contracts were enabled, resumed after deal.disable()
    from deal._state import state
    seen = []
    @deal.post(lambda r: seen.append(r) or True)
    @deal.has()
    def numbers():
        yield 1
        yield 2
        yield 3
    out = {}
    it = numbers(); next(it)
    n = len(seen)
    deal.disable()
    second = next(it)
    out["no_validator_while_disabled"] = len(seen) == n
    out["switch_still_off_after_step"] = state.debug is False
    deal.disable()
    it.close()
    # the other direction is the documented one: created and started while disabled, the bare generator goes on after enable
    it = numbers(); next(it); deal.enable(); n = len(seen); next(it)
    out["bare_generator_goes_on"] = len(seen) == n and state.debug is True
    return out
'''


def removal_part(ctx, fr):
    res = impl.run_impl('pyexec.py', {'src': REMOVAL_SRC, 'calls': [['check_generator_across_switch', []]]})[0]
    fr.evaluations += 1; fr.add_nontrivial({'removal': 'check_generator_across_switch'})
    fr.samples.append({'family': 'removal', 'check': 'check_generator_across_switch', 'result': res})
    known = {'no_validator_while_disabled', 'switch_still_off_after_step'}
    bad = [k for k, v in (res.items() if isinstance(res, dict) else [('error', res)]) if v is not True]
    if [k for k in bad if k in known]:
        fr.violations.append({'scenario': {'family': 'removal', 'check': 'check_generator_across_switch'}, 'impl': res, 'signature': 'generator_resumed_while_disabled',
                              'what': f'a generator that got going while contracts were enabled ignores deal.disable(): failing {[k for k in bad if k in known]} ({res})'})
    if [k for k in bad if k not in known]:
        fr.violations.append({'scenario': {'family': 'removal', 'check': 'check_generator_across_switch'}, 'impl': res,
                              'what': f'generator across a switch: failing {[k for k in bad if k not in known]} ({res})'})
    for name, optimise in (('check', False), ('check_disabled_inv', False), ('check_decorated_while_disabled', False), ('check_decorated_while_disabled', True)):
        res = impl.run_impl('pyexec.py', {'src': REMOVAL_SRC, 'calls': [[name, []]]}, optimise=optimise)[0]
        fr.evaluations += 1; fr.add_nontrivial({'removal': name})
        bad = [k for k, v in (res.items() if isinstance(res, dict) else [('error', res)]) if v is not True]
        if bad:
            fr.violations.append({'scenario': {'family': 'removal', 'check': name}, 'impl': res,
                                  'what': f'{name}: after disable every decorator must be inert / return its argument; failing: {bad} ({res})'})
        fr.samples.append({'family': 'removal', 'check': name, 'result': res})


def search(ctx, fr, model_available=True):
    # widen: longer random histories with other seeds (monitor only)
    import random as _r
    for k in range(5):
        rnd = _r.Random(ctx.seed * 1000 + k)
        hs = [[rnd.choice(OPS) for _ in range(rnd.randint(1, 20))] for _ in range(2000)]
        for py_debug in (True, False):
            obs = impl.run_impl('c07_state.py', hs, optimise=not py_debug)
            for h, o in zip(hs, obs):
                fr.evaluations += 1
                v = monitor(h, o, py_debug)
                if v:
                    fr.violations.append({'scenario': {'family': 'switch-history', 'py_debug': py_debug, 'history': h}, 'impl': o, 'what': v})
                    return


def classify(v, findings):
    for f in findings:
        if f.get('status') == 'open' and f.get('signature') and f['signature'] == v.get('signature'):
            return f['id']
    return None
