"""C16 -- the linter is total, deterministic and reports well-formed locations. Every valid module of the corpus goes through both
parser back-ends, the flake8-style entry point and the CLI; the driver model (Sem/LintDriver.v) is evaluated on the rule-level
findings of each file and compared with what Checker.get_errors() emits."""
from __future__ import annotations
import random, json, sys, os, glob, ast, re
from ..harness import coq, impl, pygen

pid = 'C16'
gen_modules = ['tr_lintdriver', 'tr_rules', 'tr_rest_lintcontract', 'tr_rest_lintrules', 'tr_rest_lintglue', 'tr_rest_linttables', 'tr_rest_climain', 'tr_rest_lintmisc', 'tr_rest_stubfile', 'tr_lint', 'tr_lintexec']
model_targets = ['Sem/LintDriver.v']
hand_modelled = ['coq/Sem/LintDriver.v: Checker.get_errors (de-duplication, noqa filter), Extractor._ensure_node_info, LintCommand.__call__ (hand-written; source pinned by '
                 'tools/py2coq/lintdriver_pins.json); the noqa regex and the rules themselves are oracles of the driver model (their findings are its input)',
                 'totality (no rule raises on any valid module) is decided on the implementation only']
explanation = ('Theorems on the driver: no two emitted findings share (row, col, code, value); nothing is lost but duplicates and noqa-suppressed findings; back-filled positions lie '
               'inside the file; every emitted code is in the documentation table (both regenerated); the exit status counts the printed findings. Correspondence: the driver model '
               'on the rule-level findings of each file = Checker.get_errors(). Monitor over the corpus: no exception through either back-end / flake8 entry / CLI, two runs equal, '
               'codes documented, row / column inside the file, no stray output, CLI exit status = findings printed = JSON records.')
RULE = ('files of the repository and of the standard library, the same files with deal contracts of every kind sprinkled on their functions, grammar-generated modules (pygen) and a '
        'zoo of contracts that raise when partially executed / unusual signatures / noqa comments; both parser back-ends, Checker.run(), python -m deal lint [--json]; '
        'non-trivial = the file yields at least one finding')

SPRINKLE = ['@deal.raises(ValueError)', '@deal.has()', '@deal.safe', '@deal.pure', '@deal.pre(lambda *a, **k: True)', '@deal.post(lambda r: r is not None)',
            '@deal.post(lambda x: x > 0)', '@deal.ensure(lambda *a, **k: True)', '@deal.pre(lambda x: len(x) > 2)', '@deal.has("io", "custom")', '@deal.reason(ValueError, lambda *a, **k: True)',
            '@deal.pre(lambda _: _.x > 0)', '@deal.post(lambda r: r.startswith("a"))', '@deal.example(lambda: None)', '@deal.inherit']

ZOO = [
    'import deal\n\n@deal.pre(lambda x, y=0: x > 0)\ndef helper(x, y=0):\n    return x\n\n@deal.pure\ndef f():\n    return helper(**{"x": 1}, y=2) + helper(*[1], **{"y": 3}) + helper(1, **{})\n',
    'import deal\n\n@deal.example()\ndef f():\n    return 1\n',
    'import deal\n\n@deal.ensure()\ndef f():\n    return 1\n',
    'import deal\n\n@deal.ensure(validator=lambda x, result: True)\ndef f(x):\n    return 1\n',
    'import deal\n\n@deal.raises(len)\ndef f():\n    raise ValueError\n',
    'import deal\n\n@deal.raises(print, 1, "a")\n@deal.has(1, None)\n@deal.pre()\n@deal.post()\ndef f():\n    raise ValueError\n    return 1\n',
    'import deal\n\n@deal.post(lambda x: x > 0)\ndef f():\n    return None\n',
    'import deal\n\n@deal.post(lambda x: x > 0)\ndef f():\n    return "a"\n',
    'import deal\n\n@deal.pre(lambda a, b: a > b)\ndef g(a, b=2, *c, d, **e):\n    return 1\n\n@deal.safe\ndef f():\n    return g(1, d=3) + g("x", 1, 2, d=None)\n',
    'import deal\n\n@deal.raises(ValueError)\ndef f(x):\n    raise KeyError  # noqa: DEL021\n\n@deal.safe\ndef g():\n    raise KeyError  # noqa\n\n@deal.safe\ndef h():\n    raise KeyError  # noqa: E501\n',
    'from deal import pre\nimport deal\n\n@deal.ensure(lambda x: x)\ndef f(x):\n    return x\n',
    'import deal\n\n@deal.has()\ndef f():\n    print(1); import os; open("a"); open("a", "w")\n',
    'import deal\n\n@deal.post(lambda r: r[0])\n@deal.post(lambda r: 1 / r)\n@deal.post(lambda r: r.x)\ndef f():\n    return 0\n    return ()\n    return {}\n    return -1\n',
    'import deal\n\nclass A:\n    @deal.pure\n    def m(self): pass\n    @staticmethod\n    @deal.pure\n    def s(): pass\n    @deal.has("custom")\n    def c(self):\n        return A.d(self)\n    @deal.has("other")\n    def d(self):\n        return 1\n',
    'import deal\n\n@deal.example(lambda: f(1) == 1)\n@deal.example(lambda: f("a", b=2) == None)\n@deal.pre(lambda a, b=1: a > 0)\n@deal.post(lambda r: r != 1)\n@deal.ensure(lambda a, b=1, result=0: result)\ndef f(a, b=1):\n    return a\n',
    'import deal\n\n@deal.pre(lambda x: undefined_name(x))\n@deal.post(lambda r: helper(r))\ndef f(x):\n    return 1\n\ndef helper(r):\n    raise ValueError\n\n@deal.safe\ndef g():\n    f(2)\n',
    'import deal\n\n@deal.safe\ndef f():\n    return 1 / 0\n\n@deal.safe\nasync def g():\n    yield 1\n    assert False\n',
    'import deal\n\n@deal.post(lambda r: r)\ndef f(x):\n    if x: return {[1]: 2}\n    if x > 1: return {[1, 2]}\n    if x > 2: return {{}: 1}\n    return {(1, [2]): 3}\n\n@deal.pre(lambda a: a)\ndef g(a): return a\n\n@deal.pure\ndef h():\n    return g({[1]: 2}) or g({[1]})\n',
    'import deal\n\n@deal.has()\ndef f():\n    n = 0\n    def inc():\n        nonlocal n\n        n += 1\n    inc()\n    return n\n\ndef g():\n    k = 0\n    def h():\n        nonlocal k\n        k = 1\n    h()\n\n@deal.pure\ndef p():\n    global Z\n    g()\n',
    'import deal\n\n@deal.post(lambda r: bool(r))\ndef f(x):\n    if x: return {}\n    return set()\n\n@deal.pre(lambda s: len(s) > 5)\ndef g(s):\n    return s\n\n@deal.pure\ndef h():\n    assert {}\n    return g("{:d}") + g("{0}{x}")\n',
    'import deal\n\n@deal.example(lambda: f(**{"a": 1}) == 1)\n@deal.example(lambda: f(*[1]) == 1)\n@deal.pre(lambda a: a > 0)\ndef f(a):\n    return a\n',
    'import deal\n\n@deal.safe\ndef f():\n    assert 0x' + 'f' * 5000 + '\n    return 0o' + '7' * 6000 + '\n',
    'import deal\n\ninherit = deal.inherit\n\nclass A:\n    @deal.pre(lambda self, x: x > 0)\n    def m(self, x):\n        return x\n\nclass B(A):\n    @deal.chain(deal.inherit, deal.safe)\n    def m(self, x):\n        return x\n\nclass C(A):\n    @inherit\n    def m(self, x):\n        return x\n\n@deal.chain(deal.inherit, deal.pure)\ndef loose(x):\n    return x\n\n@inherit\ndef loose2(x):\n    return x\n',
    'import deal\n\n@deal.raises()\ndef f():\n    raise\n    raise ValueError()()\n    raise (ValueError)\n    raise x.y.Z\n    raise lower()\n',
    # more findings than an exit status can hold (one byte): every entry point caps at 255 instead of wrapping around to 0
    'import deal\n' + ''.join(f'\n@deal.pure\ndef f{i}():\n    print({i})\n' for i in range(256)),
    # the row and the column of a finding come from the same node: expressions that continue on the next line
    'import deal\n\n@deal.raises()\ndef f(a):\n    return (a\n' + ' ' * 29 + '/ 0)\n',
    'import deal\n\n@deal.post(lambda r: r > 0)\ndef f():\n    return (\n' + ' ' * 40 + '-1)\n\n@deal.post(lambda r: r > 0)\ndef g():\n    yield (\n' + ' ' * 40 + '-1)\n',
    # a contract that exits when partially executed
    'import deal\n\n@deal.post(lambda r: exit(3))\ndef f():\n    return 1\n\n@deal.pre(lambda x: exit(4))\ndef g(x):\n    return 1\n\n@deal.pure\ndef h():\n    return g(1)\n',
    # contract dependencies that depend on each other (the order of their definitions matters: not the order of a set)
    'import deal\nLOW = 1\nHIGH = LOW + 10\nTOP = HIGH * 2\n\n@deal.post(lambda result: LOW < result < HIGH < TOP)\ndef f():\n    return 50\n',
    # integer literals beyond the str() conversion limit, hexadecimal: as a default, as a module-level definition, as a divisor
    'import deal\n\n@deal.pure\ndef f(x=0x' + 'f' * 5000 + '):\n    return x\n\n@deal.pure\ndef g():\n    return f(1)\n',
    'import deal\nBIG = 0x' + 'f' * 5000 + '\n\n@deal.post(lambda r: r < BIG)\ndef f():\n    return 1\n',
    'import deal\n\n@deal.safe\ndef f(x):\n    return x / 0x' + 'f' * 5000 + '\n',
    # ... and as a returned / asserted value
    'import deal\n\n@deal.post(lambda r: r > 0)\ndef f():\n    return 0x' + 'f' * 5000 + '\n\ndef g():\n    assert 0x' + 'f' * 5000 + '\n',
    # findings that come from a stub with several entries: the same order whatever the hash seed of the process
    'import deal\nimport base64\n\n@deal.raises()\n@deal.has()\ndef f(x):\n    return base64.b32decode(x)\n',
    # a declared source encoding other than UTF-8 (PEP 263)
    {'src': '# -*- coding: latin-1 -*-\nimport deal\n\n@deal.pure\ndef f():\n    print("caf\xe9")\n', 'encoding': 'latin-1'},
]
# contracts that come from another file (deal.inherit of a method of an imported class): every finding still lies inside the linted file
PAIR = [
    {'name': 'c16base.py', 'src': 'import deal\n' + '# padding\n' * 20 + '\n\nclass Base:\n    @deal.ensure(lambda self, x: x > 0)\n    @deal.example(lambda: Base().f(1) == 1)\n    @deal.post(lambda r: r != 13)\n    def f(self, x):\n        return x\n'},
    {'name': 'c16child.py', 'src': 'import deal\nfrom c16base import Base\n\n\nclass Child(Base):\n    @deal.inherit\n    def f(self, x):\n        return 13\n'},
]


def sprinkle(src, rnd):
    try:
        tree = ast.parse(src)
    except SyntaxError:
        return None
    lines = src.split('\n')
    spots = []
    for node in ast.walk(tree):
        if isinstance(node, (ast.FunctionDef, ast.AsyncFunctionDef)):
            first = min([d.lineno for d in node.decorator_list] + [node.lineno])
            spots.append((first, node.col_offset))
    rnd.shuffle(spots)
    for first, col in sorted(spots[:max(1, len(spots) // 2)], reverse=True):
        for _ in range(rnd.randint(1, 2)):
            lines.insert(first - 1, ' ' * col + rnd.choice(SPRINKLE))
    out = '\n'.join(lines)
    # import deal after a possible docstring / __future__ block: simplest is right before the first def/class at module level
    idx = next((i for i, l in enumerate(out.split('\n')) if l.startswith(('def ', 'class ', '@', 'async def '))), None)
    if idx is None: return None
    ls = out.split('\n'); ls.insert(idx, 'import deal'); out = '\n'.join(ls)
    try:
        ast.parse(out)
    except SyntaxError:
        return None
    return out


def corpus(tier, seed):
    import sysconfig
    rnd = random.Random(seed * 13 + 16)
    files = [dict(f, origin='pair') for f in PAIR]         # first: both land in the same directory
    repo = sorted(glob.glob(os.path.join(coq.REPO, 'deal', '**', '*.py'), recursive=True)) + sorted(glob.glob(os.path.join(coq.REPO, 'tests', '**', '*.py'), recursive=True))
    std = sorted(glob.glob(os.path.join(sysconfig.get_paths()['stdlib'], '*.py')))
    n_repo, n_std, n_gen = (60, 120, 400) if tier == 'thorough' else (10, 14, 60)
    pick = rnd.sample(repo, min(len(repo), n_repo)) + rnd.sample(std, min(len(std), n_std))
    for p in pick:
        try: s = open(p, encoding='utf8').read()
        except Exception: continue
        if s.count('\n') > 1500: continue
        files.append({'src': s, 'origin': os.path.relpath(p, '/')})
        sp = sprinkle(s, rnd)
        if sp: files.append({'src': sp, 'origin': os.path.relpath(p, '/') + ' +contracts'})
    for z in ZOO: files.append(dict(z, origin='zoo') if isinstance(z, dict) else {'src': z, 'origin': 'zoo'})
    cdir = os.path.join(coq.VERIF, 'corpus', 'C16')
    for f in sorted(glob.glob(os.path.join(cdir, '*.py'))): files.append({'src': open(f).read(), 'origin': 'corpus/' + os.path.basename(f)})
    for i in range(n_gen):
        files.append({'src': pygen.render(pygen.gen_module(rnd)), 'origin': 'generated'})
    for i, f in enumerate(files): f.setdefault('name', f'm{i:04d}.py')
    return files


def documented_codes():
    txt = open(os.path.join(coq.REPO, 'docs', 'basic', 'linter.md')).read()
    return {int(m) for m in re.findall(r'\|\s*DEL(\d{3})\s*\|', txt)}


def cerr(e):
    q = lambda s: '"' + str(s).replace('"', '""') + '"'
    v = 'None' if e[4] is None else f'(Some {q(e[4])})'
    return f'{{| e_row := {e[0]}; e_col := {e[1]}; e_code := {e[2]}; e_text := {q(e[3])}; e_value := {v} |}}'


def model_case(r):
    q = lambda s: '"' + str(s).replace('"', '""') + '"'
    noqa = 'fun r => ' + ''.join(f'if Nat.eqb r {row} then [{"; ".join(q(c) for c in codes)}] else ' for row, codes in sorted(r['noqa'].items(), key=lambda kv: int(kv[0])) if codes) + '[]'
    show = ('(join ";" (map (fun e => (show_nat (e_row e) ++ ":" ++ show_nat (e_col e) ++ ":" ++ show_nat (e_code e) ++ ":" ++ match e_value e with Some v => v | None => "" end)%string) '
            f'(get_errors ({noqa}) [{"; ".join(cerr(e) for e in r["rules"])}] [{"; ".join(cerr(e) for e in r["module_rules"])}])))')
    return show


def monitor(f, r, docs):
    out = []
    if r.get('invalid'): return out
    for backend in ('ast', 'astroid'):
        runs = r[backend]
        for k, x in enumerate(runs):
            if 'crash' in x:
                return [(f'the linter raised through the {backend} back-end: {x["crash"]} ... {x["where"][-300:]}', None)]
            if x.get('printed'): out.append((f'the linter printed to stdout ({backend} back-end): {x["printed"]!r}', None))
        if runs[0]['findings'] != runs[1]['findings']:
            out.append((f'two runs through the {backend} back-end differ', None))
        for e in runs[0]['findings']:
            row, col, code = e[0], e[1], e[2]
            if code not in docs: out.append((f'finding with undocumented code DEL{code:03d}: {e}', None))
            if not (1 <= row <= r['nlines']): out.append((f'row outside the file ({r["nlines"]} lines): {e} [{backend}]', None))
            elif not (0 <= col <= r['lens'][row - 1]): out.append((f'column outside the line (length {r["lens"][row - 1]}): {e} [{backend}]', None))
    if 'crash' in r.get('display_name', {}): out.append(('the linter raised for a file name that does not exist on the disk (flake8 --stdin-display-name): ' + r['display_name']['crash'], None))
    if 'run_crash' in r: out.append(('Checker.run() raised: ' + r['run_crash'], None))
    elif 'findings' in r['astroid'][0]:
        want = [[e[0], e[1]] for e in r['astroid'][0]['findings']]
        if [[t[0], t[1]] for t in r['run']] != want or any(t[3] != 'Checker' for t in r['run']):
            out.append((f'Checker.run() (flake8 interface) disagrees with get_errors(): {r["run"][:3]} vs {want[:3]}', None))
    if 'rules_crash' in r: out.append(('a rule raised when called directly: ' + r['rules_crash'], None))
    return out[:5]


def run(ctx, fr, model_available=True, files=None):
    files = files if files is not None else corpus(ctx.tier, ctx.seed)
    docs = documented_codes()
    res, cli = [], []
    for i in range(0, len(files), 40):
        part = files[i:i + 40]
        o = impl.run_impl('c16_lint.py', {'files': [{k: f[k] for k in ('name', 'src', 'encoding') if k in f} for f in part], 'cli': True}, timeout=2400)
        res += o['files']; cli.append((part, o))
    dist = {'files': len(files), 'with_findings': 0, 'findings': 0, 'invalid': 0}
    for f, r in zip(files, res):
        fr.evaluations += 1
        if r.get('invalid'): dist['invalid'] += 1; continue
        n = len(r['astroid'][0].get('findings', []))
        dist['findings'] += n
        if n: dist['with_findings'] += 1; fr.add_nontrivial({'origin': f['origin'], 'name': f['name'], 'n': n})
        for what, tag in monitor(f, r, docs):
            fr.violations.append({'scenario': {'origin': f['origin'], 'src': f['src'] if len(f['src']) < 4000 else f['src'][:4000]}, 'impl': None, 'what': what, 'signature': tag})
    # the CLI: exit status = printed findings = JSON records = API findings
    for part, o in cli:
        api = sum(len(r['as_cli'].get('findings', [])) for r in o['files'] if not r.get('invalid'))
        if o.get('json') and o.get('json1') and o['json']['stdout'] != o['json1']['stdout']:
            a, b = o['json']['stdout'].split('\n'), o['json1']['stdout'].split('\n')
            k = next((i for i, (x, y) in enumerate(zip(a, b)) if x != y), min(len(a), len(b)))
            fr.violations.append({'scenario': {'origin': 'cli json, two hash seeds', 'files': [f['origin'] for f in part]}, 'impl': [a[k:k + 2], b[k:k + 2]], 'signature': None,
                                  'what': f'python -m deal lint --json prints different output under PYTHONHASHSEED=0 and =1; first difference: {a[k][:160] if k < len(a) else None} / {b[k][:160] if k < len(b) else None}'})
        for mode in ('json', 'plain', 'alias'):
            c = o.get(mode)
            if c is None: continue
            if c['stderr'].strip() and 'Traceback' in c['stderr']:
                fr.violations.append({'scenario': {'origin': 'cli ' + mode, 'files': [f['origin'] for f in part]}, 'impl': c['stderr'], 'what': f'python -m deal lint ({mode}) raised: {c["stderr"][-400:]}', 'signature': None}); continue
            if mode == 'json':
                recs = [json.loads(l) for l in c['stdout'].split('\n') if l.strip()]
                n = len(recs)
            else:
                n = len([l for l in c['stdout'].split('\n') if re.match(r'^  \d+:\d+ DEL\d{3} ', l)])
            if n != api:
                fr.violations.append({'scenario': {'origin': 'cli ' + mode, 'files': [f['origin'] for f in part]}, 'impl': c['stdout'][:500], 'what': f'the CLI ({mode}) printed {n} findings; the API reports {api}', 'signature': None})
            if c['status'] != min(n, 255):
                fr.violations.append({'scenario': {'origin': 'cli ' + mode, 'files': [f['origin'] for f in part]}, 'impl': c['status'], 'what': f'the CLI ({mode}) exit status is {c["status"]} for {n} printed findings', 'signature': None})
    # the driver model on the rule-level findings
    if model_available:
        idx = [i for i, r in enumerate(res) if 'rules' in r and 'findings' in r['astroid'][0] and len(r['rules']) < 400]
        for lo in range(0, len(idx), 100):
            part = idx[lo:lo + 100]
            text = ('From Coq Require Import List String Arith.\nImport ListNotations.\nFrom Deal Require Import Show LintDriver.\nOpen Scope string_scope.\n'
                    + ''.join(f'Eval vm_compute in {model_case(res[i])}.\n' for i in part))
            ok, outp = coq.eval_cases(f'C16_{lo}', text)
            strs = coq.parse_strings(outp) if ok else []
            if len(strs) != len(part):
                fr.errors.append(f'C16 cases failed ({len(strs)} of {len(part)}): ' + outp[-1500:]); continue
            for i, s in zip(part, strs):
                fr.programs += 1; fr.traces_validated += 1
                want = ';'.join(f'{e[0]}:{e[1]}:{e[2]}:{"" if e[4] is None else e[4]}' for e in res[i]['astroid'][0]['findings'])
                if s != want:
                    fr.disagreements.append({'scenario': {'origin': files[i]['origin'], 'src': files[i]['src'][:3000]}, 'model': s[:1500], 'impl': want[:1500]})
    fr.rule = RULE
    fr.samples.append({'origin': files[0]['origin'], 'findings': res[0].get('astroid', [{}])[0].get('findings', [])[:5]})
    fr.distribution = dist


def search(ctx, fr, model_available=True):
    # two further quick-sized corpora (other files of the repository / standard library, other generated modules)
    for k in (1, 2):
        class C2: tier = 'quick'; seed = ctx.seed + 100 * k
        fr2 = type(fr)()
        run(C2, fr2, model_available=False)
        fr.violations += fr2.violations; fr.evaluations += fr2.evaluations
        if fr2.violations: return


def classify(v, findings):
    for f in findings:
        if f.get('status') == 'open' and f.get('signature') and f['signature'] == v.get('signature'):
            return f['id']
    return None
