"""C12 -- dispatch runs the first implementation whose preconditions accept the call. Family F-disp."""
from __future__ import annotations
import random, json, sys
from ..harness import scn, gen, obs as O, pyeval
from . import base_scn

pid = 'C12'
gen_modules = ['tr_state', 'tr_validators', 'tr_has_patcher', 'tr_contracts', 'tr_dispatch', 'tr_decorators', 'tr_pin_contracts', 'tr_rest_validators', 'tr_rest_patcher', 'tr_rest_state', 'tr_rest_dispatch', 'tr_rest_contractsconst', 'tr_rest_decorators']
model_targets = ['Sem/Scenario.v']
hand_modelled = ['functools.update_wrapper on the Dispatch object: not modelled']
explanation = ('Theorems on the generated Dispatch.__call__ for every registry and function table; correspondence + monitor over random registries '
               '(0-5 implementations, overlapping guards, uncontracted default at any position, stacked preconditions, custom-typed precondition '
               'errors, implementations that call other contracted functions), both switch positions.')
N_QUICK, N_THOROUGH = 400, 3000
RULE = ('0-5 implementations over signature (x) / (x, y), each with 0-3 preconditions (some with custom exception types), an uncontracted default at a '
        'random position, bodies that return a tag, raise, or call a nested contracted function whose precondition may fail; calls with the switch on '
        'and off; non-trivial = at least two implementations registered and a call made')
I = lambda n: {'i': n}


def make(rnd, k):
    ids = gen.Ids()
    sig = [['x', 'PosOrKw', None]]
    funs = [{'name': 'inner', 'kind': 'sync', 'sig': sig,
             'stack': [['pre', {'id': ids(), 'sig': sig, 'expr': ['bin', 'gt', ['var', 'x'], ['const', I(2)]], 'msg': None, 'exc': None}]],
             'body': [['return', ['var', 'x']]]}]
    n = rnd.choice([0, 1, 2, 3, 3, 4, 5])
    impls = []
    for i in range(n):
        name = f'impl{i}'
        stack = []
        if rnd.random() < .85:
            for _ in range(rnd.choice([1, 1, 2, 3])):
                exc = None
                r = rnd.random()
                if r < .12: exc = ['class', scn.cls('ValueError')]
                elif r < .2: exc = ['class', scn.cls('MyPre', [scn.cls('PreContractError')])]
                e = ['bin', rnd.choice(['gt', 'ge', 'eq', 'ne']), ['var', 'x'], ['const', I(rnd.randint(0, 4))]]
                stack.append(['pre', {'id': ids(), 'sig': rnd.choice([sig, [['_', 'PosOrKw', None]]]) if False else sig, 'expr': e, 'msg': None, 'exc': exc}])
            if rnd.random() < .2:
                stack.append(['post', {'id': ids(), 'sig': [['result', 'PosOrKw', None]], 'expr': ['const', {'b': True}], 'msg': None, 'exc': None}])
        body = []
        r = rnd.random()
        if r < .2: body.append(['call', 'inner', [['var', 'x']], []])
        elif r < .3: body.append(['raise', scn.cls(rnd.choice(['ValueError', 'PreContractError'])), 100 + i])
        body.append(['return', ['const', I(10 + i)]])
        funs.append({'name': name, 'kind': 'sync', 'sig': sig, 'stack': stack, 'body': body})
        impls.append(name)
    # an implementation may call a sibling implementation registered in the same dispatcher (directly, not through the dispatcher)
    simple = [f['name'] for f in funs[1:] if f['body'][0][0] != 'call']
    for f in funs[1:]:
        if f['body'][0][0] == 'call' and rnd.random() < .5:
            cand = [n for n in simple if n != f['name']]
            if cand: f['body'][0] = ['call', rnd.choice(cand), [['var', 'x']], []]
    driver = []
    for _ in range(rnd.randint(2, 4)):
        if rnd.random() < .2: driver.append(['switch', rnd.choice(['disable', 'enable'])])
        driver.append(['call', 'd', [I(rnd.randint(-1, 5))], []])
    return {'funs': funs, 'dispatch': [['d', impls]], 'driver': driver}


def monitor(sc, obs):
    acts = O.split(obs)
    if acts is None:
        return [('harness/observation error: ' + str(obs)[:200], None)]
    funs = {f['name']: f for f in sc['funs']}
    impls = sc['dispatch'][0][1]
    out = []
    enabled = True
    for a, act in zip(sc['driver'], acts):
        if a[0] == 'switch':
            enabled = a[1] == 'enable'; continue
        x = a[2][0]['i']
        want_snap = 'S ' + ('1' if enabled else '0') + '0111'
        if act.snap != want_snap:
            out.append((f'the switch / streams were not left as found after dispatch: {act.snap!r}, expected {want_snap!r}', None)); break
        chosen, failures = None, []
        for name in impls:
            f = funs[name]
            pres = [it[1] for it in f['stack'] if it[0] == 'pre']
            rej = None
            for v in pres:
                r = pyeval.verdict(v, f['sig'], a[2], [])
                if r[0] != 'accept': rej = v; break
            if rej is None:
                chosen = name; break
            cname = rej['exc'][1]['name'] if rej['exc'] else 'PreContractError'
            if cname not in ('PreContractError', 'MyPre'):
                chosen = ('custom', name, cname); break      # custom-typed precondition errors propagate
            failures.append(name)
        bodies = [e.split(' ')[1] for e in act.bodies() if e.split(' ')[1].startswith('impl')]
        if chosen is None:
            if not (act.kind == 'X' and act.exc_class == 'NoMatchError'):
                out.append((f'no implementation accepts x={x}: expected NoMatchError, got {act.outcome!r}', None)); break
            want = '(' + ','.join(f's<{n}>' for n in failures) + ')'
            if f'args=[{want}]' not in act.outcome:
                out.append((f'NoMatchError should list one failure per implementation in order {want}; {act.outcome!r}', None)); break
            if bodies:
                out.append((f'no implementation matches but bodies ran: {bodies}', None)); break
        elif isinstance(chosen, tuple):
            if not (act.kind == 'X' and act.exc_class == chosen[2]):
                out.append((f'custom-typed precondition error {chosen[2]} of {chosen[1]} should propagate; got {act.outcome!r}', None)); break
            if bodies:
                out.append((f'bodies ran although {chosen[1]} raised its custom precondition error: {bodies}', None)); break
        else:
            f = funs[chosen]
            first = f['body'][0]
            if first[0] == 'call' and first[1] != 'inner':
                # a direct call of a sibling implementation: its own contracts decide, and its precondition error is not a dispatch mismatch
                g = funs[first[1]]
                rej = None
                for v in [it[1] for it in g['stack'] if it[0] == 'pre']:
                    if pyeval.verdict(v, g['sig'], a[2], [])[0] != 'accept': rej = v; break
                if rej is not None:
                    cname = rej['exc'][1]['name'] if rej['exc'] else 'PreContractError'
                    if bodies != [chosen] or not (act.kind == 'X' and act.exc_class == cname):
                        out.append((f'x={x}: {chosen} calls its sibling {first[1]} whose precondition rejects: that error should propagate with only {chosen} entered; '
                                    f'bodies {bodies}, outcome {act.outcome!r}', None)); break
                else:
                    gfirst = g['body'][0]
                    if bodies != [chosen, first[1]]:
                        out.append((f'x={x}: {chosen} calls its sibling {first[1]} which accepts; bodies entered: {bodies}; outcome {act.outcome!r}', None)); break
                    if gfirst[0] == 'raise' and not (act.kind == 'X' and act.field('tag') == str(gfirst[2])):
                        out.append((f'{first[1]} raises tag {gfirst[2]} inside {chosen}; the dispatched call gave {act.outcome!r}', None)); break
                    if gfirst[0] == 'return' and not (act.kind == 'R' and act.value == f'i{f["body"][1][1][1]["i"]}'):
                        out.append((f'{chosen} returns after its sibling call; the dispatched call gave {act.outcome!r}', None)); break
                continue
            if bodies != [chosen]:
                out.append((f'x={x}: the first accepting implementation is {chosen}; bodies entered: {bodies}; outcome {act.outcome!r}', None)); break
            if first[0] == 'return' and not (act.kind == 'R' and act.value == f'i{first[1][1]["i"]}'):
                out.append((f'{chosen} returns {first[1][1]["i"]} but the dispatched call gave {act.outcome!r}', None)); break
            if first[0] == 'raise' and not (act.kind == 'X' and act.field('tag') == str(first[2])):
                out.append((f'{chosen} raises tag {first[2]}; the dispatched call gave {act.outcome!r}', None)); break
            if first[0] == 'call':
                if x > 2 and not (act.kind == 'R'):
                    out.append((f'{chosen} calls inner({x}) which accepts; outcome {act.outcome!r}', None)); break
                if x <= 2 and not (act.kind == 'X' and act.exc_class == 'PreContractError' and 'origin=inner' in act.outcome):
                    out.append((f'the precondition error of the deeper call inner({x}) should propagate; got {act.outcome!r}', None)); break
    return out


def nontrivial(sc, obs):
    return len(sc['dispatch'][0][1]) >= 2


def features(sc, obs):
    return ['impls=%d' % len(sc['dispatch'][0][1]), 'nomatch' if 'NoMatchError' in obs else 'match']


_me = sys.modules[__name__]
WRAPPED_SRC = r"""
import deal, functools, random
__name__ = "c12_wrapped_probe"
def probe(seed):
    # implementations that are themselves wrapped callables (functools.lru_cache, a wraps-style decorator) below their guards, guards in
    # explicit and `_` form, both switch positions: the first implementation whose guard accepts runs, no other body is entered
    rnd = random.Random(seed)
    bad = []
    def logged(fn):
        @functools.wraps(fn)
        def w(*a, **k): return fn(*a, **k)
        return w
    for _ in range(40):
        n = rnd.randint(1, 4)
        lows = [rnd.randint(0, 6) for _ in range(n)]; highs = [l + rnd.randint(0, 4) for l in lows]
        forms = [rnd.choice(["explicit", "short"]) for _ in range(n)]
        layers = [rnd.choice([None, "lru", "wraps"]) for _ in range(n)]
        entered = []
        @deal.dispatch
        def d(x): raise NotImplementedError
        for i in range(n):
            def impl(x, i=i):
                entered.append(i); return ("impl", i, x)
            if layers[i] == "lru": impl = functools.lru_cache(None)(impl)
            elif layers[i] == "wraps": impl = logged(impl)
            lo, hi = lows[i], highs[i]
            guard = (lambda lo, hi: (lambda x: lo <= x <= hi))(lo, hi) if forms[i] == "explicit" else (lambda lo, hi: (lambda _: lo <= _.x <= hi))(lo, hi)
            d.register(deal.pre(guard)(impl))
        for enabled in (True, False):
            (deal.enable if enabled else deal.disable)()
            for x in range(-1, 12):
                del entered[:]
                for i in range(n):
                    if layers[i] == "lru":
                        pass
                try: got = d(x)
                except deal.NoMatchError as e: got = ("nomatch", len(e.exceptions))
                except BaseException as e: got = ("exc", type(e).__name__)
                first = next((i for i in range(n) if lows[i] <= x <= highs[i]), None)
                want = ("impl", first, x) if first is not None else ("nomatch", n)
                # an lru_cache'd body is not re-entered for a repeated argument: only "no OTHER body" is required
                if got != want or any(i != first for i in entered):
                    bad.append([lows, highs, forms, layers, enabled, x, list(got), list(want), list(entered)])
        deal.enable()
    return bad

def shared_contract():
    # C12-F1 (root cause C09-F1): a precondition OBJECT shared between an implementation and an unrelated function
    positive = deal.pre(lambda x: x > 0)
    @deal.dispatch
    def f(x): raise NotImplementedError
    @f.register
    @positive
    def impl(x): return "impl"
    @f.register
    def fallback(x): return "fallback"
    out = {}
    def call(x):
        try: return f(x)
        except deal.PreContractError: return "PreContractError"
        except BaseException as e: return type(e).__name__
    out["before"] = [call(1), call(-1)]
    @positive
    def unrelated(x): return x
    out["after"] = [call(1), call(-1)]
    return out

def nested(seed):
    # a dispatched call made from inside a precondition of an implementation that is itself being dispatched (deal switches contracts
    # off while a validator runs; dispatch works with contracts off): the nested call still runs the first implementation whose guard
    # accepts and enters no other body, under both switch positions, and the switch is left as it was
    from deal._state import state
    rnd = random.Random(seed)
    bad = []
    for _ in range(30):
        n = rnd.randint(2, 4)
        lows = [rnd.randint(0, 6) for _ in range(n)]; highs = [l + rnd.randint(0, 4) for l in lows]
        entered = []
        @deal.dispatch
        def inner(x): raise NotImplementedError
        for i in range(n):
            def impl(x, i=i):
                entered.append(i); return i
            inner.register(deal.pre((lambda lo, hi: (lambda x: lo <= x <= hi))(lows[i], highs[i]))(impl))
        def ref(x): return next((i for i in range(n) if lows[i] <= x <= highs[i]), None)
        def safe_inner(x):
            try: return inner(x)
            except deal.NoMatchError: return None
        k = rnd.randint(0, n - 1)
        @deal.dispatch
        def outer(x): raise NotImplementedError
        @outer.register
        @deal.pre(lambda x: safe_inner(x) == k)
        def _a(x): return ("a", x)
        @outer.register
        def _b(x): return ("b", x)
        for enabled in (True, False):
            (deal.enable if enabled else deal.disable)()
            for x in range(-1, 12):
                del entered[:]
                try: got = outer(x)
                except BaseException as e: got = ("exc", type(e).__name__)
                want = ("a", x) if ref(x) == k else ("b", x)
                want_entered = [ref(x)] if ref(x) is not None else []
                if got != want or entered != want_entered or state.debug is not enabled:
                    bad.append([lows, highs, k, enabled, x, list(got), list(want), list(entered), want_entered, state.debug])
        deal.enable()
    return bad
"""


def run(ctx, fr, model_available=True):
    base_scn.run(_me, ctx, fr, model_available)
    from ..harness import impl
    r = impl.run_impl('pyexec.py', {'src': WRAPPED_SRC, 'calls': [['shared_contract', []]]})[0]
    fr.evaluations += 4; fr.samples.append({'family': 'precondition object shared with an unrelated function', 'result': r})
    if not isinstance(r, dict) or r.get('before') != ['impl', 'fallback']:
        fr.violations.append({'scenario': {'family': 'shared-contract-object'}, 'impl': r, 'signature': None,
                              'what': f'dispatch over an implementation guarded by a named precondition object: expected impl / fallback, got {r}'})
    elif r.get('after') != ['impl', 'fallback']:
        fr.violations.append({'scenario': {'family': 'shared-contract-object'}, 'impl': r, 'signature': 'shared_contract_object_origin',
                              'what': f'after the same precondition object was applied to an unrelated function the mismatch of the first implementation is no longer recognised: f(1), f(-1) = {r.get("after")}, expected impl / fallback'})
    r = impl.run_impl('pyexec.py', {'src': WRAPPED_SRC, 'calls': [['nested', [ctx.seed]]]})[0]
    fr.evaluations += 30 * 26; fr.add_nontrivial({'nested_probe': ctx.seed})
    fr.samples.append({'family': 'dispatch from inside a precondition of a dispatched implementation', 'deviations': r if isinstance(r, dict) else len(r)})
    if isinstance(r, dict): fr.errors.append('C12 nested probe failed: ' + str(r)[:400])
    elif r:
        fr.violations.append({'scenario': {'family': 'nested-dispatch-in-validator', 'seed': ctx.seed, 'case': r[0]}, 'impl': r[:3], 'signature': None,
                              'what': f'[lows, highs, k, enabled, x, got, expected, inner bodies entered, expected, switch afterwards] = {r[0]}'})
    r = impl.run_impl('pyexec.py', {'src': WRAPPED_SRC, 'calls': [['probe', [ctx.seed]]]})[0]
    fr.evaluations += 40; fr.add_nontrivial({'wrapped_probe': ctx.seed})
    fr.samples.append({'family': 'dispatch over wrapped implementations', 'deviations': r if isinstance(r, dict) else len(r)})
    if isinstance(r, dict): fr.errors.append('C12 wrapped probe failed: ' + str(r)[:400])
    elif r:
        fr.violations.append({'scenario': {'family': 'wrapped-implementations', 'seed': ctx.seed, 'case': r[0]}, 'impl': r[:3], 'signature': None,
                              'what': f'[lows, highs, guard forms, layers, enabled, x, got, expected, bodies entered] = {r[0]}'})
def search(ctx, fr, model_available=True): return base_scn.search(_me, ctx, fr, model_available)
classify = base_scn.classify
