"""C02 -- no value reaches the caller unless post and ensure accept it. Family F-call (post/ensure stacks) + F-gen."""
from __future__ import annotations
import random, json, sys
from ..harness import scn, gen, obs as O, pyeval
from . import base_scn

pid = 'C02'
gen_modules = ['tr_state', 'tr_validators', 'tr_has_patcher', 'tr_contracts', 'tr_decorators', 'tr_pin_contracts', 'tr_rest_validators', 'tr_rest_patcher', 'tr_rest_state', 'tr_rest_contractsconst', 'tr_pin_inherit']
model_targets = ['Sem/Scenario.v']
hand_modelled = ['coq/Py/Sig.v', 'coq/Sem/Model.v: Validator.init mode selection, calling a raw validator']
explanation = ('Theorems about the post-validation block of the generated wrappers (every registry, validators, result value); '
               'correspondence + monitor on random post/ensure stacks, result values of every kind, generator yield sequences.')
N_QUICK, N_THOROUGH = 400, 3000
RULE = ('random signature, 0-1 precondition, 1-3 post/ensure contracts (explicit, `_`, message-returning, custom exceptions), result values '
        'including falsy / None / containers / message-like strings; sync, async and generators (2-4 yields, offending value at any position, '
        'effect markers between yields to observe resumption); non-trivial = a post/ensure validator was invoked')

RESULTS = [{'i': 5}, {'i': 0}, {'i': -2}, 'N', {'s': ''}, {'s': 'bad value'}, {'b': False}, {'b': True}, {'t': []}, {'t': [{'i': 1}]}, {'d': []}, {'i': 3}, {'i': 7}]


def make(rnd, k):
    ids = gen.Ids()
    fsig = gen.gen_sig(rnd, maxp=3)
    kind = rnd.choice(['sync', 'sync', 'async', 'gen', 'gen'])
    stack = []
    for _ in range(rnd.randint(1, 3)):
        if rnd.random() < .55:
            form = 'short' if rnd.random() < .08 else 'explicit'
            stack.append(['post', gen.gen_sval(rnd, ids, fsig, form=form, result_only=True, raising=.04)])
        else:
            stack.append(['ensure', gen.gen_sval(rnd, ids, fsig, extra_names=['result'], raising=.04)])
    if rnd.random() < .3:
        stack.append(['pre', gen.gen_sval(rnd, ids, fsig)])
    rnd.shuffle(stack)
    params = [p[0] for p in fsig if p[1] in ('PosOnly', 'PosOrKw', 'KwOnly')]
    def result_expr():
        if params and rnd.random() < .5: return ['var', rnd.choice(params)]
        return ['const', rnd.choice(RESULTS)]
    if kind == 'gen':
        body = []
        for j in range(rnd.randint(2, 4)):
            body += [['yield', result_expr()], ['effect', 'out']]
        body.append(['return', ['const', {'i': 99}]])
    else:
        body = [['return', result_expr()]]
    driver = []
    for j in range(rnd.randint(2, 3)):
        a, kw = gen.gen_call(rnd, fsig, malformed=.05)
        if kind == 'gen':
            driver += [['gennew', j, 'f', a, kw]] + [['next', j]] * (len(body) // 2 + 1)
        else:
            driver.append(['call', 'f', a, kw])
    if kind == 'gen' and rnd.random() < .3:
        # the switch is turned off and on again around one step of a running generator: once contracts are enabled again every
        # value still has to pass post / ensure
        later = [i for i, a in enumerate(driver) if a[0] == 'next' and i > 0 and driver[i - 1][0] == 'next']
        if later:
            i = rnd.choice(later)
            driver[i:i + 1] = [['switch', 'disable'], driver[i], ['switch', 'enable']]
    funs = [{'name': 'f', 'kind': kind, 'sig': fsig, 'stack': stack, 'body': body}]
    if any(p[2] is not None and 'i' in p[2] for p in fsig) and rnd.random() < .25:
        # a second function made from the same `def` (it shares the code object) with other default values, as a factory would make it
        import copy
        gsig = [[p[0], p[1], ({'i': p[2]['i'] + 7} if (p[2] is not None and 'i' in p[2]) else p[2])] for p in fsig]
        gstack = copy.deepcopy(stack)
        for it in gstack:
            it[1]['id'] = ids()
            if [p[0] for p in it[1]['sig']] not in (['_'], ['result']):
                it[1]['sig'] = [[p[0], p[1], next((q[2] for q in gsig if q[0] == p[0]), p[2])] for p in it[1]['sig']]
        funs.append({'name': 'g', 'kind': kind, 'sig': gsig, 'stack': gstack, 'body': body, 'clone_of': 'f'})
        extra = []
        for j, a in enumerate([x for x in driver if x[0] in ('call', 'gennew')]):
            if a[0] == 'call': extra.append(['call', 'g', a[2], a[3]])
            else: extra += [['gennew', 20 + j, 'g', a[3], a[4]]] + [['next', 20 + j]] * (len(body) // 2 + 1)
        driver += extra
    return {'funs': funs, 'driver': driver}


def to_json(v):
    import inspect
    if v is None: return 'N'
    if v is inspect._empty: return 'E'
    if isinstance(v, bool): return {'b': v}
    if isinstance(v, int): return {'i': v}
    if isinstance(v, str): return {'s': v}
    if isinstance(v, tuple): return {'t': [to_json(x) for x in v]}
    if isinstance(v, dict): return {'d': [[k, to_json(x)] for k, x in v.items()]}
    raise ValueError(v)


def configured(v, default):
    return v['exc'][1]['name'] if v['exc'] else default


def judge(f, args, kws, value):
    """reference: is `value` delivered? returns (True, None, tag) or (False, expected exception class, tag)"""
    vj = to_json(value)
    posts = [it[1] for it in f['stack'] if it[0] == 'post']
    ensures = [it[1] for it in f['stack'] if it[0] == 'ensure']
    tag = None
    if any([p[0] for p in v['sig']] == ['_'] for v in posts):
        tag = 'post_short'
    if any(n == 'result' for n, _ in kws):
        tag = 'keyword_named_result'
    posonly = {p[0] for p in f['sig'] if p[1] == 'PosOnly'}
    if any(n in posonly for n, _ in kws) and any(p[1] == 'VarKw' for p in f['sig']) and ensures:
        # a valid call that inspect.Signature.bind rejects: a `_`-form ensure raises TypeError, and so does the construction of the
        # violation error of an explicit one (C01-F2 seen from here)
        tag = tag or 'posonly_name_as_keyword'
    for v in posts:
        r = pyeval.verdict(v, None, [], [], args_override=[vj]) if [p[0] for p in v['sig']] != ['_'] else \
            pyeval.verdict(v, None, [], [['result', vj]])
        if r[0] != 'accept':
            return False, (configured(v, 'PostContractError') if r[0] == 'reject' else r[1]), tag
    for v in ensures:
        r = pyeval.verdict(v, f['sig'], args, kws, extra_kw=[['result', vj]])
        if r[0] != 'accept':
            return False, (configured(v, 'PostContractError') if r[0] == 'reject' else r[1]), tag
    return True, None, tag


def monitor(sc, obs):
    acts = O.split(obs)
    if acts is None:
        return [('harness/observation error: ' + str(obs)[:200], None)]
    owner = {a[1]: a[2] for a in sc['driver'] if a[0] == 'gennew'}
    out = []
    enabled, flags = True, []
    for a in sc['driver']:
        if a[0] == 'switch': enabled = a[1] in ('enable', 'reset')
        flags.append(enabled)
    for f in sc['funs']:
        mine = [(a + [{'enabled': en}] if not en else a, act) for a, act, en in zip(sc['driver'], acts, flags)
                if (a[0] == 'call' and a[1] == f['name']) or (a[0] == 'gennew' and a[2] == f['name']) or (a[0] == 'next' and owner.get(a[1]) == f['name'])]
        out += monitor_one(f, mine)
    return out


def monitor_one(f, pairs):
    pres = [it[1] for it in f['stack'] if it[0] == 'pre']
    out = []
    gens = {}      # var -> dict(args, kws, binding, idx, dead)
    for a, act in pairs:
        if a[0] == 'gennew':
            gens[a[1]] = {'args': a[3], 'kws': a[4], 'idx': 0, 'dead': False, 'started': False}
            continue
        if isinstance(a[-1], dict) and a[-1].get('enabled') is False:
            # contracts are switched off: nothing is claimed about this step (C07's subject); keep track of where the generator is
            if a[0] == 'next':
                g = gens[a[1]]
                if act.kind == 'Y': g['idx'] += 1; g['started'] = True
                else: g['dead'] = True; g['tag'] = 'body_not_started'
            continue
        if a[0] == 'next':
            g = gens[a[1]]; args, kws = g['args'], g['kws']
        else:
            args, kws = a[2], a[3]
        b = pyeval.own_binding(f['sig'], args, kws)
        if b is None:
            continue      # C01's business
        if any(pyeval.verdict(v, f['sig'], args, kws)[0] != 'accept' for v in pres):
            if a[0] == 'next': g['dead'] = True
            continue      # C01's business
        # whatever keeps the body from starting (a precondition stage that rejects or crashes) is C01's subject
        if a[0] == 'call' and not act.bodies():
            continue
        if a[0] == 'next' and not g['started']:
            if not act.bodies():
                g['dead'] = True; g['tag'] = 'body_not_started'
                continue
            g['started'] = True
        if a[0] == 'call':
            expr = f['body'][0][1]
            value = pyeval.ev(expr, b)
            ok, exc, tag = judge(f, args, kws, value)
            if ok:
                if not (act.kind == 'R' and act.value == pyeval.show(value)):
                    out.append((f'post/ensure accept {pyeval.show(value)} but the caller got {act.outcome!r}', tag))
            else:
                if act.kind in ('R', 'Y'):
                    out.append((f'value {act.value} reached the caller although a post/ensure contract rejects it (expected {exc})', tag))
                elif act.exc_class != exc:
                    out.append((f'rejected result should raise {exc}; outcome {act.outcome!r}', tag))
        else:
            yields = [s[1] for s in f['body'] if s[0] == 'yield']
            if g['dead']:
                if act.kind in ('Y',) or act.bodies() or act.effects():
                    if g.get('tag') != 'body_not_started': out.append((f'generator was resumed / produced {act.outcome!r} after one of its values was rejected', g.get('tag')))
                continue
            if g['idx'] >= len(yields):
                g['dead'] = True
                continue      # StopIteration: C06's business (return value)
            value = pyeval.ev(yields[g['idx']], b); g['idx'] += 1
            ok, exc, tag = judge(f, args, kws, value)
            if ok:
                if not (act.kind == 'Y' and act.value == pyeval.show(value)):
                    out.append((f'post/ensure accept yielded {pyeval.show(value)} but the consumer got {act.outcome!r}', tag))
            else:
                g['dead'] = True; g['tag'] = tag      # what follows is a consequence of this rejection
                if act.kind in ('R', 'Y'):
                    out.append((f'yielded value {act.value} reached the consumer although a post/ensure contract rejects it (expected {exc})', tag))
                elif act.exc_class != exc:
                    out.append((f'rejected yielded value should raise {exc}; outcome {act.outcome!r}', tag))
    return out


def nontrivial(sc, obs):
    acts = O.split(obs) or []
    ids = {it[1]['id'] for it in sc['funs'][0]['stack'] if it[0] in ('post', 'ensure')}
    return any(set(a.validators()) & ids for a in acts)


def features(sc, obs):
    return ['kind=' + sc['funs'][0]['kind']]


_me = sys.modules[__name__]
INHERIT_SRC = r"""
import deal, asyncio, random
__name__ = "c02_inherit_probe"

def probe(seed):
    # post / ensure contracts that reach a method through deal.inherit (on the method or on the class) judge its results like its own
    rnd = random.Random(seed)
    bad = []
    for _ in range(40):
        lim = rnd.randint(1, 8)
        kind = rnd.choice(["sync", "async", "gen"])
        how = rnd.choice(["method", "class"])
        base_kind = rnd.choice(["post", "ensure", "both"])
        def deco(fn):
            if base_kind in ("ensure", "both"): fn = deal.ensure(lambda _: _.result < lim)(fn)
            if base_kind in ("post", "both"): fn = deal.post(lambda r: r != lim + 100)(fn)
            return fn
        if kind == "sync":
            class Base:
                @deco
                def m(self, x): return 0
            def m(self, x): return x
        elif kind == "async":
            class Base:
                @deco
                async def m(self, x): return 0
            async def m(self, x): return x
        else:
            class Base:
                @deco
                def m(self, x): yield 0
            def m(self, x):
                yield 0
                yield x
                yield -1
        Child = type("Child", (Base,), {"m": deal.inherit(m) if how == "method" else m})
        if how == "class": Child = deal.inherit(Child)
        for x in (lim - 1, lim, lim + 100, lim + 3):
            rejected = (base_kind in ("ensure", "both") and not x < lim) or (base_kind in ("post", "both") and x == lim + 100)
            delivered, err = [], None
            try:
                if kind == "sync": delivered.append(Child().m(x))
                elif kind == "async": delivered.append(asyncio.run(Child().m(x)))
                else:
                    for v in Child().m(x): delivered.append(v)
            except deal.PostContractError: err = "PostContractError"
            except BaseException as e: err = type(e).__name__
            got_x = x in delivered
            after = kind == "gen" and -1 in delivered
            if rejected and (got_x or after or err != "PostContractError"):
                bad.append([kind, how, base_kind, lim, x, delivered, err])
            if not rejected and (not got_x or err is not None):
                bad.append([kind, how, base_kind, lim, x, delivered, err])
    # callables that are generator / coroutine functions without being plain functions: functools.partial objects
    import functools
    def gen_fn(k, xs):
        for x in xs: yield x
    async def co_fn(k, x): return x
    pg = deal.post(lambda r: r is not None)(functools.partial(gen_fn, 1))
    pc = deal.post(lambda r: r is not None)(functools.partial(co_fn, 1))
    delivered, err = [], None
    try:
        for v in pg([10, 20, None, 40]): delivered.append(v)
    except deal.PostContractError: err = "PostContractError"
    except BaseException as e: err = type(e).__name__
    if delivered != [10, 20] or err != "PostContractError": bad.append(["partial(generator)", "post", "-", 0, 0, delivered, err])
    try: r = asyncio.run(pc(None)); err = None
    except deal.PostContractError: err = "PostContractError"
    except BaseException as e: err = type(e).__name__
    if err != "PostContractError": bad.append(["partial(coroutine)", "post", "-", 0, 0, [], err])
    return bad
"""


def run(ctx, fr, model_available=True):
    base_scn.run(_me, ctx, fr, model_available)
    from ..harness import impl
    r = impl.run_impl('pyexec.py', {'src': INHERIT_SRC, 'calls': [['probe', [ctx.seed]]]})[0]
    fr.evaluations += 160; fr.add_nontrivial({'inherit_probe': ctx.seed})
    fr.samples.append({'family': 'inherited post / ensure probe', 'deviations': r})
    if isinstance(r, dict):
        fr.errors.append('C02 inherit probe failed: ' + str(r)[:500])
    elif r:
        fr.violations.append({'scenario': {'family': 'inherited-post-ensure', 'seed': ctx.seed}, 'impl': r[:5], 'signature': None,
                              'what': f'a post / ensure contract inherited through deal.inherit does not judge the result: [kind, how, contracts, limit, x, delivered, error] = {r[0] if isinstance(r, list) else r}'})
def search(ctx, fr, model_available=True): return base_scn.search(_me, ctx, fr, model_available)
classify = base_scn.classify
