"""C18 -- the linter reports exactly the exceptions and side-effects left undeclared. Modules are generated from the fragment the
linter claims to understand; the model (Sem/LintModel.v) is evaluated on the generator's description of every body and compared
with the real linter; an independent reference analysis (the semantic reading of the same description) is the monitor."""
from __future__ import annotations
import random, json, sys, os, builtins, re
from ..harness import coq, impl, scn

pid = 'C18'
gen_modules = ['tr_lint', 'tr_rules', 'tr_has_patcher', 'tr_rest_patcher', 'tr_rest_lintcontract', 'tr_rest_lintglue', 'tr_rest_linttables', 'tr_rest_stubfile', 'tr_rest_lintmisc']
model_targets = ['Sem/ScnLint.v']
hand_modelled = ['coq/Sem/LintModel.v: traverse / get_exceptions / get_markers / has_returns / CheckRaises / CheckMarkers / generate_stub on the fragment (hand-written; '
                 'source pinned by tools/py2coq/lint_pins.json); astroid (name resolution of callees) is an oracle: the generator only calls functions defined in the module']
explanation = ('Theorems on the model: a finding exists iff the effect is extracted and not covered by the declaration (subclass-aware / implication-aware through the regenerated '
               'coverage predicates); enlarging a declaration never adds findings; try bodies are not inspected; one level of callees; a stub lists what the extractors find and a '
               'caller is charged exactly the stub entries. Correspondence: findings, extracted tokens and generated stubs of the model = those of the real linter on generated '
               'modules. Monitor: a reference analysis computed from the generator\'s description (semantic reading: effects in try bodies count unless a handler catches them).')
RULE = ('modules of 2-4 functions over the fragment (raise of builtin / custom exceptions by name or call, assert, exit, print, sys.stdout / sys.stderr, global, import, open read / write, '
        'random, time, os.system, calls of functions defined earlier; nested under if / for / while / with / try-except-else-finally), each with a random raises / safe / pure / has '
        'declaration set, callees with declarations and docstrings; enlarged-declaration variants (monotonicity); caller / stubbed-callee pairs; non-trivial = the function has a declaration')

EXCS = ['ValueError', 'KeyError', 'LookupError', 'ZeroDivisionError', 'ArithmeticError', 'OSError', 'RuntimeError', 'TypeError', 'SystemExit', 'BaseException', 'MyError', 'errs.ModError']     # the last two: classes of the module, the second under a dotted name
MARKERS = ['stdout', 'stderr', 'io', 'global', 'import', 'read', 'write', 'random', 'time', 'syscall', 'network']
LEAVES = ['raise', 'raise_call', 'assert', 'exit', 'pass', 'return', 'print', 'stdout', 'stderr', 'global', 'import', 'open_r', 'open_w', 'random', 'time', 'syscall', 'open_r2', 'open_a', 'syscall2']
OWN_MARKER = {'print': 'stdout', 'stdout': 'stdout', 'stderr': 'stderr', 'global': 'global', 'import': 'import', 'open_r': 'read', 'open_w': 'write',
              'random': 'random', 'time': 'time', 'syscall': 'syscall', 'open_r2': 'read', 'open_a': 'write', 'syscall2': 'syscall'}


def gen_stmt(rnd, depth, callees):
    r = rnd.random()
    if depth <= 0 or r < .6:
        k = rnd.choice(LEAVES + (['call'] * 4 if callees else []))
        if k in ('raise', 'raise_call'): return [k, rnd.choice(EXCS)]
        if k == 'call': return ['call', rnd.choice(callees)]
        return [k]
    body = lambda: [gen_stmt(rnd, depth - 1, callees) for _ in range(rnd.randint(1, 2))]
    k = rnd.choice(['if', 'for', 'while', 'with', 'try', 'try'])
    if k == 'if': return ['if', body(), body() if rnd.random() < .5 else []]
    if k == 'for': return ['for', body(), body() if rnd.random() < .2 else []]
    if k == 'while': return ['while', body()]
    if k == 'with': return ['with', body()]
    handlers = [[rnd.choice(EXCS[:-2] + [None]), body()] for _ in range(rnd.randint(0, 2))]
    if len(handlers) == 2 and handlers[0][0] is None: handlers.reverse()      # a bare except must be last
    if len(handlers) == 2 and handlers[0][0] is None: handlers = handlers[:1]
    fin = body() if (rnd.random() < .4 or not handlers) else []
    return ['try', body(), handlers, body() if (handlers and rnd.random() < .3) else [], fin]


def gen_func(rnd, name, callees):
    decls = []
    r = rnd.random()
    if r < .45: decls.append(['raises', rnd.sample(EXCS, rnd.randint(0, 3))])
    elif r < .55: decls.append(['safe'])
    elif r < .65: decls.append(['pure'])
    if 'pure' not in [d[0] for d in decls] and rnd.random() < .55:
        decls.append(['has', rnd.sample(MARKERS, rnd.randint(0, 3))])
        # the other names of a marker (print = stdout, socket = network, input = stdin, nonlocal = global)
        if rnd.random() < .25: decls[-1][1] = [ALIAS_OF.get(x, x) if rnd.random() < .6 else x for x in decls[-1][1]] + ([rnd.choice(list(CANON))] if rnd.random() < .5 else [])
        if rnd.random() < .1: decls.append(['has', rnd.sample(MARKERS, rnd.randint(0, 2))])
    if rnd.random() < .15 and decls and decls[0][0] == 'raises': decls.append(['raises', rnd.sample(EXCS, 1)])
    rnd.shuffle(decls)
    doc = rnd.sample(EXCS[:-2], rnd.randint(1, 2)) if rnd.random() < .2 else []
    return {'name': name, 'decls': decls, 'doc': doc, 'method': False, 'chain_first': len(decls) >= 2 and rnd.random() < .2,
            'body': [gen_stmt(rnd, 2, callees) for _ in range(rnd.randint(1, 3))]}


def gen_module(rnd):
    n = rnd.randint(2, 4)
    names = [f'f{i}' for i in range(n)]
    return {'funcs': [gen_func(rnd, nm, names[:i]) for i, nm in enumerate(names)]}


# ---------------------------------------------------------------- rendering
def r_stmt(s, ind, out, prefix=''):
    p = ' ' * ind
    k = s[0]
    simple = {'assert': 'assert x', 'exit': 'exit(1)', 'pass': 'pass', 'return': 'return 1', 'print': 'print("hello")', 'stdout': 'sys.stdout.write("a")',
              'stderr': 'sys.stderr.write("a")', 'global': 'global G', 'import': 'import json', 'open_r': 'open("a.txt")', 'open_w': 'open("a.txt", "w")',
              'random': 'random.choice([1, 2])', 'time': 'time.time()', 'syscall': 'os.system("ls")',
              # the same effects, written another way: a file name that contains the letter w, append / update modes, another process-spawning call
              'open_r2': 'open("words.txt")', 'open_a': 'open("a.txt", "a")', 'syscall2': 'os.kill(0, 0)'}
    if k in simple: out.append(p + simple[k])
    elif k == 'raise': out.append(f'{p}raise {s[1]}')
    elif k == 'raise_call': out.append(f'{p}raise {s[1]}("bad")')
    elif k == 'call': out.append(f'{p}{prefix}{s[1]}(1)')
    elif k in ('if', 'for'):
        out.append(p + ('if x:' if k == 'if' else 'for i in x:')); r_body(s[1], ind + 4, out, prefix)
        if s[2]: out.append(p + 'else:'); r_body(s[2], ind + 4, out, prefix)
    elif k == 'while': out.append(p + 'while x:'); r_body(s[1], ind + 4, out, prefix)
    elif k == 'with': out.append(p + 'with x:'); r_body(s[1], ind + 4, out, prefix)
    elif k == 'try':
        out.append(p + 'try:'); r_body(s[1], ind + 4, out, prefix)
        for exc, b in s[2]:
            out.append(p + (f'except {exc}:' if exc else 'except:')); r_body(b, ind + 4, out, prefix)
        if s[3]: out.append(p + 'else:'); r_body(s[3], ind + 4, out, prefix)
        if s[4]: out.append(p + 'finally:'); r_body(s[4], ind + 4, out, prefix)
    else: raise ValueError(k)


def r_body(b, ind, out, prefix=''):
    for s in b: r_stmt(s, ind, out, prefix)


def r_func(f, out, prefix='', strip=False):
    for i, d in enumerate(f['decls']):
        if d[0] == 'raises': text = f'deal.raises({", ".join(d[1])})'
        elif d[0] == 'has': text = 'deal.has(' + ', '.join(repr(m) for m in d[1]) + ')'
        else: text = f'deal.{d[0]}'
        # the same declarations, the first one written inside a literal deal.chain(...) above the others
        out.append(f'@deal.chain({text})' if (i == 0 and f.get('chain_first')) else '@' + text)
    if strip:
        while out and out[-1].startswith('@deal.'): out.pop()
    out.append(f'def {f["name"]}(x):')
    if f['doc'] and not strip:
        out.append('    """Do something.'); out.append('')
        for e in f['doc']: out.append(f'    :raises {e}: sometimes')
        out.append('    """')
    if strip: out.append('    return 1')
    else: r_body(f['body'], 4, out, prefix)
    out += ['', '']


HEADER = ['import os', 'import sys', 'import random', 'import time', 'import subprocess', 'import deal', '', 'x = 1', 'G = 0', '', 'class MyError(Exception):', '    pass', '', 'class errs:', '    class ModError(Exception):', '        pass', '', '']


def render(m, strip=False):
    out = list(HEADER)
    for f in m['funcs']: r_func(f, out, strip=strip)
    return '\n'.join(out) + '\n'


def render_caller(m):
    """a module whose single declared function calls every function of libc18"""
    out = list(HEADER[:6]) + ['import libc18', '', 'x = 1', '', '@deal.raises()', '@deal.has()', 'def use(x):']
    for f in m['funcs']: out.append(f'    libc18.{f["name"]}(1)')
    out.append('    return 2')
    return '\n'.join(out) + '\n'


# ---------------------------------------------------------------- Coq printing
def cls_of(n):
    return scn.cls(n) if isinstance(getattr(builtins, n, None), type) else {'name': n, 'bases': [], 'custom': True}


def ccls(n):
    if isinstance(getattr(builtins, n, None), type): return scn.ccls(scn.cls(n))
    return f'(mk_cls {scn.q(n)} [])'


def cstmt(s):
    k = s[0]
    leaf = {'assert': 'LAssert', 'exit': 'LExit', 'pass': 'LPass', 'return': 'LReturn', 'print': 'LPrint', 'stdout': 'LStdout', 'stderr': 'LStderr', 'global': 'LGlobal',
            'import': 'LImport', 'open_r': 'LOpenR', 'open_w': 'LOpenW', 'random': 'LRandom', 'time': 'LTime', 'syscall': 'LSyscall',
            'open_r2': 'LOpenR', 'open_a': 'LOpenW', 'syscall2': 'LSyscall'}
    cb = lambda b: '[' + '; '.join(cstmt(x) for x in b) + ']'
    if k in leaf: return f'(SLeaf {leaf[k]})'
    if k in ('raise', 'raise_call'): return f'(SLeaf (LRaise {ccls(s[1])}))'
    if k == 'call': return f'(SLeaf (LCall {scn.q(s[1])}))'
    if k == 'if': return f'(SIf {cb(s[1])} {cb(s[2])})'
    if k == 'for': return f'(SFor {cb(s[1])} {cb(s[2])})'
    if k == 'while': return f'(SWhile {cb(s[1])})'
    if k == 'with': return f'(SWith {cb(s[1])})'
    hs = '[' + '; '.join(f'({"Some " + ccls(e) if e else "None"}, {cb(b)})' for e, b in s[2]) + ']'
    return f'(STry {cb(s[1])} {hs} {cb(s[3])} {cb(s[4])})'


def cbody(b): return '[' + '; '.join(cstmt(s) for s in b) + ']'
def clist(xs): return '[' + '; '.join(xs) + ']'


def ccallee(f, stub=None):
    raises = [e for d in f['decls'] if d[0] == 'raises' for e in d[1]]
    has = [m for d in f['decls'] if d[0] == 'has' for m in d[1]]
    st = 'None' if stub is None else f'(Some ({clist([ccls(e) for e in stub["raises"]])}, {clist([scn.q(m) for m in stub["has"]])}))'
    return (f'{{| k_body := {cbody(f["body"])}; k_raises := {clist([ccls(e) for e in raises])}; k_has := {clist([scn.q(m) for m in has])}; '
            f'k_doc := {clist([ccls(e) for e in f["doc"]])}; k_stub := {st} |}}')


def cdecl(d):
    if d[0] == 'raises': return f'(DRaises {clist([ccls(e) for e in d[1]])})'
    if d[0] == 'has': return f'(DHas {clist([scn.q(m) for m in d[1]])})'
    return {'safe': 'DSafe', 'pure': 'DPure'}[d[0]]


def cmodule(m):
    tab = clist([f'({scn.q(f["name"])}, {ccallee(f)})' for f in m['funcs']])
    fs = clist([f'({scn.q(f["name"])}, {{| l_body := {cbody(f["body"])}; l_decls := {clist([cdecl(d) for d in f["decls"]])}; l_has_self := false |}})' for f in m['funcs']])
    return f'(show_module {tab} false {fs})'


# ---------------------------------------------------------------- the reference analysis (semantic reading of the description)
def subclass(a, b):
    ka, kb = getattr(builtins, a, None), getattr(builtins, b, None)
    if isinstance(ka, type) and isinstance(kb, type): return issubclass(ka, kb)
    return a == b


def escaping(body, funcs, level, linter_view):
    """exception names that can leave this block; linter_view=True: what the linter's documented traversal sees (try bodies skipped)"""
    out = []
    for s in body:
        k = s[0]
        if k in ('raise', 'raise_call'): out.append(s[1])
        elif k == 'assert': out.append('AssertionError')
        elif k == 'exit': out.append('SystemExit')
        elif k == 'call' and level == 0:
            g = funcs[s[1]]
            out += escaping(g['body'], funcs, 1, linter_view) + [e for d in g['decls'] if d[0] == 'raises' for e in d[1]] + list(g['doc'])
        elif k in ('if', 'for'): out += escaping(s[1], funcs, level, linter_view) + escaping(s[2], funcs, level, linter_view)
        elif k in ('while', 'with'): out += escaping(s[1], funcs, level, linter_view)
        elif k == 'try':
            if not linter_view:
                inner = escaping(s[1], funcs, level, linter_view)
                for e in inner:
                    if not any(h is None or subclass(e, h) for h, _ in s[2]): out.append(e)
            for h, b in s[2]: out += escaping(b, funcs, level, linter_view)
            out += escaping(s[3], funcs, level, linter_view) + escaping(s[4], funcs, level, linter_view)
    return out


def effects(body, funcs, level, linter_view):
    out = []
    for s in body:
        k = s[0]
        if k in OWN_MARKER: out.append(OWN_MARKER[k])
        elif k == 'call' and level == 0:
            g = funcs[s[1]]
            out += effects(g['body'], funcs, 1, linter_view) + [m for d in g['decls'] if d[0] == 'has' for m in d[1]]
        elif k in ('if', 'for'): out += effects(s[1], funcs, level, linter_view) + effects(s[2], funcs, level, linter_view)
        elif k in ('while', 'with'): out += effects(s[1], funcs, level, linter_view)
        elif k == 'try':
            out += effects(s[1], funcs, level, linter_view)
            for h, b in s[2]: out += effects(b, funcs, level, linter_view)
            out += effects(s[3], funcs, level, linter_view) + effects(s[4], funcs, level, linter_view)
    return out


IMPLIES = {'stdout': ['stdout', 'io', 'print'], 'stderr': ['stderr', 'io'], 'read': ['read', 'io'], 'write': ['write', 'io'], 'network': ['network', 'io', 'socket'],
           'stdin': ['stdin', 'io', 'input'], 'syscall': ['syscall', 'io'], 'global': ['global', 'nonlocal'], 'import': ['import'], 'random': ['random'], 'time': ['time']}


CANON = {'print': 'stdout', 'socket': 'network', 'input': 'stdin', 'nonlocal': 'global'}
ALIAS_OF = {v: k for k, v in CANON.items()}
NON_IO = {'global', 'nonlocal', 'import', 'random', 'time'}
def has_io(M): return any(x not in NON_IO for x in M)


def covered_marker(m, M): return any(x in M for x in IMPLIES.get(CANON.get(m, m), [m]))


def has_return(body):
    for s in body:
        if s[0] in ('return', 'raise', 'raise_call'): return True
        if s[0] in ('if', 'for') and (has_return(s[1]) or has_return(s[2])): return True
        if s[0] in ('while', 'with') and has_return(s[1]): return True
        if s[0] == 'try' and (has_return(s[1]) or any(has_return(b) for _, b in s[2]) or has_return(s[3]) or has_return(s[4])): return True      # a return inside a try body is a return
    return False


def reference(m, try_skip=False, first_has=False, io_child=False):
    """findings the property demands (all switches off = the semantic reading); each switch turns on one known deviation of the
    linter: exceptions in try bodies are not seen / only the first has contract counts / io is covered by any io-family marker"""
    funcs = {f['name']: f for f in m['funcs']}
    res = {}
    for f in m['funcs']:
        rs, ms = [], []
        rd = [d for d in f['decls'] if d[0] in ('raises', 'safe', 'pure')]
        if rd:
            declared = ['AssertionError'] + [e for d in rd if d[0] == 'raises' for e in d[1]]
            rs = [e for e in escaping(f['body'], funcs, 0, try_skip) if not any(subclass(e, d) for d in declared)]
        hd = [d for d in f['decls'] if d[0] in ('has', 'pure')]
        if hd:
            if first_has: M = hd[0][1] if hd[0][0] == 'has' else []
            else: M = [x for d in hd if d[0] == 'has' for x in d[1]]
            if not has_io(M) and not has_return(f['body']): ms.append('io')   # documented: a function without io must return something
            cov = (lambda e: has_io(M) if (io_child and e == 'io') else covered_marker(e, M))
            ms += [CANON.get(e, e) for e in effects(f['body'], funcs, 0, False) if not cov(e)]
        res[f['name']] = {'raises': sorted(rs), 'markers': sorted(ms)}
    return res


def monitor(m, r):
    out = []
    if 'error' in r: return [('the linter raised: ' + r['error'], None)]
    sem = reference(m)
    alts = {'raises': [('try_body_skipped', reference(m, try_skip=True))],
            'markers': [('second_has_ignored', reference(m, first_has=True)), ('io_covered_by_child', reference(m, io_child=True)),
                        ('second_has_ignored', reference(m, first_has=True, io_child=True))]}
    for f in m['funcs']:
        got = r['findings'].get(f['name'], {'raises': [], 'markers': []})
        for kind in ('raises', 'markers'):
            g, s = set(got[kind]), set(sem[f['name']][kind])
            if g == s: continue
            # is the difference exactly what one of the known deviations (or the two marker ones together) produces?
            tag = next((t for t, ref in alts[kind] if g == set(ref[f['name']][kind])), None)
            out.append((f'{f["name"]}: {kind} findings {sorted(g)}; the reference analysis of the body gives {sorted(s)}; decls {f["decls"]}', tag))
    return out


def gen_cases(tier, seed):
    rnd = random.Random(seed * 17 + 18)
    n = 1500 if tier == 'thorough' else 250
    import glob
    corp = [json.load(open(f)) for f in sorted(glob.glob(os.path.join(coq.VERIF, 'corpus', 'C18', '*.json')))]
    return corp + [gen_module(rnd) for _ in range(n)]


KINDS_SRC = '''import deal
import time


def plain():
    print(1)


async def acallee():
    print(1)


@deal.has('time')
async def acontract():
    return 1


class K:
    def log(self):
        print(1)

    @deal.has()
    def via_self(self):
        self.log()
        return 1

    @deal.has()
    def via_class(self):
        K.log(self)
        return 1


@deal.has()
def via_plain():
    plain()
    return 1


@deal.has()
async def via_await():
    await acallee()
    return 1


@deal.has()
async def via_await_contract():
    await acontract()
    return 1


def rplain():
    raise ValueError


async def rasync():
    raise ValueError


class R:
    def boom(self):
        raise ValueError

    @deal.raises()
    def exc_self(self):
        self.boom()
        return 1

    @deal.raises()
    def exc_class(self):
        R.boom(self)
        return 1


@deal.raises()
def exc_plain():
    rplain()
    return 1


@deal.raises()
async def exc_await():
    await rasync()
    return 1
'''
KINDS_WANT_EXC = ['exc_self', 'exc_class', 'exc_plain', 'exc_await']
KINDS_WANT = {'via_self': 'stdout', 'via_class': 'stdout', 'via_plain': 'stdout', 'via_await': 'stdout', 'via_await_contract': 'time'}


def callee_kinds_probe(ctx, fr):
    """one level of calls into resolvable functions, whatever kind of function the callee is: a plain function, a coroutine function that is
    awaited, a method reached through self or through the class. Markers only: for exceptions the dive is limited to plain functions (recorded in DESIGN 9.7)."""
    r = impl.run_impl('lint_src.py', [{'src': KINDS_SRC, 'backend': 'astroid'}])[0]
    fr.evaluations += len(KINDS_WANT); fr.add_nontrivial({'callee-kinds': sorted(KINDS_WANT)})
    if 'crash' in r:
        fr.violations.append({'scenario': {'family': 'callee-kinds', 'src': KINDS_SRC}, 'impl': r, 'what': 'the linter crashed: ' + r['crash'], 'signature': None}); return
    rows = KINDS_SRC.split('\n')
    def owner(row):
        for i in range(row - 1, -1, -1):
            m = re.match(r'\s*(?:async )?def (\w+)', rows[i])
            if m: return m.group(1)
    got = {}
    for row, col, code, text in r['errors']:
        if code.startswith('DEL04') or code.startswith('DEL05'): got.setdefault(owner(row), set()).add(text.split('(')[-1].rstrip(')'))
    gote = {}
    for row, col, code, text in r['errors']:
        if code == 'DEL021': gote.setdefault(owner(row), set()).add(text.split('(')[-1].rstrip(')'))
    # exceptions: the dive is limited to plain functions (DESIGN 9.7: widening it to methods also charges the bodies of standard-library
    # methods such as random.choice -> IndexError, a change of behaviour that was tried and withdrawn); only the plain callee is required
    for fn in ['exc_plain']:
        fr.evaluations += 1
        if gote.get(fn, set()) != {'ValueError'}:
            fr.violations.append({'scenario': {'family': 'callee-kinds', 'src': KINDS_SRC, 'function': fn}, 'impl': r, 'signature': None,
                                  'what': f'{fn}: the exception its callee raises (ValueError) must be charged to it; DEL021 findings: {sorted(gote.get(fn, set()))}'})
    for fn, marker in KINDS_WANT.items():
        if got.get(fn, set()) != {marker}:
            fr.violations.append({'scenario': {'family': 'callee-kinds', 'src': KINDS_SRC, 'function': fn}, 'impl': r, 'signature': None,
                                  'what': f'{fn}: the undeclared marker of its callee ({marker}) must be charged to it; marker findings: {sorted(got.get(fn, set()))}'})


def run(ctx, fr, model_available=True, mods=None):
    if mods is None: callee_kinds_probe(ctx, fr)
    mods = mods if mods is not None else gen_cases(ctx.tier, ctx.seed)
    rnd = random.Random(ctx.seed + 5)
    cases = []
    for i, m in enumerate(mods):
        c = {'src': render(m)}
        if i % 5 == 0:
            c.update(caller=render_caller(m), callee_src=render(m), callee_stripped=render(m, strip=True), dotted=rnd.random() < .4)
        if i % 3 == 1:
            # the same module with one declaration enlarged: findings may only shrink
            m2 = json.loads(json.dumps(m))
            cand = [(f, d) for f in m2['funcs'] for d in f['decls'] if d[0] in ('raises', 'has')]
            if cand:
                f2, d2 = rnd.choice(cand)
                d2[1].append(rnd.choice(EXCS if d2[0] == 'raises' else MARKERS))
                c['variant_src'] = render(m2); m['_variant'] = [f2['name'], d2]
        cases.append(c)
    res = []
    for i in range(0, len(cases), 100):
        res += impl.run_impl('c18_lint.py', cases[i:i + 100], timeout=1500)
    mo = [None] * len(mods)
    if model_available:
        for lo in range(0, len(mods), 200):
            part = mods[lo:lo + 200]
            text = ('From Coq Require Import List String.\nImport ListNotations.\nFrom Deal Require Import Base Show LintModel ScnLint.\nOpen Scope string_scope.\n'
                    + ''.join(f'Eval vm_compute in {cmodule(m)}.\n' for m in part))
            ok, outp = coq.eval_cases(f'C18_{lo}', text)
            strs = coq.parse_strings(outp) if ok else []
            if len(strs) != len(part):
                fr.errors.append(f'C18 cases failed ({len(strs)} of {len(part)}): ' + outp[-1500:]); continue
            for j, s in enumerate(strs): mo[lo + j] = s
    dist = {'modules': len(mods), 'functions': 0, 'declared': 0, 'with_try': 0, 'with_call': 0, 'stub_pairs': 0}
    for m, r, mm in zip(mods, res, mo):
        fr.evaluations += 1
        for f in m['funcs']:
            dist['functions'] += 1
            if f['decls']: dist['declared'] += 1; fr.add_nontrivial({'f': f['name'], 'decls': f['decls'], 'body': f['body']})
            js = json.dumps(f['body'])
            dist['with_try'] += '"try"' in js; dist['with_call'] += '"call"' in js
        for what, tag in monitor(m, r):
            fr.violations.append({'scenario': {'module': m, 'src': render(m)}, 'impl': r.get('findings'), 'what': what, 'signature': tag})
        if 'error' in r: continue
        # the stub lists what the extractors find
        for f in m['funcs']:
            st = r['stub'].get(f['name'], {})
            tk = r['tokens'][f['name']]
            if sorted(set(st.get('raises', []))) != sorted(set(tk['excs'])) or sorted(set(st.get('has', []))) != sorted(set(tk['markers'])):
                fr.violations.append({'scenario': {'module': m, 'src': render(m)}, 'impl': {'stub': st, 'tokens': tk},
                                      'what': f'{f["name"]}: the generated stub {st} does not list exactly what the extractors find {tk}', 'signature': None})
        if 'variant_findings' in r:
            dist['variants'] = dist.get('variants', 0) + 1
            for f in [g for g in m['funcs'] if g['name'] == m['_variant'][0]]:     # the function whose own declaration was enlarged (its callers are charged more)
                a, b = r['findings'].get(f['name'], {}), r['variant_findings'].get(f['name'], {})
                for kind in ('raises', 'markers'):
                    extra = set(b.get(kind, [])) - set(a.get(kind, []))
                    if extra:
                        fr.violations.append({'scenario': {'module': m, 'src': render(m), 'enlarged': m.get('_variant')}, 'impl': {'before': a, 'after': b},
                                              'what': f'{f["name"]}: enlarging a declaration ({m.get("_variant")}) added {kind} findings {sorted(extra)}', 'signature': None})
        if 'with_stub' in r:
            dist['stub_pairs'] += 1
            got = r['with_stub'].get('use', {'raises': [], 'markers': []})
            want_r = sorted({e for f in m['funcs'] for e in r['callee_stub'].get(f['name'], {}).get('raises', []) if e != 'AssertionError'})
            want_m = sorted({CANON.get(x, x) for f in m['funcs'] for x in r['callee_stub'].get(f['name'], {}).get('has', [])})      # charged under the canonical name of the marker
            if sorted(set(got['raises'])) != want_r:
                fr.violations.append({'scenario': {'module': m, 'caller': render_caller(m)}, 'impl': {'with_stub': got, 'stub': r['callee_stub']},
                                      'what': f'a caller of stubbed functions is charged exceptions {sorted(set(got["raises"]))}; the stub entries are {want_r}', 'signature': None})
            if sorted(set(got['markers'])) != want_m:
                fr.violations.append({'scenario': {'module': m, 'caller': render_caller(m)}, 'impl': {'with_stub': got, 'stub': r['callee_stub']},
                                      'what': f'a caller of stubbed functions is charged markers {sorted(set(got["markers"]))}; the stub entries are {want_m}', 'signature': None})
        if mm is not None:
            fr.programs += 1; fr.traces_validated += 1
            lines = []
            for f in m['funcs']:
                g = r['findings'].get(f['name'], {'raises': [], 'markers': []}); tk = r['tokens'][f['name']]; st = r['stub'].get(f['name'], {})
                lines.append('|'.join([f['name'], ','.join(sorted(set(g['raises']))), ','.join(sorted(set(g['markers']))), ','.join(sorted(tk['excs'])), ','.join(sorted(tk['markers'])),
                                       ','.join(sorted(set(st.get('raises', [])))), ','.join(sorted(set(st.get('has', []))))]))
            norm = []
            for ln in mm.split('\n'):
                p = ln.split('|')
                p = [p[0]] + [','.join(sorted(set(x.split(',')))) if x else '' for x in p[1:3]] + [','.join(sorted(x.split(','))) if x else '' for x in p[3:5]] + [','.join(sorted(set(x.split(',')))) if x else '' for x in p[5:7]]
                norm.append('|'.join(p))
            if norm != lines:
                bad = [(a, b) for a, b in zip(norm, lines) if a != b]
                fr.disagreements.append({'scenario': {'module': m, 'src': render(m)}, 'model': bad[0][0] if bad else mm, 'impl': bad[0][1] if bad else lines})
    fr.rule = RULE
    fr.samples.append({'src': render(mods[0]), 'impl': res[0].get('findings')})
    fr.distribution = dist


def search(ctx, fr, model_available=True):
    # one pass of 500 further modules (a module takes ~0.4 s to lint through every entry point)
    rnd = random.Random(ctx.seed * 17 + 1018)
    fr2 = type(fr)()
    run(ctx, fr2, model_available=False, mods=[gen_module(rnd) for _ in range(500)])
    fr.violations += fr2.violations; fr.evaluations += fr2.evaluations


def classify(v, findings):
    for f in findings:
        if f.get('status') == 'open' and f.get('signature') and f['signature'] == v.get('signature'):
            return f['id']
    return None
