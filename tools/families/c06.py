"""C06 -- satisfied contracts are observationally transparent. Family: every function twice (decorated with always-accepting
contracts / bare), same driver script on both (calls; next/send/throw/close on generators), contracts enabled and disabled;
plus metadata of the wrapper (name, doc, signature, kind, __wrapped__)."""
from __future__ import annotations
import random, json, sys, re
from ..harness import scn, gen, obs as O, pyeval, impl
from . import base_scn

pid = 'C06'
gen_modules = ['tr_state', 'tr_validators', 'tr_has_patcher', 'tr_contracts', 'tr_decorators', 'tr_pin_contracts', 'tr_rest_validators', 'tr_rest_patcher', 'tr_rest_state', 'tr_rest_contractsconst', 'tr_rest_decorators', 'tr_pin_inherit']
model_targets = ['Sem/Scenario.v']
hand_modelled = ['functools.update_wrapper / inspect metadata: not modelled (checked on the implementation by the monitor)']
explanation = ('Theorems: with contracts disabled the generated wrappers are the original call; with every validator accepting, the sync/async '
               'wrapper returns the very value of the body called with the very arguments. Correspondence + side-by-side monitor (decorated vs bare) '
               'over random always-true contract stacks, argument objects compared by identity, generator driver scripts.')
N_QUICK, N_THOROUGH = 300, 2500
RULE = ('random signature and always-accepting contract stack of every kind (pre/post/ensure/raises/reason/has with the needed markers); the same body '
        'decorated and bare; drivers: calls with object arguments, and for generators scripts of next/send/throw/close of length <= 6; enabled and '
        'disabled; non-trivial = the decorated function has at least one contract and the driver reaches its body')
I = lambda n: {'i': n}
TRUE = ['const', {'b': True}]


def always_true_stack(rnd, ids, fsig, raised):
    st = []
    for _ in range(rnd.randint(1, 4)):
        k = rnd.choice(['pre', 'post', 'ensure', 'raises', 'reason', 'has'])
        if k == 'pre': st.append(['pre', {'id': ids(), 'sig': rnd.choice([fsig, [['_', 'PosOrKw', None]]]), 'expr': TRUE, 'msg': None, 'exc': None}])
        elif k == 'post': st.append(['post', {'id': ids(), 'sig': [['result', 'PosOrKw', None]], 'expr': TRUE, 'msg': None, 'exc': None}])
        elif k == 'ensure': st.append(['ensure', {'id': ids(), 'sig': [['_', 'PosOrKw', None]], 'expr': TRUE, 'msg': None, 'exc': None}])
        elif k == 'raises': st.append(['raises', ids(), [scn.cls('Exception')], None, None])
        elif k == 'reason': st.append(['reason', scn.cls(raised), {'id': ids(), 'sig': [['_', 'PosOrKw', None]], 'expr': TRUE, 'msg': None, 'exc': None}])
        else: st.append(['has', ids(), ['io'], None, None])
    return st


def make(rnd, k):
    ids = gen.Ids()
    fsig = gen.gen_sig(rnd, maxp=3)
    kind = rnd.choice(['sync', 'async', 'gen', 'gen'])
    params = [p[0] for p in fsig if p[1] in ('PosOnly', 'PosOrKw', 'KwOnly')]
    raised = rnd.choice(['ValueError', 'KeyError'])
    ret = ['var', rnd.choice(params)] if params and rnd.random() < .6 else ['locals']
    if kind == 'gen':
        body = [['effect', 'out'], ['yield', ret], ['yield', ['var', 'sent']],
                ['tryexcept', [['yield', ['const', I(3)]]], 'ValueError', [['yield', ['const', I(33)]]]],
                ['effect', 'err'], ['return', ['const', I(9)]]]
    else:
        body = [['effect', rnd.choice(['out', 'err'])]]
        if params and rnd.random() < .3:
            body.append(['if', ['bin', 'eq', ['var', params[0]], ['const', I(0)]], [['raise', scn.cls(raised), 100]], []])
        if kind == 'async' and rnd.random() < .5: body.append(['await'])
        body.append(['return', ret])
    stack = always_true_stack(rnd, ids, fsig, raised)
    funs = [{'name': 'f', 'kind': kind, 'sig': fsig, 'stack': stack, 'body': body},
            {'name': 'f0', 'kind': kind, 'sig': fsig, 'stack': [], 'body': body}]
    driver = []
    def objs(a, kw):   # make arguments identity-carrying objects now and then
        a = [({'o': 100 + i} if rnd.random() < .4 else x) for i, x in enumerate(a)]
        kw = [[n, ({'o': 200 + i} if rnd.random() < .4 else x)] for i, (n, x) in enumerate(kw)]
        return a, kw
    script = None
    if kind == 'gen':
        script = [rnd.choice(['next', 'next', 'send', 'throw', 'close']) for _ in range(rnd.randint(2, 6))]
    for rep in range(2):
        a, kw = objs(*gen.gen_call(rnd, fsig, malformed=.05))
        if rep == 1 and rnd.random() < .5:
            driver.append(['switch', 'disable'])
        for j, fn in enumerate(['f', 'f0']):
            var = rep * 2 + j
            if kind == 'gen':
                driver.append(['gennew', var, fn, a, kw])
                for s in script:
                    if s == 'next': driver.append(['next', var])
                    elif s == 'send': driver.append(['send', var, I(42)])
                    elif s == 'throw': driver.append(['throw', var, scn.cls('ValueError'), 500 + var])
                    else: driver.append(['close', var])
            else:
                driver.append(['call', fn, a, kw])
    return {'funs': funs, 'driver': driver}


def norm(line):
    line = re.sub(r'\bB f0 ', 'B f ', line)
    line = re.sub(r'tag=5\d\d', 'tag=5xx', line)
    line = re.sub(r'i5\d\d\]', 'i5xx]', line)
    return line


def monitor(sc, obs):
    acts = O.split(obs)
    if acts is None:
        return [('harness/observation error: ' + str(obs)[:200], None)]
    out = []
    # pair the actions on f with the actions on f0
    seq = {'f': [], 'f0': []}
    cur = {}
    for a, act in zip(sc['driver'], acts):
        if a[0] == 'call': seq[a[1]].append((a, act))
        elif a[0] == 'gennew': cur[a[1]] = a[2]; seq[a[2]].append((a, act))
        elif a[0] in ('next', 'send', 'throw', 'close'): seq[cur[a[1]]].append((a, act))
    used = {a[0] for a, _ in seq['f']}
    tag = None
    if 'send' in used or 'throw' in used: tag = 'generator_protocol'
    kind = sc['funs'][0]['kind']
    for (a1, x1), (a0, x0) in zip(seq['f'], seq['f0']):
        l1 = [norm(e) for e in x1.events if not e.startswith('V ')] + [norm(x1.outcome), x1.snap]
        l0 = [norm(e) for e in x0.events] + [norm(x0.outcome), x0.snap]
        t = tag
        if kind == 'gen' and x0.kind == 'STOP' and x0.value != 'N': t = t or 'generator_return_value'
        if a1[0] == 'gennew' and x0.exc_class == 'TypeError' and x1.kind == 'R': t = 'generator_call_binding_deferred'
        # a keyword that names a positional-only parameter of a function with **kwargs: a valid call that inspect.Signature.bind
        # rejects, so every `_`-form validator of the stack raises TypeError (C01-F2: the same defect seen from here)
        call = a1 if a1[0] in ('call', 'gennew') else next((x for x, _ in seq['f'] if x[0] == 'gennew' and x[1] == a1[1]), None)
        if call is not None:
            kws = call[3] if call[0] == 'call' else call[4]
            fsig = sc['funs'][0]['sig']
            posonly = {p[0] for p in fsig if p[1] == 'PosOnly'}
            short = any(it[0] in ('pre', 'post', 'ensure', 'reason') and [p[0] for p in it[-1]['sig']] == ['_'] for it in sc['funs'][0]['stack'] if isinstance(it[-1], dict))
            if short and any(n in posonly for n, _ in kws) and any(p[1] == 'VarKw' for p in fsig): t = t or 'posonly_name_as_keyword'
        if '?copy' in x1.outcome:
            out.append((f'the decorated callable returned / received a copy of an argument object: {x1.outcome!r}', None)); break
        if l1 != l0:
            out.append((f'decorated and bare behave differently on {a1}: decorated {l1} vs bare {l0}', t))
            break
    return out


def nontrivial(sc, obs):
    return 'B f ' in obs


def features(sc, obs):
    return ['kind=' + sc['funs'][0]['kind'], 'disabled' if ['switch', 'disable'] in sc['driver'] else 'enabled']


META_SRC = '''
import deal, inspect, asyncio
def check(kind):
    if kind == "sync":
        def f(a, b=1, *args, c, **kw):
            "doc of f"
            return a
    elif kind == "async":
        async def f(a, b=1, *args, c, **kw):
            "doc of f"
            return a
    else:
        def f(a, b=1, *args, c, **kw):
            "doc of f"
            yield a
    d = deal.pre(lambda *a, **k: True)(deal.post(lambda r: True)(deal.has("io")(f)))
    class K:
        @deal.pre(lambda self, x: True)
        def m(self, x): return (self, x)
        @classmethod
        @deal.pre(lambda cls, x: True)
        def cm(cls, x): return (cls, x)
        @staticmethod
        @deal.pre(lambda x: True)
        def sm(x): return x
    k = K()
    # callables whose __wrapped__ chain ends in a function of another kind: a context manager (generator below), a generator collected into a
    # list, a coroutine run to completion
    import contextlib, functools
    def collect(fn):
        @functools.wraps(fn)
        def w(*a, **kw): return list(fn(*a, **kw))
        return w
    def complete(fn):
        @functools.wraps(fn)
        def w(*a, **kw): return asyncio.run(fn(*a, **kw))
        return w
    def make(with_contracts):
        deco = (lambda fn: deal.pre(lambda *a, **kw: True)(deal.post(lambda r: True)(fn))) if with_contracts else (lambda fn: fn)
        @deco
        @contextlib.contextmanager
        def cm(x):
            yield x + 1
        @deco
        @collect
        def gl(x):
            yield x
            yield x + 1
        @deco
        @complete
        async def co(x):
            return x * 2
        return cm, gl, co
    def use(fns):
        cm, gl, co = fns
        out = []
        for fn, how in ((cm, "with"), (gl, "call"), (co, "call")):
            try:
                if how == "with":
                    with fn(1) as v: out.append(("ok", v))
                else:
                    out.append(("ok", fn(1)))
            except BaseException as e:
                out.append(("exc", type(e).__name__))
        return out
    kinds_kept = use(make(True)) == use(make(False))
    deal.disable()
    try: kinds_kept_disabled = use(make(True)) == use(make(False))
    finally: deal.enable()
    # bare aliases on callables that are not plain functions: the decorated callable still is the callable
    import math
    class Adder:
        def __init__(self, k): self.k = k
        def __call__(self, x): return x + self.k
        def meth(self, x): return x * self.k
    cands = {"lru_cache": functools.lru_cache(None)(lambda x: x + 1), "partial": functools.partial(lambda a, x: a + x, 10),
             "bound method": Adder(3).meth, "builtin": math.floor, "callable instance": Adder(5), "plain": (lambda x: x - 1)}
    alias_ok = True
    for enabled_ in (True, False):
        (deal.enable if enabled_ else deal.disable)()
        try:
            for label, orig in cands.items():
                for alias in (deal.safe, deal.pure):
                    try: got = alias(orig)(7)
                    except BaseException as e: got = ("exc", type(e).__name__)
                    if got != orig(7): alias_ok = f"{alias.__name__}({label}) [{'enabled' if enabled_ else 'disabled'}]: {got!r} != {orig(7)!r}"
        finally:
            deal.enable()
    # a method that inherits an always-true contract, first reached through an instance whose truth value is False
    class Box:
        def __init__(self): self.items = []
        def __len__(self): return len(self.items)
        @deal.pre(lambda self, item: True)
        def push(self, item): self.items.append(item); return self
    class Stack(Box):
        @deal.inherit
        def push(self, item): self.items.append(item); return self
    st = Stack()
    try: falsy_ok = st.push(1) is st and st.push(2) is st and len(st) == 2
    except BaseException as e: falsy_ok = type(e).__name__
    # satisfied marker contracts nested in each other (the inner function is called for the first time from inside the outer one)
    @deal.has()
    def inner(x): return x
    @deal.has("stdout")
    def middle(x): return inner(x)
    @deal.has()
    def outer(x): return middle(x)
    token = object()
    try: nested = outer(token) is token and middle(token) is token and inner(token) is token
    except BaseException as e: nested = type(e).__name__
    return {
        "inherited_contract_on_falsy_instance": falsy_ok,
        "aliases_on_any_callable": alias_ok,
        "nested_has_transparent": nested,
        "wrapped_other_kind": kinds_kept, "wrapped_other_kind_disabled": kinds_kept_disabled,
        "name": d.__name__ == f.__name__, "qualname": d.__qualname__ == f.__qualname__, "doc": d.__doc__ == f.__doc__,
        "wrapped": d.__wrapped__ is f, "signature": str(inspect.signature(d)) == str(inspect.signature(f)),
        "coroutine": inspect.iscoroutinefunction(d) == inspect.iscoroutinefunction(f),
        "generator": inspect.isgeneratorfunction(d) == inspect.isgeneratorfunction(f),
        "unwrap": deal.introspection.unwrap(d) is f,
        "self": k.m(3)[0] is k, "cls": K.cm(3)[0] is K and k.cm(3)[0] is K, "static": K.sm(3) == 3 and k.sm(3) == 3,
    }

def callables():
    # callable objects that are not plain functions -- unhashable instances with __call__, C callables without an introspectable
    # signature -- under satisfied contracts in the explicit form (the form that needs nothing from the callable but the call)
    import dataclasses, operator
    @dataclasses.dataclass
    class Scale:
        k: int
        def __call__(self, x): return [self.k * x]
    class Eq:
        def __eq__(self, other): return True
        def __call__(self, x): return [x]
    out = {}
    cases = {"dataclass instance": (Scale(3), (5,)), "instance with __eq__ and no __hash__": (Eq(), (5,)),
             "operator.itemgetter": (operator.itemgetter(1), ([7, [8]],)), "max": (max, ([1], [2])), "getattr": (getattr, (Eq(), "__call__"))}
    for name, (fn, args) in cases.items():
        d = deal.pre(lambda *a: True)(deal.post(lambda r: True)(fn))
        try:
            want = fn(*args)
            got = d(*args)
            out[name] = (got == want) if name != "max" else (got is want)
        except BaseException as e:
            out[name] = type(e).__name__
    class Boom(Exception): pass
    the = Boom("x")
    class Raiser:
        __hash__ = None
        def __call__(self): raise the
    d = deal.pre(lambda: True)(Raiser())
    try: d(); out["exception object of an unhashable callable"] = False
    except Boom as e: out["exception object of an unhashable callable"] = e is the
    except BaseException as e: out["exception object of an unhashable callable"] = type(e).__name__
    return out
'''


_me = sys.modules[__name__]
def run(ctx, fr, model_available=True):
    base_scn.run(_me, ctx, fr, model_available)
    res = impl.run_impl('pyexec.py', {'src': META_SRC, 'calls': [['check', ['sync']], ['check', ['async']], ['check', ['gen']]]})
    for kind, r in zip(['sync', 'async', 'gen'], res):
        fr.evaluations += 1; fr.add_nontrivial({'meta': kind})
        bad = [k for k, v in (r.items() if isinstance(r, dict) else [('error', False)]) if v is not True]
        if bad:
            fr.violations.append({'scenario': {'family': 'metadata', 'kind': kind}, 'impl': r, 'signature': None,
                                  'what': f'the decorated {kind} callable does not keep: {bad}'})
    fr.samples.append({'family': 'metadata', 'result': res[0]})
    r = impl.run_impl('pyexec.py', {'src': META_SRC, 'calls': [['callables', []]]})[0]
    fr.evaluations += 6; fr.samples.append({'family': 'callable objects that are not plain functions', 'result': r})
    bad = {k: v for k, v in (r.items() if isinstance(r, dict) else [('error', r)]) if v is not True}
    if bad:
        fr.violations.append({'scenario': {'family': 'callable-objects', 'case': sorted(bad)[0]}, 'impl': r, 'signature': None,
                              'what': f'under satisfied explicit contracts the decorated callable differs from the original (result / exception object): {bad}'})
def search(ctx, fr, model_available=True): return base_scn.search(_me, ctx, fr, model_available)
classify = base_scn.classify
