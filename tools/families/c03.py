"""C03 -- exception contracts classify every escaping exception. Family F-exc."""
from __future__ import annotations
import random, json, sys
from ..harness import scn, gen, obs as O, pyeval
from . import base_scn

pid = 'C03'
gen_modules = ['tr_state', 'tr_validators', 'tr_has_patcher', 'tr_contracts', 'tr_decorators', 'tr_pin_contracts', 'tr_rest_validators', 'tr_rest_patcher', 'tr_rest_state', 'tr_rest_lintcontract', 'tr_rest_contractsconst', 'tr_rest_decorators', 'tr_testing', 'tr_rest_testing']
model_targets = ['Sem/Scenario.v']
hand_modelled = ['coq/Py/Sig.v', 'coq/Sem/Model.v', 'coq/Core/Base.v: classes carry their MRO (computed by CPython for every scenario class)']
explanation = ('Theorems about the except-block of the generated wrappers for arbitrary class tables; correspondence + monitor over random '
               'hierarchies, declared tuples, raised classes, reasons, stackings and function kinds.')
N_QUICK, N_THOROUGH = 400, 3000
RULE = ('random class hierarchy (builtins + user classes with single/multiple inheritance + ContractError subclasses + BaseException-only classes), '
        '0-2 raises contracts (empty / single / several / base+derived), 0-2 reason contracts, optional pre/post; body raises a class chosen by '
        'its first argument or calls a nested contracted function; sync/async/generator; non-trivial = the body raised')

I = lambda n: {'i': n}
USER = {'U1': ['Exception'], 'U2': ['U1'], 'U3': ['U2', 'KeyError'], 'U4': ['ValueError'], 'BX': ['BaseException']}


def C(name):
    if name in USER:
        return scn.cls(name, [C(b) for b in USER[name]])
    return scn.cls(name)


POOL = ['ValueError', 'KeyError', 'LookupError', 'IndexError', 'ArithmeticError', 'ZeroDivisionError', 'RuntimeError',
        'U1', 'U2', 'U3', 'U4', 'Exception']
SPECIAL = ['KeyboardInterrupt', 'SystemExit', 'BX', 'PreContractError', 'ContractError', 'PostContractError', 'AssertionError']


def make(rnd, k):
    ids = gen.Ids()
    fsig = [['a', 'PosOrKw', None], ['b', 'PosOrKw', I(1)]]
    kind = rnd.choice(['sync', 'sync', 'async', 'gen'])
    stack = []
    nr = rnd.choice([0, 1, 1, 1, 2])
    for _ in range(nr):
        excs = [C(rnd.choice(POOL)) for _ in range(rnd.choice([0, 1, 1, 2, 3]))]
        exc = None
        if rnd.random() < .2:
            exc = ['class', C(rnd.choice(['ValueError', 'RaisesContractError', 'U1']))] if rnd.random() < .5 else ['inst', C('RuntimeError'), [{'s': 'custom'}]]
        stack.append(['raises', ids(), excs, 'configured' if rnd.random() < .2 else None, exc])
    for _ in range(rnd.choice([0, 0, 1, 1, 2])):
        stack.append(['reason', C(rnd.choice(POOL)), gen.gen_sval(rnd, ids, fsig, custom=.15)])
    if rnd.random() < .2:
        stack.append(['pre', gen.gen_sval(rnd, ids, fsig)])
    if rnd.random() < .2:
        stack.append(['post', gen.gen_sval(rnd, ids, fsig, form='explicit', result_only=True)])
    rnd.shuffle(stack)
    raised = [rnd.choice(POOL + POOL + SPECIAL) for _ in range(3)]
    body = []
    if kind == 'gen':
        body.append(['yield', ['const', I(0)]])
    for j, cn in enumerate(raised):
        body.append(['if', ['bin', 'eq', ['var', 'a'], ['const', I(j)]], [['raise', C(cn), 100 + j]], []])
    funs = []
    if rnd.random() < .25:
        # nested contract violation: g has a failing precondition
        funs.append({'name': 'g', 'kind': 'sync', 'sig': [['x', 'PosOrKw', None]],
                     'stack': [['pre', {'id': ids(), 'sig': [['x', 'PosOrKw', None]], 'expr': ['bin', 'gt', ['var', 'x'], ['const', I(100)]], 'msg': None, 'exc': None}]],
                     'body': [['return', ['var', 'x']]]})
        body.append(['if', ['bin', 'eq', ['var', 'a'], ['const', I(3)]], [['call', 'g', [['var', 'a']], []]], []])
    body.append(['return', ['var', 'a']])
    funs.append({'name': 'f', 'kind': kind, 'sig': fsig, 'stack': stack, 'body': body})
    driver = []
    for j, a in enumerate(rnd.sample([0, 1, 2, 3, 4], 4)):
        kw = [['b', I(rnd.randint(-2, 5))]] if rnd.random() < .5 else []
        if kind == 'gen':
            driver += [['gennew', j, 'f', [I(a)], kw], ['next', j], ['next', j]]
        else:
            driver.append(['call', 'f', [I(a)], kw])
    return {'funs': funs, 'driver': driver}


def configured(x, default):
    return x[1]['name'] if x else default


def monitor(sc, obs):
    acts = O.split(obs)
    if acts is None:
        return [('harness/observation error: ' + str(obs)[:200], None)]
    f = [x for x in sc['funs'] if x['name'] == 'f'][0]
    raises = [it for it in f['stack'] if it[0] == 'raises']
    reasons = [it for it in f['stack'] if it[0] == 'reason']
    pres = [it[1] for it in f['stack'] if it[0] == 'pre']
    branches = {s[1][3][1]['i']: s[2][0] for s in f['body'] if s[0] == 'if' and s[2][0][0] == 'raise'}
    out, gens = [], {}
    for a, act in zip(sc['driver'], acts):
        if a[0] == 'gennew':
            gens[a[1]] = {'args': a[3], 'kws': a[4], 'n': 0}; continue
        if a[0] == 'next':
            g = gens[a[1]]; args, kws = g['args'], g['kws']; g['n'] += 1
            if g['n'] == 1 and act.kind != 'Y': g['dead'] = True
            if g['n'] != 2 or g.get('dead'): continue          # the raise happens on the second next()
        else:
            args, kws = a[2], a[3]
        if any(pyeval.verdict(v, f['sig'], args, kws)[0] != 'accept' for v in pres):
            continue
        av = args[0]['i']
        if av not in branches:
            continue
        _, cj, tag = branches[av]
        mro = [cj['name']] + scn.mro_of(cj)
        same = act.kind == 'X' and act.field('tag') == str(tag)
        sig = None
        if len(raises) > 1:
            sig = 'stacked_raises'
        if 'ContractError' in mro or 'Exception' not in mro:
            if not same:
                out.append((f'{cj["name"]} (ContractError / non-Exception BaseException) must propagate untouched; outcome {act.outcome!r}', None))
            continue
        declared = [c for it in raises for c in it[2]]
        is_declared = (not raises) or any(c['name'] in mro for c in declared)
        if not is_declared:
            want = configured(raises[0][4], 'RaisesContractError') if len(raises) == 1 else None
            ok = act.kind == 'X' and not same and (want is None or act.exc_class == want) and act.field('cause') == f't{tag}'
            if len(raises) > 1:
                ok = act.kind == 'X' and not same and act.exc_class in {configured(it[4], 'RaisesContractError') for it in raises} and act.field('cause') == f't{tag}'
            if not ok:
                out.append((f'undeclared {cj["name"]} must be replaced by the raises-violation error chained to the original; outcome {act.outcome!r}', None))
            continue
        # declared: reason contracts registered for exactly this type
        failing = None
        for it in reasons:
            if it[1]['name'] == cj['name']:
                r = pyeval.verdict(it[2], f['sig'], args, kws)
                if r[0] != 'accept':
                    failing = (configured(it[2]['exc'], 'ReasonContractError') if r[0] == 'reject' else r[1]); break
        if failing:
            if not (act.kind == 'X' and not same and act.exc_class == failing):
                out.append((f'declared {cj["name"]} whose reason contract rejects must raise {failing}; outcome {act.outcome!r}', sig))
        elif not same:
            out.append((f'declared {cj["name"]} (declared: {[c["name"] for c in declared]}) must propagate as the very same object; outcome {act.outcome!r}', sig))
    return out


def nontrivial(sc, obs):
    return 'tag=1' in (obs or '') or 'cause=t' in (obs or '')


def features(sc, obs):
    f = [x for x in sc['funs'] if x['name'] == 'f'][0]
    return ['kind=' + f['kind'], 'raises=%d' % sum(it[0] == 'raises' for it in f['stack'])]


BUILTINS = ['LookupError', 'KeyError', 'IndexError', 'ArithmeticError', 'ZeroDivisionError', 'ValueError', 'OSError',
            'FileNotFoundError', 'RuntimeError', 'AssertionError', 'Exception']


def admits_cases(tier, seed):
    import itertools, builtins
    rnd = random.Random(seed + 77)
    cases = []
    for raised in BUILTINS:
        for d in BUILTINS:
            cases.append({'decls': [[d]], 'raised': raised})
        cases.append({'decls': [[]], 'raised': raised})
    # declared classes outside the Exception hierarchy: admitted by all three (the runtime cannot even catch them)
    for decls, raised in ([['SystemExit']], 'SystemExit'), ([['KeyboardInterrupt']], 'KeyboardInterrupt'), ([['BaseException']], 'ValueError'), ([['BaseException']], 'SystemExit'), \
                         ([['ValueError', 'SystemExit']], 'SystemExit'), ([['ValueError'], ['SystemExit']], 'SystemExit'), ([['GeneratorExit']], 'GeneratorExit'):
        cases.append({'decls': decls, 'raised': raised})
    pairs = list(itertools.combinations(BUILTINS, 2))
    for d1, d2 in (pairs if tier == 'thorough' else rnd.sample(pairs, 12)):
        for raised in (BUILTINS if tier == 'thorough' else rnd.sample(BUILTINS, 4)):
            cases.append({'decls': [[d1, d2]], 'raised': raised})        # one contract, two types
            cases.append({'decls': [[d1], [d2]], 'raised': raised})      # two stacked contracts
    return cases


def admits_monitor(case, res):
    import builtins
    rc = getattr(builtins, case['raised'])
    declared = [getattr(builtins, n) for d in case['decls'] for n in d]
    want = any(issubclass(rc, d) for d in declared)
    names = ['runtime', 'linter(ast)', 'linter(astroid)', 'deal.cases']
    dev = {n for n, r in zip(names, res) if r != want}
    # each known finding explains one pattern of deviation, and only that one: whatever is left over is a new violation
    explained, tag = set(), None
    if len(case['decls']) > 1 and want and res[0] is False:
        explained.add('runtime'); tag = tag or 'stacked_raises'                      # C03-F1: the runtime intersects stacked declarations
        if res[3] is False: explained.add('deal.cases')                               #   ... and deal.cases runs the function through that runtime
    if issubclass(rc, AssertionError) and not want:
        explained |= {n for n in ('linter(ast)', 'linter(astroid)') if n in dev}      # C03-F2: the linter never reports AssertionError
        if dev & {'linter(ast)', 'linter(astroid)'}: tag = tag or 'assertion_always_declared'
    if any(issubclass(AssertionError, d) for d in declared) and not want and res[3] is True:
        explained.add('deal.cases'); tag = tag or 'declared_superclass_of_contract_error'   # C03-F3: deal.cases swallows the RaisesContractError
    if dev - explained: tag = None
    bad = [f'{n}={r}' for n, r in zip(names, res) if r != want]
    if bad:
        return [(f'declaration {case["decls"]} and raised {case["raised"]}: admitted should be {want} everywhere, got {", ".join(bad)}', tag)]
    return []


_me = sys.modules[__name__]
def run(ctx, fr, model_available=True):
    base_scn.run(_me, ctx, fr, model_available)
    from ..harness import impl
    cases = admits_cases(ctx.tier, ctx.seed)
    res = impl.run_impl('c03_admits.py', cases)
    for c, r in zip(cases, res):
        fr.evaluations += 1
        fr.add_nontrivial(c)
        for what, tag in admits_monitor(c, r):
            fr.violations.append({'scenario': {'family': 'admits', **c}, 'impl': r, 'what': what, 'signature': tag})
    fr.distribution['admits_cases'] = len(cases)
    fr.samples.append({'family': 'admits', 'case': cases[3], 'runtime/linter-ast/linter-astroid/cases': res[3]})
    fr.rule += '; plus the admits-agree family: every single-type declaration x raised class over 11 builtin exceptions (exhaustive), two-type and stacked declarations (sampled; exhaustive in the thorough tier), judged by runtime, both linter back-ends and deal.cases'
INHERIT_SRC = r"""
import deal, asyncio
__name__ = "c03_inherit_probe"
def probe():
    # raises / reason contracts that reach a method through deal.inherit classify its exceptions like its own
    bad = []
    for kind in ("sync", "async", "gen"):
        class Base:
            @deal.raises(ZeroDivisionError, KeyError)
            @deal.reason(ZeroDivisionError, lambda self, x, y: y == 0)
            def div(self, x, y): return 0
        if kind == "sync":
            def div(self, x, y):
                if y == 7: raise ZeroDivisionError("bogus")
                if y == 8: raise ValueError("undeclared")
                if y == 9: raise KeyError("declared")
                return x / y
        elif kind == "async":
            async def div(self, x, y):
                if y == 7: raise ZeroDivisionError("bogus")
                if y == 8: raise ValueError("undeclared")
                if y == 9: raise KeyError("declared")
                return x / y
        else:
            def div(self, x, y):
                if y == 7: raise ZeroDivisionError("bogus")
                if y == 8: raise ValueError("undeclared")
                if y == 9: raise KeyError("declared")
                yield x / y
        for how in ("method", "class"):
            Child = type("Child", (Base,), {"div": deal.inherit(div) if how == "method" else div})
            if how == "class": Child = deal.inherit(Child)
            for y, want in ((1, "ok"), (0, "ZeroDivisionError"), (7, "ReasonContractError"), (8, "RaisesContractError"), (9, "KeyError")):
                try:
                    r = Child().div(1, y)
                    if kind == "async": asyncio.run(r)
                    elif kind == "gen": list(r)
                    got = "ok"
                except BaseException as e: got = type(e).__name__
                if got != want: bad.append([kind, how, y, got, want])
    # two different classes with one name in a declaration (builtins.ConnectionError and a library's own): all consumers admit both
    import builtins
    LibConnectionError = type("ConnectionError", (Exception,), {})
    for raised in (builtins.ConnectionError, LibConnectionError):
        @deal.raises(builtins.ConnectionError, LibConnectionError)
        def fetch(): raise raised("x")
        try: fetch(); rt = "no error"
        except deal.RaisesContractError: rt = "rejected"
        except BaseException as e: rt = "admitted" if type(e) is raised else type(e).__name__
        import typing
        try:
            tc = deal.TestCase(args=(), kwargs={}, func=fetch, exceptions=deal.cases(fetch, check_types=False).exceptions, check_types=False)
            ca = "admitted" if tc() is typing.NoReturn else "returned"
        except BaseException as e: ca = "rejected:" + type(e).__name__
        if (rt, ca) != ("admitted", "admitted"): bad.append(["same-named classes", raised.__module__, 0, [rt, ca], ["admitted", "admitted"]])
    return bad

def recursion_probe():
    # the same exception object crosses the wrapper of the same function several times (direct recursion; an exception instance that
    # is raised again by a later call): every frame / call classifies it with ITS OWN arguments
    bad = []
    class Boom(ValueError): pass
    def outcome(run):
        try: run(); return "returned"
        except deal.ReasonContractError: return "ReasonContractError"
        except deal.RaisesContractError: return "RaisesContractError"
        except ValueError: return "ValueError"
        except BaseException as e: return "exc:" + type(e).__name__
    for kind in ("sync", "async", "gen"):
        for depth in (0, 1, 2, 4):
            if kind == "sync":
                @deal.reason(ValueError, lambda n: n == 0)
                def f(n):
                    if n == 0: raise ValueError("bottom")
                    return f(n - 1)
                run = lambda: f(depth)
            elif kind == "async":
                @deal.reason(ValueError, lambda n: n == 0)
                async def f(n):
                    if n == 0: raise ValueError("bottom")
                    return await f(n - 1)
                run = lambda: asyncio.run(f(depth))
            else:
                @deal.reason(ValueError, lambda n: n == 0)
                def f(n):
                    if n == 0: raise ValueError("bottom")
                    yield from f(n - 1)
                run = lambda: list(f(depth))
            got = outcome(run)
            want = "ValueError" if depth == 0 else "ReasonContractError"      # the frame above the bottom one does not accept
            if got != want: bad.append([kind, "recursion depth", depth, got, want])
    the = ValueError("shared")
    @deal.reason(ValueError, lambda x: x > 0)
    def g(x): raise the
    for x, want in ((1, "ValueError"), (-1, "ReasonContractError"), (2, "ValueError"), (-2, "ReasonContractError")):
        got = outcome(lambda: g(x))
        if got != want: bad.append(["sync", "shared exception instance, x", x, got, want])
    return bad
"""


def recursion_probe(ctx, fr):
    from ..harness import impl
    r = impl.run_impl('pyexec.py', {'src': INHERIT_SRC, 'calls': [['recursion_probe', []]]})[0]
    fr.evaluations += 16; fr.add_nontrivial({'recursion_probe': 1})
    fr.samples.append({'family': 'one exception object crossing the same wrapper several times', 'deviations': r})
    if isinstance(r, dict): fr.errors.append('C03 recursion probe failed: ' + str(r)[:400])
    elif r:
        fr.violations.append({'scenario': {'family': 'recursion-reason', 'case': r[0]}, 'impl': r[:5], 'signature': None,
                              'what': f'[kind, what, value, observed, expected] = {r[0]}: every frame classifies the exception with its own arguments'})


def inherit_probe(ctx, fr):
    from ..harness import impl
    r = impl.run_impl('pyexec.py', {'src': INHERIT_SRC, 'calls': [['probe', []]]})[0]
    fr.evaluations += 30; fr.add_nontrivial({'inherit_probe': 1})
    fr.samples.append({'family': 'inherited raises / reason', 'deviations': r})
    if isinstance(r, dict): fr.errors.append('C03 inherit probe failed: ' + str(r)[:400])
    elif r:
        fr.violations.append({'scenario': {'family': 'inherited-raises-reason', 'case': r[0]}, 'impl': r[:5], 'signature': None,
                              'what': f'[kind, inherit on, y, observed, expected] = {r[0]}: exception contracts inherited through deal.inherit'})


_run_main = run
def run(ctx, fr, model_available=True):
    _run_main(ctx, fr, model_available)
    inherit_probe(ctx, fr)
    recursion_probe(ctx, fr)


def search(ctx, fr, model_available=True): return base_scn.search(_me, ctx, fr, model_available)
classify = base_scn.classify
