"""C04 -- side-effect markers. (a) marker tables on every subset of the known markers (+ custom markers): runtime predicates and
linter coverage, model vs implementation, and against the reference table; (b) scenarios: has(M) x effect x kind x customisation;
(c) the real linter on generated sources."""
from __future__ import annotations
import random, json, sys, itertools
from ..harness import scn, gen, obs as O, pyeval, coq, impl
from . import base_scn

pid = 'C04'
gen_modules = ['tr_state', 'tr_validators', 'tr_has_patcher', 'tr_contracts', 'tr_rules', 'tr_decorators', 'tr_pin_contracts', 'tr_rest_validators', 'tr_rest_patcher', 'tr_rest_state', 'tr_rest_contractsconst']
model_targets = ['Sem/Scenario.v', 'Sem/ScnMarkers.v']
hand_modelled = ['coq/Sem/Scenario.v: do_effect (what print / sys.stderr.write / socket.socket() do on a real or patched stream)']
explanation = ('Theorems over all marker lists about the generated has_* predicates, the linter coverage decision and the documented table; '
               'correspondence on every subset of the 16 known markers (thorough) and on has(M) x effect x kind scenarios.')
N_QUICK, N_THOROUGH = 300, 2000
RULE = ('(a) marker sets: all 65536 subsets of KNOWN_MARKERS in the thorough tier, all subsets of the 13 markers the predicates read plus random sets with '
        'custom markers in the quick tier, each compared on 9 runtime predicates + 12 linter coverage decisions; (b) scenarios has(M) x {print, stderr, socket, none} '
        'x {sync, async, generator} x message/exception customisation; (c) the linter on generated sources; non-trivial = the marker set is not empty or an effect is attempted')

KNOWN = ['global', 'import', 'input', 'io', 'network', 'nonlocal', 'print', 'random', 'read', 'socket', 'stderr', 'stdin', 'stdout', 'syscall', 'time', 'write']
ALIASES = [('print', 'stdout'), ('socket', 'network'), ('input', 'stdin'), ('nonlocal', 'global')]      # CheckMarkers.aliases, in its order
DOC = ['global', 'import', 'io', 'read', 'write', 'stdout', 'stderr', 'network', 'stdin', 'syscall', 'random', 'time']
ALIAS = {'stdin': 'input', 'stdout': 'print', 'network': 'socket', 'global': 'nonlocal'}
IO_CHILD = {'read', 'write', 'stdout', 'stderr', 'network', 'stdin', 'syscall'}
I = lambda n: {'i': n}


def spec_covers(M, m):
    return m in M or (m in IO_CHILD and 'io' in M) or (m in ALIAS and ALIAS[m] in M)


def powerset(l):
    if not l: return [[]]
    p = powerset(l[1:])
    return p + [[l[0]] + s for s in p]


def table_part(ctx, fr, model_available):
    rnd = random.Random(ctx.seed + 4)
    shards = []       # (fixed, rest)
    if ctx.tier == 'thorough':
        for fixed in powerset(KNOWN[:4]):
            shards.append((fixed, KNOWN[4:]))
    else:
        rel = ['io', 'network', 'socket', 'print', 'stdout', 'stderr', 'read', 'stdin', 'input', 'write', 'syscall', 'global']
        shards.append(([], rel))
        for _ in range(6):
            shards.append((rnd.sample(['custom', 'db', 'import', 'random', 'time', 'nonlocal'], rnd.randint(1, 3)), rnd.sample(KNOWN, 7)))
    def q(l): return '[' + '; '.join('"%s"' % x for x in l) + ']'
    text = scn.PREAMBLE.replace('Scenario.', 'Scenario ScnMarkers.')
    from concurrent.futures import ThreadPoolExecutor
    def model(iv):
        i, (fixed, rest) = iv
        ok, out = coq.eval_cases(f'C04_tab_{i:02d}', text + f'Eval vm_compute in show_shard {q(fixed)} {q(rest)}.\n', timeout=900)
        res = coq.parse_strings(out) if ok else []
        return res[0].split('\n') if len(res) == 1 else None, out
    models = [None] * len(shards)
    if model_available:
        with ThreadPoolExecutor(max_workers=8) as ex:
            models = list(ex.map(model, enumerate(shards)))
    for (fixed, rest), mres in zip(shards, models):
        sets = [fixed + s for s in powerset(rest)]
        im = impl.run_impl('c04_table.py', {'sets': sets, 'doc_markers': DOC})
        mo = mres[0] if mres else None
        if model_available and mo is None:
            fr.errors.append('marker table cases failed: ' + (mres[1][-800:] if mres else ''))
        for j, (M, oi) in enumerate(zip(sets, im)):
            fr.evaluations += 1
            if M: fr.add_nontrivial({'markers': sorted(M)})
            preds, lint, alias_bits = oi.split('/')
            for (al, canon), bit in zip(ALIASES, alias_bits):
                if (bit == '1') != spec_covers(M, canon):
                    fr.violations.append({'scenario': {'family': 'marker-table', 'markers': M, 'marker': al}, 'impl': oi, 'signature': None,
                                          'what': f'the linter decides covered={bit} for the marker {al} (another name of {canon}) under has({M}), the table requires {spec_covers(M, canon)}'})
            want_rt = {2: spec_covers(M, 'stdout'), 3: spec_covers(M, 'stderr'), 0: spec_covers(M, 'network')}
            for idx, w in want_rt.items():
                if (preds[idx] == '1') != w:
                    fr.violations.append({'scenario': {'family': 'marker-table', 'markers': M}, 'impl': oi, 'signature': None,
                                          'what': f'runtime predicate #{idx} is {preds[idx]} for markers {M}, the table requires {w}'})
            for m, bit in zip(DOC, lint):
                if m == 'io': continue
                if (bit == '1') != spec_covers(M, m):
                    fr.violations.append({'scenario': {'family': 'marker-table', 'markers': M, 'marker': m}, 'impl': oi, 'signature': None,
                                          'what': f'the linter decides covered={bit} for marker {m} under has({M}), the table requires {spec_covers(M, m)}'})
            if mo is not None:
                fr.programs += 1; fr.traces_validated += 1
                if mo[j] != oi:
                    fr.disagreements.append({'scenario': {'family': 'marker-table', 'markers': M}, 'impl': oi, 'model': mo[j]})
    fr.distribution['marker_sets'] = sum(2 ** len(r) for _, r in shards)
    fr.exhaustive = ctx.tier == 'thorough'
    fr.samples.append({'family': 'marker-table', 'markers': ['print', 'custom'], 'runtime-predicates/linter-coverage': impl.run_impl('c04_table.py', {'sets': [['print', 'custom']], 'doc_markers': DOC})[0]})


EFFECTS = ['out', 'err', 'sock', None]
NEED = {'out': 'stdout', 'err': 'stderr', 'sock': 'network'}


def make(rnd, k):
    ids = gen.Ids()
    M = rnd.sample(KNOWN + ['custom', 'db'], rnd.choice([0, 0, 1, 1, 2, 3]))
    kind = rnd.choice(['sync', 'sync', 'async', 'gen'])
    msg = rnd.choice([None, None, 'no side effects here'])
    exc = None
    r = rnd.random()
    if r < .15: exc = ['class', scn.cls('ValueError')]
    elif r < .3: exc = ['inst', scn.cls('KeyError'), [{'s': 'custom instance'}]]
    elif r < .4: exc = ['class', scn.cls('OfflineContractError')]
    effs = [rnd.choice(EFFECTS) for _ in range(rnd.randint(1, 2))]
    body = []
    if kind == 'gen': body.append(['yield', ['const', I(1)]])
    for e in effs:
        if e: body.append(['effect', e])
    body.append(['return', ['const', I(7)]])
    if kind == 'sync' and rnd.random() < .25:
        # re-entrance: f(1) first calls f(0) (which performs nothing), then performs its effects: they must still be judged by M
        body = [['if', ['bin', 'gt', ['var', 'n'], ['const', I(0)]], [['call', 'f', [['bin', 'sub', ['var', 'n'], ['const', I(1)]]], []]], []]]
        body += [['if', ['bin', 'eq', ['var', 'n'], ['const', I(1)]], [['effect', e]], []] for e in effs if e]
        body.append(['return', ['const', I(7)]])
    stack = [['has', ids(), M, msg, exc]]
    if rnd.random() < .3:
        stack.append(['pre', gen.gen_sval(rnd, ids, [['n', 'PosOrKw', None]])])
    rnd.shuffle(stack)
    driver = [['gennew', 0, 'f', [I(1)], []], ['next', 0], ['next', 0]] if kind == 'gen' else [['call', 'f', [I(1)], []]]
    return {'funs': [{'name': 'f', 'kind': kind, 'sig': [['n', 'PosOrKw', None]], 'stack': stack, 'body': body}], 'driver': driver}


def monitor(sc, obs):
    acts = O.split(obs)
    if acts is None:
        return [('harness/observation error: ' + str(obs)[:200], None)]
    f = sc['funs'][0]
    has = [it for it in f['stack'] if it[0] == 'has'][0]
    pres = [it[1] for it in f['stack'] if it[0] == 'pre']
    M, msg, exc = has[2], has[3], has[4]
    if any(pyeval.verdict(v, f['sig'], [I(1)], [])[0] != 'accept' for v in pres):
        return []
    effs = [s[1] for s in f['body'] if s[0] == 'effect'] + [s[2][0][1] for s in f['body'] if s[0] == 'if' and s[2] and s[2][0][0] == 'effect']
    events = [e for a in acts for e in a.effects()]
    out = []
    final = acts[-1]
    blocked_seen = False
    for i, e in enumerate(effs):
        allowed = spec_covers(M, NEED[e])
        if i >= len(events):
            break
        ev = events[i]
        name = {'out': 'out', 'err': 'err', 'sock': 'sock'}[e]
        if allowed and ev != f'E {name}':
            out.append((f'effect {e} under has({M}) should be allowed and behave as without the decorator; observed {ev!r}', None)); break
        if not allowed:
            if ev != f'K {name}':
                out.append((f'effect {e} under has({M}) should be blocked; observed {ev!r}', None)); break
            default = 'OfflineContractError' if e == 'sock' else 'SilentContractError'
            want = exc[1]['name'] if exc else default
            if not (final.kind == 'X' and final.exc_class == want):
                out.append((f'blocked {e} should raise {want}; outcome {final.outcome!r}', None))
            elif msg and not exc and f'msg=<{msg}>' not in final.outcome:
                out.append((f'blocked {e} should carry the configured message {msg!r}; outcome {final.outcome!r}', None))
            blocked_seen = True
            break
    if not blocked_seen and not out and effs and len(events) == len(effs):
        if not (final.kind in ('R', 'STOP') ):
            out.append((f'all effects are allowed but the call ended with {final.outcome!r}', None))
    return out


def nontrivial(sc, obs):
    return any(s[0] == 'effect' for s in sc['funs'][0]['body'])


def features(sc, obs):
    return ['kind=' + sc['funs'][0]['kind'], 'blocked' if '|K ' in '|' + obs else 'not-blocked']


EFFECT_SRC = {'stdout': ['print(1)', 'sys.stdout.write("x")'], 'stderr': ['sys.stderr.write("x")', 'print(1, file=sys.stderr)'],
              'syscall': ['os.system("ls")', 'subprocess.check_output(["ls"])', 'subprocess.run(["ls"])', 'subprocess.call(["ls"])', 'subprocess.Popen(["ls"])', 'os.kill(0, 0)', 'os.popen("ls")'],
              'read': ['open("f").read()', 'open("words.txt").read()', 'open("f", "r").read()', 'open("f", mode="rb").read()', 'open("f", "rt", encoding="w").read()'],
              'stdin': ['input()'],
              'write': ['open("f", "w").write("x")', 'open("f", "a").write("x")', 'open("f", mode="w").write("x")', 'open("f", "x").write("x")', 'open("f", "r+").write("x")', 'open("f", "wb").write(b"x")'],
              'random': ['random.random()', 'random.randint(1, 2)', 'random.choice([1])'], 'time': ['time.time()', 'time.monotonic()']}


def lint_part(ctx, fr):
    rnd = random.Random(ctx.seed + 44)
    cases, meta = [], []
    for m, code in [(m, code) for m, codes in EFFECT_SRC.items() for code in codes]:
        for _ in range(2 if ctx.tier == 'quick' else 8):
            M = rnd.sample(KNOWN, rnd.choice([0, 1, 1, 2, 3]))
            args = ', '.join(repr(x) for x in M)
            src = f'import deal\nimport sys, os, socket, random, time, subprocess\n\n@deal.has({args})\ndef f():\n    {code}\n    return 1\n'
            cases.append({'src': src, 'backend': rnd.choice(['ast', 'astroid'])}); meta.append((M, m))
    res = impl.run_impl('lint_src.py', cases)
    for (M, m), c, r in zip(meta, cases, res):
        fr.evaluations += 1; fr.add_nontrivial({'lint': [sorted(M), m]})
        if 'crash' in r:
            fr.violations.append({'scenario': {'family': 'lint-source', **c}, 'impl': r, 'what': 'the linter crashed: ' + r['crash'], 'signature': None}); continue
        reported = {e[3].split('(')[-1].rstrip(')') for e in r['errors'] if e[2].startswith('DEL04') or e[2].startswith('DEL05')}
        want = not spec_covers(M, m)
        if (m in reported) != want:
            fr.violations.append({'scenario': {'family': 'lint-source', **c}, 'impl': r, 'signature': None,
                                  'what': f'has({M}) with a {m} effect: the linter should{"" if want else " not"} report missed marker ({m}); it reported {sorted(reported)}'})
    fr.distribution['lint_sources'] = len(cases)


WAYS_SRC = r"""
import deal, socket, sys, itertools
__name__ = "c04_ways_probe"
def probe():
    # every way of making the effect, not only the plainest one: a socket from scratch, from a descriptor, a pair; print / write / writelines
    bad = []
    a, b = socket.socketpair()
    try:
        ways = {
            "socket": [lambda: socket.socket().close(), lambda: socket.socket(socket.AF_INET, socket.SOCK_STREAM).close(),
                       lambda: socket.socket(fileno=a.fileno()).detach(), lambda: socket.fromfd(a.fileno(), socket.AF_UNIX, socket.SOCK_STREAM).close(),
                       lambda: [s.close() for s in socket.socketpair()]],
            "stdout": [lambda: print("", end=""), lambda: sys.stdout.write(""), lambda: sys.stdout.writelines([""]), lambda: print("", end="", file=sys.stdout)],
            "stderr": [lambda: sys.stderr.write(""), lambda: print("", end="", file=sys.stderr), lambda: sys.stderr.writelines([""])],
        }
        covers = {"socket": {"io", "network", "socket"}, "stdout": {"io", "print", "stdout"}, "stderr": {"io", "stderr"}}
        sets = [(), ("stdout",), ("stderr",), ("network",), ("socket",), ("print",), ("io",), ("stdout", "stderr"), ("custom",), ("global", "import")]
        for markers in sets:
            for kind, fs in ways.items():
                for i, way in enumerate(fs):
                    @deal.has(*markers)
                    def f(): way(); return "done"
                    try: got = f()
                    except deal.MarkerError as e: got = type(e).__name__
                    except BaseException as e: got = "exc:" + type(e).__name__
                    allowed = bool(set(markers) & covers[kind])
                    want = "done" if allowed else ("OfflineContractError" if kind == "socket" else "SilentContractError")
                    if got != want: bad.append([list(markers), kind, i, got, want])
    finally:
        a.close(); b.close()
    return bad

def reentry_probe():
    # the same has() patcher entered twice (recursion; one has() object on two functions, one calling the other); the inner call ends
    # with an ordinary exception that the outer one catches: the outer body is still guarded afterwards
    import sys
    out = {}
    orig = (sys.stdout, sys.stderr, socket.socket)
    def outcome(run):
        try: return run()
        except deal.SilentContractError: return "SilentContractError"
        except deal.OfflineContractError: return "OfflineContractError"
        except BaseException as e: return "exc:" + type(e).__name__
    @deal.has()
    def rec(n, effect):
        if n == 0: raise ValueError("inner")
        try: rec(n - 1, effect)
        except ValueError: pass
        effect()
        return "done"
    shared = deal.has()
    @shared
    def inner(): raise KeyError("inner")
    @shared
    def outer(effect):
        try: inner()
        except KeyError: pass
        effect()
        return "done"
    @deal.has()
    def grec(n, effect):
        if n == 0: raise ValueError("inner")
        try: list(grec(n - 1, effect))
        except ValueError: pass
        effect()
        yield "done"
    effects = {"stdout": (lambda: print("", end=""), "SilentContractError"), "stderr": (lambda: sys.stderr.write(""), "SilentContractError"),
               "socket": (lambda: socket.socket().close(), "OfflineContractError")}
    for name, (eff, want) in effects.items():
        for label, run in (("recursion depth 1", lambda: rec(1, eff)), ("recursion depth 2", lambda: rec(2, eff)), ("shared has object", lambda: outer(eff)),
                           ("recursive generator", lambda: list(grec(1, eff)))):
            got = outcome(run)
            restored = (sys.stdout, sys.stderr, socket.socket) == orig
            sys.stdout, sys.stderr, socket.socket = orig
            out[f"{label}/{name}"] = True if (got == want and restored) else [got, want, restored]
    return out

def kinds_probe():
    # every kind of function body: plain, generator, coroutine, asynchronous generator. The undeclared print inside the body is blocked,
    # the declared one goes through
    import asyncio
    out = {}
    def run(kind, markers):
        if kind == "sync":
            @deal.has(*markers)
            def f(): print("", end=""); return 1
            return lambda: f()
        if kind == "gen":
            @deal.has(*markers)
            def f():
                print("", end=""); yield 1
            return lambda: list(f())
        if kind == "async":
            @deal.has(*markers)
            async def f(): print("", end=""); return 1
            return lambda: asyncio.run(f())
        @deal.has(*markers)
        async def f():
            print("", end=""); yield 1
        async def drain(): return [v async for v in f()]
        return lambda: asyncio.run(drain())
    for kind in ("sync", "gen", "async", "asyncgen"):
        for markers in ((), ("stdout",)):
            try: run(kind, markers)(); got = "done"
            except deal.SilentContractError: got = "SilentContractError"
            except BaseException as e: got = "exc:" + type(e).__name__
            out[kind + ("/declared" if markers else "/undeclared")] = got
    return out
"""


def reentry_part(ctx, fr):
    r = impl.run_impl('pyexec.py', {'src': WAYS_SRC, 'calls': [['reentry_probe', []]]})[0]
    fr.evaluations += 12; fr.add_nontrivial({'reentry_probe': 1}); fr.samples.append({'family': 're-entered has() patcher with a failing inner call', 'result': r})
    bad = {k: v for k, v in (r.items() if isinstance(r, dict) and 'error' not in r else [('error', r)]) if v is not True}
    if bad:
        k0 = sorted(bad)[0]
        fr.violations.append({'scenario': {'family': 'reentry', 'case': k0}, 'impl': bad, 'signature': None,
                              'what': f'after an inner call of the same has() patcher ended with an exception the outer body is no longer guarded (or the streams are not restored): {k0}: [observed, expected, restored] = {bad[k0]}'})


def kinds_part(ctx, fr):
    r = impl.run_impl('pyexec.py', {'src': WAYS_SRC, 'calls': [['kinds_probe', []]]})[0]
    fr.evaluations += 8; fr.samples.append({'family': 'kinds of function bodies under has()', 'result': r})
    for kind in ('sync', 'gen', 'async', 'asyncgen'):
        got = [r.get(kind + '/undeclared'), r.get(kind + '/declared')] if isinstance(r, dict) else r
        if got != ['SilentContractError', 'done']:
            # C04-F1: an asynchronous generator function is wrapped like a plain function: the patch covers the creation of the
            # generator object only
            fr.violations.append({'scenario': {'family': 'body-kinds', 'kind': kind}, 'impl': r, 'signature': 'async_generator_body' if kind == 'asyncgen' else None,
                                  'what': f'a print inside the body of a {kind} function under has() / has("stdout"): observed {got}, expected [SilentContractError, done]'})


def ways_part(ctx, fr):
    r = impl.run_impl('pyexec.py', {'src': WAYS_SRC, 'calls': [['probe', []]]})[0]
    fr.evaluations += 120; fr.add_nontrivial({'ways_probe': 1})
    fr.samples.append({'family': 'ways of making an effect', 'deviations': r})
    if isinstance(r, dict): fr.errors.append('C04 ways probe failed: ' + str(r)[:400])
    elif r:
        fr.violations.append({'scenario': {'family': 'ways', 'case': r[0]}, 'impl': r[:6], 'signature': None,
                              'what': f'[markers, effect, way, observed, expected] = {r[0]}: the effect is blocked iff no covering marker is declared, whichever way it is made'})


_me = sys.modules[__name__]
def run(ctx, fr, model_available=True):
    base_scn.run(_me, ctx, fr, model_available)
    table_part(ctx, fr, model_available)
    lint_part(ctx, fr)
    ways_part(ctx, fr)
    kinds_part(ctx, fr)
    reentry_part(ctx, fr)
def search(ctx, fr, model_available=True): return base_scn.search(_me, ctx, fr, model_available)
classify = base_scn.classify
