"""C19 -- decorate only adds correct contracts and never changes the program. The planner model (Sem/DecorateModel.v) and the
regenerated mutation algebra (Gen/Transformer.v) are run on the descriptors of real modules and compared with what
Transformer.transform() plans and emits; Python's own parser, the linter and repeated application are the monitors."""
from __future__ import annotations
import random, json, sys, os, glob, ast
from ..harness import coq, impl, pygen

pid = 'C19'
gen_modules = ['tr_transformer', 'tr_rest_lintcontract', 'tr_rest_decoratecli', 'tr_rest_transformerconst', 'tr_rest_climain']
model_targets = ['Sem/ScnDecorate.v']
hand_modelled = ['coq/Sem/DecorateModel.v: Transformer.transform / _mutations_excs / _mutations_markers / _mutations_property / _mutations_pure / _mutations_import / '
                 '_get_insert_line (hand-written; source pinned by tools/py2coq/transformer_pins.json)',
                 'the Python grammar (validity, AST equality), astroid and the linter rules (what is still undeclared) are oracles: inputs of the model, monitors of the output']
explanation = ('Theorems: applying the sorted line mutations equals the per-line nested reading (no mutation shifts a line another one addresses); under the planner\'s '
               'well-formedness conditions the output is the original lines minus the removed ones plus inserted lines plus appended comments; the new raises / has contract '
               'lists everything declared before. Correspondence: plan and output of the model = plan and output of Transformer.transform() on generated and real modules. '
               'Monitors: output parses; normalised AST and docstring unchanged; declarations only grow; fixpoint reached; linter clean at the fixpoint; same definitions.')
RULE = ('grammar-generated modules (1-4 functions + optional class with methods / static / class methods / properties, async functions, one-line bodies, multi-line signatures and '
        'decorators, docstrings, shebang, __future__ import, plain / from imports, existing deal contracts of every layout, foreign decorators, bodies over the effect fragment nested '
        'under if/for/while/with/try) x subsets of transformation types x quote style, plus files of the repository and of the standard library; '
        'non-trivial = the transformation plans at least one mutation')
ALL = ['raises', 'has', 'safe', 'pure', 'import']


def cstr(s: str) -> str:
    return '"' + s.replace('"', '""') + '"'


def clist(xs) -> str:
    return '[' + '; '.join(xs) + ']'


CAT = {'raises': 'CRaises', 'safe': 'CSafe', 'pure': 'CPure', 'has': 'CHas', 'other': 'COther'}


def coq_case(case, r) -> str:
    d = r['descr']
    ty = '{| ' + '; '.join(f't_{t} := {"true" if t in case["types"] else "false"}' for t in ALL) + ' |}'
    body = clist([f'SImport {b[1]} {clist([cstr(n) for n in b[2]])}' if b[0] == 'I' else f'SImportFrom {b[1]} {cstr(b[2] or "")}' if b[0] == 'F' else 'SOther'
                  for b in d['body']])
    fs = []
    for f in d['funcs']:
        decos = clist([f'DName {x[1]} {cstr(x[2])}' if x[0] == 'N' else f'DInherit {x[1]}' if x[0] == 'H' else f'DOther {x[1]}' for x in f['decos']])
        cs = clist([f'{{| c_cat := {CAT[c["cat"]]}; c_line := {c["line"]}; c_last := {c["last"]}; c_excs := {clist([cstr(e) for e in c["excs"]])}; c_markers := {clist([cstr(e) for e in c["markers"]])}; c_inherited := {"true" if c.get("inherited") else "false"} |}}'
                    for c in f['contracts']])
        fs.append(f'{{| f_line := {f["line"]}; f_col := {f["col"]}; f_decos := {decos}; f_contracts := {cs}; '
                  f'f_new_excs := {clist([cstr(e) for e in f["new_excs"]])}; f_new_markers := {clist([cstr(e) for e in f["new_markers"]])} |}}')
    opt = lambda x: 'None' if x is None else '(Some ' + clist([cstr(s) for s in x]) + ')'
    head = '{| doc_end := ' + ('None' if d.get('doc_end') is None else f'(Some {d["doc_end"]})') + f'; shebang := {"true" if d.get("shebang") else "false"} |}}'
    return (f'(check_case {cstr(case.get("quote", chr(39)))} {ty} {head} {body} {clist(fs)} {clist([cstr(l) for l in r["lines"]])} {opt(r["plan"])} {opt(r["out"])})')


def corpus_files(tier, rnd):
    import sysconfig
    files = sorted(glob.glob(os.path.join(coq.REPO, 'deal', '**', '*.py'), recursive=True))
    std = sorted(glob.glob(os.path.join(sysconfig.get_paths()['stdlib'], '*.py')))
    rnd2 = random.Random(rnd.random())
    pick = rnd2.sample(files, min(len(files), 25 if tier == 'thorough' else 6)) + rnd2.sample(std, min(len(std), 40 if tier == 'thorough' else 6))
    out = []
    for p in pick:
        try:
            s = open(p, encoding='utf8').read()
        except Exception:
            continue
        if not s.isascii() or s.count('\n') > 600 or '\r' in s: continue
        out.append({'src': s, 'types': ALL, 'quote': "'", 'origin': os.path.relpath(p, '/'), 'noexec': True})
    return out


def gen_cases(tier, seed):
    rnd = random.Random(seed * 31 + 19)
    n = 1200 if tier == 'thorough' else 220
    cases = []
    cdir = os.path.join(coq.VERIF, 'corpus', 'C19')
    for f in sorted(glob.glob(os.path.join(cdir, '*.json'))):
        cases.append(json.load(open(f)))
    for i in range(n):
        m = pygen.gen_module(rnd)
        types = ALL if rnd.random() < .6 else sorted(rnd.sample(ALL, rnd.randint(1, 4)))
        cases.append({'src': pygen.render(m), 'types': types, 'quote': rnd.choice(["'", "'", '"']), 'module': m})
    return cases + corpus_files(tier, rnd)


def multiline_deco_lines(src):
    out = set()
    try:
        tree = ast.parse(src)
    except SyntaxError:
        return out
    for node in ast.walk(tree):
        if isinstance(node, (ast.FunctionDef, ast.AsyncFunctionDef)):
            for d in node.decorator_list:
                if d.end_lineno and d.end_lineno > d.lineno: out.add(d.lineno)
    return out


def monitor(case, r):
    out = []
    if 'harness_error' in r: return [('harness error: ' + r['harness_error'], None)]
    plan = r.get('plan') or []
    removes = [int(p.split()[1]) for p in plan if p.startswith('R ')]
    tag = None
    if len(removes) != len(set(removes)): tag = 'pure_split_twice'
    elif set(removes) & multiline_deco_lines(case['src']): tag = 'multiline_decorator_removed'
    mon = r.get('mon', {})
    if r.get('model_wf') is False: out.append(('the plan is not well-formed (two Removes of one line, or a comment appended to a line that is also edited)', tag))
    if r.get('exc'):
        t = 'pure_split_twice' if 'unexpected contract generated' in r['exc'] else tag
        return [(f'decorate raised {r["exc"]}', t)]
    if not mon.get('parses', True):
        return [(f'the output is not valid Python: {mon.get("syntax_error")}', tag)]
    if 'monitor_error' in mon: return [('monitor error: ' + mon['monitor_error'], None)]
    if mon.get('ast_equal') is False: out.append(('the syntax tree changed beyond deal decorators / import deal / comments', tag))
    if mon.get('docstring_kept') is False: out.append(('the module docstring is no longer the module docstring', tag))
    if mon.get('shebang_kept') is False: out.append(('the shebang line is no longer the first line', tag))
    for l in mon.get('lost', []): out.append(('a declaration was lost: ' + l, tag))
    if mon.get('later_pass_crash'): out.append(('repeated application: ' + mon['later_pass_crash'], 'pure_split_twice' if 'unexpected contract' in mon['later_pass_crash'] else tag))
    if mon.get('later_pass_syntax'): out.append(('repeated application yields invalid Python: ' + mon['later_pass_syntax'], tag))
    if mon.get('fixpoint') is False and not mon.get('later_pass_crash') and not mon.get('later_pass_syntax'): out.append((f'no fixpoint after {mon.get("passes")} passes', tag))
    if mon.get('monotone') is False: out.append(('declarations shrank between passes', tag))
    if mon.get('findings_at_fixpoint'): out.append(('the linter still reports at the fixpoint: ' + '; '.join(mon['findings_at_fixpoint'][:3]), tag))
    if mon.get('new_exec_error') and not case.get('noexec') and 'import' in case['types']: out.append(('the original module executes, the transformed one raises ' + mon['new_exec_error'], tag))
    for dff in mon.get('probe_diffs', []): out.append(('executing the transformed module behaves differently: ' + dff, tag))
    if mon.get('same_definitions') is False and not case.get('noexec'): out.append(('executing the transformed module defines different names', tag))
    return out


def run(ctx, fr, model_available=True, cases=None):
    cases = cases if cases is not None else gen_cases(ctx.tier, ctx.seed)
    res = []
    for i in range(0, len(cases), 80):
        res += impl.run_impl('c19_decorate.py', [{k: c[k] for k in ('src', 'types', 'quote', 'probes') if k in c} for c in cases[i:i + 80]], timeout=1500)
    mo = [None] * len(cases)
    if model_available:
        idx = [i for i, r in enumerate(res) if r.get('descr') is not None and 'harness_error' not in r]
        for lo in range(0, len(idx), 150):
            part = idx[lo:lo + 150]
            text = ('From Coq Require Import List String.\nImport ListNotations.\nFrom Deal Require Import Transformer DecorateModel ScnDecorate.\nOpen Scope string_scope.\n'
                    + ''.join(f'Eval vm_compute in {coq_case(cases[i], res[i])}.\n' for i in part))
            ok, outp = coq.eval_cases(f'C19_{lo}', text)
            strs = coq.parse_strings(outp) if ok else []
            if len(strs) != len(part):
                fr.errors.append(f'C19 cases failed ({len(strs)} of {len(part)} results): ' + outp[-1500:]); continue
            for i, s in zip(part, strs): mo[i] = s
    dist = {'generated': 0, 'corpus': 0, 'planned': 0, 'all_types': 0, 'wf_false': 0}
    for c, r, m in zip(cases, res, mo):
        fr.evaluations += 1
        dist['corpus' if c.get('origin') else 'generated'] += 1
        dist['all_types'] += set(c['types']) >= set(ALL)
        if r.get('plan'): fr.add_nontrivial({'src': c['src'][:200], 'types': c['types']}); dist['planned'] += 1
        scen = {'src': c['src'], 'types': c['types'], 'quote': c.get('quote', "'"), 'origin': c.get('origin')}
        if m is not None and ' wf=0' in m: r['model_wf'] = False
        for what, tag in monitor(c, r):
            # a hand-written corpus case can name the known finding it exhibits: only for the kind of failure it describes
            kn = c.get('known')
            if tag is None and kn and any(x in what for x in kn['match']): tag = kn['signature']
            fr.violations.append({'scenario': scen, 'impl': {k: r.get(k) for k in ('plan', 'out', 'exc', 'mon')}, 'what': what, 'signature': tag})
        if m is not None:
            fr.programs += 1; fr.traces_validated += 1
            if ' wf=0' in m: dist['wf_false'] += 1
            if not m.startswith('plan=ok out=ok'):
                fr.disagreements.append({'scenario': scen, 'impl': {'plan': r.get('plan'), 'out': r.get('out'), 'exc': r.get('exc')}, 'model': m})
    fr.rule = RULE
    fr.samples.append({'case': {k: cases[0][k] for k in ('src', 'types')}, 'impl': {k: res[0].get(k) for k in ('plan', 'exc')}})
    fr.distribution = dist


def search(ctx, fr, model_available=True):
    for k in range(1, 4):
        class C2: tier = 'thorough'; seed = ctx.seed + 100 * k
        fr2 = type(fr)()
        run(C2, fr2, model_available=False)
        fr.violations += fr2.violations; fr.evaluations += fr2.evaluations
        if [v for v in fr2.violations if not v.get('signature')]: return


def classify(v, findings):
    for f in findings:
        if f.get('status') == 'open' and f.get('signature') and f['signature'] == v.get('signature'):
            return f['id']
    return None
