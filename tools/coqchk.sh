#!/bin/sh
# Re-check every compiled property file with Coq's independent checker and list the axioms of everything it loads.
# Usage: tools/coqchk.sh   (after ./setup.sh; 1-5 minutes; output in audit/coqchk.txt)
cd "$(dirname "$0")/../_build/coq" || exit 2
mods=$(ls Props/*.vo | sed 's#/#.#; s#\.vo$##; s#^#Deal.#')
timeout 3000 coqchk -silent -o -R . Deal $mods > ../../audit/coqchk.txt 2>&1
echo "coqchk exit status: $?" >> ../../audit/coqchk.txt
tail -15 ../../audit/coqchk.txt
