#!/bin/sh
# Re-check every compiled property file with Coq's independent checker and list the axioms of everything it loads.
# Usage: tools/coqchk.sh   (after ./setup.sh; 1-5 minutes; output in evidence/coqchk.txt)
cd "$(dirname "$0")/../_build/coq" || exit 2
mods=$(ls Props/*.vo | sed 's#/#.#; s#\.vo$##; s#^#Deal.#')
timeout 3000 coqchk -silent -o -R . Deal $mods > ../../evidence/coqchk.txt 2>&1
echo "coqchk exit status: $?" >> ../../evidence/coqchk.txt
tail -15 ../../evidence/coqchk.txt
