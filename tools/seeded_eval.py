#!/venv/bin/python
"""Evaluate a seeded change: tools/seeded_eval.py <dir under seeded/> [check ids...]
 1. /repo must be clean; demo.py on the unchanged tree must print PROPERTY HOLDS
 2. git -C /repo apply patch.diff; demo.py must print PROPERTY BROKEN
 3. run ./check <id> (quick tier) for the property (and any extra ids given); record exit status and VIOLATION lines
 4. git -C /repo checkout -- . (always)
Writes the outcome into seeded/<dir>/result.json."""
import json, os, subprocess, sys, time
ROOT = os.path.dirname(os.path.dirname(os.path.abspath(__file__)))


def sh(cmd, **kw):
    return subprocess.run(cmd, stdout=subprocess.PIPE, stderr=subprocess.STDOUT, text=True, **kw)


def demo(d):
    env = dict(os.environ, PYTHONPATH='/repo', PYTHONHASHSEED='0')
    p = sh(['/venv/bin/python', os.path.join(d, 'demo.py')], env=env, cwd='/tmp', timeout=600)
    lines = [l for l in p.stdout.splitlines() if l.startswith('PROPERTY ')]
    return (lines[0] if lines else p.stdout[-300:])


def keep_in_corpus(pid, v, name):
    sc = v.get('scenario')
    if not isinstance(sc, dict): return
    d = os.path.join(ROOT, 'corpus', pid)
    out = None
    if ('funs' in sc or 'contracts' in sc) and pid in ('C01', 'C02', 'C03', 'C04', 'C06', 'C08', 'C09', 'C10', 'C12', 'C14'): out = sc      # families that run corpus/<pid> first
    elif pid == 'C05' and 'invs' in sc: out = sc
    elif pid == 'C11' and 'classes' in sc: out = sc
    elif pid == 'C18' and 'module' in sc: out = sc['module']
    elif pid == 'C19' and 'src' in sc: out = {k: sc[k] for k in ('src', 'types', 'quote') if k in sc}
    elif pid == 'C17' and 'src' in sc and 'item' in sc: out = {'src': sc['src'], 'items': [sc['item']], 'helpers': ''}
    elif pid == 'C16' and 'src' in sc and len(sc['src']) < 3900:
        os.makedirs(d, exist_ok=True)
        open(os.path.join(d, f'seeded-{name}.py'), 'w').write(sc['src']); print('corpus: kept', f'corpus/{pid}/seeded-{name}.py'); return
    if out is None: return
    os.makedirs(d, exist_ok=True)
    json.dump(out, open(os.path.join(d, f'seeded-{name}.json'), 'w'), indent=1)
    print('corpus: kept', f'corpus/{pid}/seeded-{name}.json')


def main():
    name = sys.argv[1]
    d = os.path.join(ROOT, 'seeded', name)
    meta = json.load(open(os.path.join(d, 'meta.json')))
    ids = sys.argv[2:] or [meta['property']]
    st = sh(['git', '-C', '/repo', 'status', '--porcelain', '--untracked-files=no']).stdout.strip()
    if st:
        print('repo not clean:', st); sys.exit(2)
    res = {'seed': name, 'property': meta['property'], 'checks': {}}
    res['demo_unchanged'] = demo(d)
    a = sh(['git', '-C', '/repo', 'apply', os.path.join(d, 'patch.diff')])
    if a.returncode:
        print('apply failed', a.stdout); sys.exit(2)
    try:
        res['demo_changed'] = demo(d)
        for pid in ids:
            t0 = time.time()
            p = sh([os.path.join(ROOT, 'check'), pid, '--tier', os.environ.get('SEED_TIER', 'quick')], cwd=ROOT)
            vio = [l for l in p.stdout.splitlines() if l.startswith('VIOLATION')]
            res['checks'][pid] = {'exit': p.returncode, 'violation': vio[:3], 'seconds': round(time.time() - t0),
                                  'tail': p.stdout.strip().splitlines()[-6:]}
            for v in vio[:1]:
                rp = v.split('replay=')[1].split()[0]
                rp = rp if os.path.isabs(rp) else os.path.join(ROOT, rp)
                if os.path.exists(rp):
                    try: res['checks'][pid]['replay_head'] = open(rp).read()[:1500]
                    except Exception: pass
    finally:
        sh(['git', '-C', '/repo', 'checkout', '--', '.'])
        sh(['git', '-C', ROOT, 'checkout', '--', 'evidence'])     # evidence describes runs on the unchanged tree only
    res['caught'] = any(c['exit'] == 1 and c['violation'] for c in res['checks'].values())
    # keep the first concrete failing input as a regression input of the family (run first by every later check)
    for pid, c in res['checks'].items():
        for v in c['violation']:
            if 'no-failing-input-found' in v: continue
            rp = v.split('replay=')[1].split()[0]
            try:
                keep_in_corpus(pid, json.load(open(rp)), name)
            except Exception as e:
                print('corpus: could not keep', rp, repr(e))
            break
    # the kept input must be a consequence of the change: on the unchanged tree the check has to stay quiet with it
    for pid in list(res['checks']):
        kept = [os.path.join(ROOT, 'corpus', pid, f) for f in (f'seeded-{name}.json', f'seeded-{name}.py')]
        kept = [k for k in kept if os.path.exists(k)]
        if not kept: continue
        p = sh([os.path.join(ROOT, 'check'), pid, '--tier', 'quick'], cwd=ROOT)
        sh(['git', '-C', ROOT, 'checkout', '--', 'evidence'])
        if p.returncode != 0:
            for k in kept: os.unlink(k)
            res['checks'][pid]['failing_input_fails_on_unchanged_tree'] = True
            print(f'corpus: the input kept for {pid} also fails on the unchanged tree (a defect or a false alarm independent of this change): removed, look at it')
    json.dump(res, open(os.path.join(d, 'result.json'), 'w'), indent=1)
    print(json.dumps({k: res[k] for k in ('seed', 'caught', 'demo_unchanged', 'demo_changed')}, indent=1)[:1500])
    for pid, c in res['checks'].items():
        print(pid, 'exit', c['exit'], c['seconds'], 's', *c['violation'][:1]); print('\n'.join(c['tail'][-3:]))


main()
