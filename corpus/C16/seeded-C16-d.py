import deal

@deal.pre(lambda x, y=0: x > 0)
def helper(x, y=0):
    return x

@deal.pure
def f():
    return helper(**{"x": 1}, y=2) + helper(*[1], **{"y": 3}) + helper(1, **{})
