import deal

@deal.safe
def f():
    return 1 / 0

@deal.safe
async def g():
    yield 1
    assert False
