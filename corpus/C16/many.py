import deal
@deal.safe
def f0():
    raise ValueError

@deal.safe
def f1():
    raise ValueError

@deal.safe
def f2():
    raise ValueError

@deal.safe
def f3():
    raise ValueError

@deal.safe
def f4():
    raise ValueError

@deal.safe
def f5():
    raise ValueError

@deal.safe
def f6():
    raise ValueError

@deal.safe
def f7():
    raise ValueError

@deal.safe
def f8():
    raise ValueError

@deal.safe
def f9():
    raise ValueError

@deal.safe
def f10():
    raise ValueError

@deal.safe
def f11():
    raise ValueError

