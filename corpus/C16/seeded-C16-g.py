import deal

inherit = deal.inherit

class A:
    @deal.pre(lambda self, x: x > 0)
    def m(self, x):
        return x

class B(A):
    @deal.chain(deal.inherit, deal.safe)
    def m(self, x):
        return x

class C(A):
    @inherit
    def m(self, x):
        return x

@deal.chain(deal.inherit, deal.pure)
def loose(x):
    return x

@inherit
def loose2(x):
    return x
