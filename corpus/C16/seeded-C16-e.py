import deal

@deal.has()
def f():
    n = 0
    def inc():
        nonlocal n
        n += 1
    inc()
    return n

def g():
    k = 0
    def h():
        nonlocal k
        k = 1
    h()

@deal.pure
def p():
    global Z
    g()
