import deal

@deal.pre(lambda a, b: a > b)
def g(a, b=2, *c, d, **e):
    return 1

@deal.safe
def f():
    return g(1, d=3) + g("x", 1, 2, d=None)
