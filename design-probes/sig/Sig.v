(* Prototype of Py/Sig.v: Python call binding, inspect.Signature.bind, and deal's _args_to_vars. *)
From Coq Require Import List ZArith Bool String.
Import ListNotations.
Open Scope string_scope.

Inductive value := VInt (z : Z) | VTuple (l : list value) | VDict (l : list (string * value)) | VEmpty.
Inductive pkind := PosOnly | PosOrKw | VarPos | KwOnly | VarKw.
Record param := { p_name : string; p_kind : pkind; p_default : option value }.
Definition sig := list param.
Definition binding := list (string * value).

Definition kind_eqb (a b : pkind) : bool :=
  match a, b with PosOnly, PosOnly | PosOrKw, PosOrKw | VarPos, VarPos | KwOnly, KwOnly | VarKw, VarKw => true | _, _ => false end.
Fixpoint lookup {X} (n : string) (l : list (string * X)) : option X :=
  match l with [] => None | (k, v) :: t => if String.eqb k n then Some v else lookup n t end.
Definition has_kind (k : pkind) (s : sig) := existsb (fun p => kind_eqb (p_kind p) k) s.
Definition is_positional (p : param) := match p_kind p with PosOnly | PosOrKw => true | _ => false end.
Definition is_named (p : param) := match p_kind p with PosOrKw | KwOnly => true | _ => false end.

(* step 1: positional arguments *)
Fixpoint assign_pos (ps : list param) (args : list value) : binding * list value :=
  match ps, args with
  | p :: ps', a :: args' => let (b, rest) := assign_pos ps' args' in ((p_name p, a) :: b, rest)
  | _, _ => ([], args)
  end.

(* step 2: keyword arguments.  [strict_posonly]: inspect refuses a keyword naming an unfilled positional-only parameter *)
Fixpoint assign_kw (strict_posonly : bool) (s : sig) (kws : list (string * value)) (b : binding) (extra : list (string * value))
  : option (binding * list (string * value)) :=
  match kws with
  | [] => Some (b, extra)
  | (n, v) :: rest =>
    match find (fun p => String.eqb (p_name p) n) s with
    | Some p =>
      if is_named p then
        match lookup n b with
        | Some _ => None                                   (* multiple values for argument *)
        | None => assign_kw strict_posonly s rest (List.app b [(n, v)]) extra
        end
      else match p_kind p with
           | PosOnly =>
             if has_kind VarKw s
             then (match lookup n b with
                   | Some _ => assign_kw strict_posonly s rest b (List.app extra [(n, v)])
                   | None => if strict_posonly then None else assign_kw strict_posonly s rest b (List.app extra [(n, v)])
                   end)
             else None
           | _ => (* name of *args / **kw parameter used as keyword *)
             if has_kind VarKw s then assign_kw strict_posonly s rest b (List.app extra [(n, v)]) else None
           end
    | None => if has_kind VarKw s then assign_kw strict_posonly s rest b (List.app extra [(n, v)]) else None
    end
  end.

(* the function's own view: every parameter bound *)
Fixpoint finish (s : sig) (b : binding) (rest_pos : list value) (extra : list (string * value)) : option binding :=
  match s with
  | [] => Some []
  | p :: s' =>
    match finish s' b rest_pos extra with
    | None => None
    | Some tl =>
      match p_kind p with
      | VarPos => Some ((p_name p, VTuple rest_pos) :: tl)
      | VarKw => Some ((p_name p, VDict extra) :: tl)
      | _ => match lookup (p_name p) b with
             | Some v => Some ((p_name p, v) :: tl)
             | None => match p_default p with Some d => Some ((p_name p, d) :: tl) | None => None end
             end
      end
    end
  end.

Definition bind_gen (strict : bool) (s : sig) (args : list value) (kws : list (string * value)) : option binding :=
  let (b0, rest_pos) := assign_pos (filter is_positional s) args in
  if negb (has_kind VarPos s) && negb (match rest_pos with [] => true | _ => false end) then None else
  match assign_kw strict s kws b0 [] with
  | None => None
  | Some (b, extra) => finish s b rest_pos extra
  end.
Definition call_bind := bind_gen false.       (* what a real call does *)
Definition inspect_ok := bind_gen true.       (* inspect.Signature.bind succeeds iff this is Some *)

(* inspect's BoundArguments.arguments: only what was passed; empty *args / **kw omitted *)
Fixpoint passed_only (s : sig) (args : list value) (kws : list (string * value)) (full : binding) : binding :=
  match s with
  | [] => []
  | p :: s' =>
    let tl := passed_only s' args kws full in
    match lookup (p_name p) full with
    | None => tl
    | Some v =>
      match p_kind p with
      | VarPos => match v with VTuple [] => tl | _ => (p_name p, v) :: tl end
      | VarKw => match v with VDict [] => tl | _ => (p_name p, v) :: tl end
      | _ => (p_name p, v) :: tl   (* refined below: defaults are filtered by [was_passed] *)
      end
    end
  end.

(* deal._runtime._validators._args_to_vars (keep_result = true): kwargs.copy(); every parameter := its default
   (inspect._empty when it has none); then update with the bound arguments *)
Fixpoint upd (b : binding) (n : string) (v : value) : binding :=
  match b with
  | [] => [(n, v)]
  | (k, x) :: t => if String.eqb k n then (k, v) :: t else (k, x) :: upd t n v
  end.
Definition args_to_vars (s : sig) (args : list value) (kws : list (string * value)) : option binding :=
  match inspect_ok s args kws with
  | None => None
  | Some full =>
    let (b0, rest_pos) := assign_pos (filter is_positional s) args in
    let passed (p : param) : bool :=
      match p_kind p with
      | VarPos => negb (match rest_pos with [] => true | _ => false end)
      | VarKw => match lookup (p_name p) full with Some (VDict []) => false | _ => true end
      | _ => match lookup (p_name p) b0 with Some _ => true | None =>
               (match lookup (p_name p) kws with Some _ => is_named p | None => false end) end
      end in
    let with_defaults := fold_left (fun acc p => upd acc (p_name p) (match p_default p with Some d => d | None => VEmpty end)) s kws in
    Some (fold_left (fun acc p => if passed p then match lookup (p_name p) full with Some v => upd acc (p_name p) v | None => acc end else acc) s with_defaults)
  end.
