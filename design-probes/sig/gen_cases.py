import random, inspect, sys
from deal._runtime._validators import _args_to_vars
rnd = random.Random(int(sys.argv[1]) if len(sys.argv) > 1 else 1)
N = int(sys.argv[2]) if len(sys.argv) > 2 else 1000
KIND = {inspect.Parameter.POSITIONAL_ONLY: 'PosOnly', inspect.Parameter.POSITIONAL_OR_KEYWORD: 'PosOrKw',
        inspect.Parameter.VAR_POSITIONAL: 'VarPos', inspect.Parameter.KEYWORD_ONLY: 'KwOnly', inspect.Parameter.VAR_KEYWORD: 'VarKw'}
def gen_sig():
    n = rnd.randint(0, 4); names = ['a', 'b', 'c', 'd'][:n]
    posonly = rnd.randint(0, n) if rnd.random() < .35 else 0
    star = rnd.random() < .45; dstar = rnd.random() < .45
    kwonly_from = rnd.randint(posonly, n) if (star or rnd.random() < .3) else n
    parts = []; seen_default = False
    for i, nm in enumerate(names):
        if i == kwonly_from: parts.append('*args' if star else '*')
        d = ''
        if i >= kwonly_from:
            if rnd.random() < .5: d = f'={i*10}'
        else:
            if seen_default or rnd.random() < .4: d = f'={i*10}'; seen_default = True
        parts.append(nm + d)
        if posonly and i == posonly - 1: parts.append('/')
    if kwonly_from >= n and star: parts.append('*args')
    if dstar: parts.append('**kw')
    return ', '.join(parts), names
def gen_call(names):
    # mostly valid: choose how many positionals sensibly
    npos = rnd.choice([0, len(names), rnd.randint(0, len(names) + 1)])
    args = [rnd.randint(1, 9) for _ in range(npos)]
    kws = {}
    pool = names + ['z', 'args', 'kw']
    for nm in pool:
        if rnd.random() < .25: kws[nm] = rnd.randint(1, 9)
    return args, kws
def cv(v):
    if v is inspect._empty: return 'VEmpty'
    if isinstance(v, int): return f'(VInt ({v}))'
    if isinstance(v, tuple): return '(VTuple [' + '; '.join(cv(x) for x in v) + '])'
    if isinstance(v, dict): return '(VDict [' + '; '.join(f'("{k}", {cv(x)})' for k, x in v.items()) + '])'
    raise ValueError(v)
def cb(d): return '[' + '; '.join(f'("{k}", {cv(v)})' for k, v in d.items()) + ']'
def copt(d): return 'None' if d is None else f'(Some {cb(d)})'
cases = []; dist = {'valid': 0, 'typeerror': 0, 'inspect_differs': 0}
while len(cases) < N:
    s, names = gen_sig()
    ns = {}
    try: exec(f'def probe({s}): return dict(locals())', ns)
    except SyntaxError: continue
    probe = ns['probe']; sg = inspect.signature(probe)
    args, kws = gen_call(names)
    try: real = probe(*args, **kws)
    except TypeError: real = None
    try: sg.bind(*args, **kws); insp = True
    except TypeError: insp = False
    try: a2v = _args_to_vars(args=tuple(args), kwargs=dict(kws), signature=sg)
    except TypeError: a2v = None
    dist['valid' if real is not None else 'typeerror'] += 1
    if (real is not None) != insp: dist['inspect_differs'] += 1
    params = '[' + '; '.join('{| p_name := "%s"; p_kind := %s; p_default := %s |}' % (
        p.name, KIND[p.kind], 'None' if p.default is inspect._empty else f'(Some {cv(p.default)})') for p in sg.parameters.values()) + ']'
    cargs = '[' + '; '.join(cv(a) for a in args) + ']'
    ckws = '[' + '; '.join(f'("{k}", {cv(v)})' for k, v in kws.items()) + ']'
    cases.append(f'({params}, {cargs}, {ckws}, {copt(real)}, {"true" if insp else "false"}, {copt(a2v)})')
print('From Coq Require Import List ZArith Bool String.\nImport ListNotations.\nRequire Import Sig SigCheck.\nOpen Scope string_scope. Open Scope Z_scope.\n')
print('Definition cases : list case := [\n ' + ';\n '.join(cases) + '\n].\n')
print('Eval vm_compute in (List.length cases, count_bad cases, first_bad cases).')
print(f'(* distribution: {dist} *)', file=sys.stderr)
