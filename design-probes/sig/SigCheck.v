From Coq Require Import List ZArith Bool String.
Import ListNotations.
Require Import Sig.
Open Scope string_scope.
Definition case := (sig * list value * list (string * value) * option binding * bool * option binding)%type.
Fixpoint value_eqb (a b : value) {struct a} : bool :=
  match a, b with
  | VInt x, VInt y => Z.eqb x y
  | VEmpty, VEmpty => true
  | VTuple l1, VTuple l2 =>
      (fix go (l1 l2 : list value) := match l1, l2 with [], [] => true | x :: t1, y :: t2 => value_eqb x y && go t1 t2 | _, _ => false end) l1 l2
  | VDict l1, VDict l2 =>
      (fix go (l1 l2 : list (string * value)) := match l1, l2 with [], [] => true
        | (k1, x) :: t1, (k2, y) :: t2 => String.eqb k1 k2 && value_eqb x y && go t1 t2 | _, _ => false end) l1 l2
  | _, _ => false
  end.
Definition map_eqb (a b : binding) : bool :=
  Nat.eqb (List.length a) (List.length b) &&
  forallb (fun kv => match lookup (fst kv) b with Some v => value_eqb (snd kv) v | None => false end) a.
Definition opt_eqb (a b : option binding) := match a, b with None, None => true | Some x, Some y => map_eqb x y | _, _ => false end.
Definition check (c : case) : bool :=
  let '(s, args, kws, real, insp, a2v) := c in
  opt_eqb (call_bind s args kws) real &&
  Bool.eqb (match inspect_ok s args kws with Some _ => true | None => false end) insp &&
  opt_eqb (args_to_vars s args kws) a2v.
Definition count_bad (l : list case) := List.length (filter (fun c => negb (check c)) l).
Definition first_bad (l : list case) := match filter (fun c => negb (check c)) l with c :: _ =>
   let '(s, args, kws, real, insp, a2v) := c in Some (c, call_bind s args kws, inspect_ok s args kws, args_to_vars s args kws) | [] => None end.
