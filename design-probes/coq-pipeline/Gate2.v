From Coq Require Import List ZArith Bool String Lia.
Import ListNotations.
Require Import Prog Model GenContracts Interp Gate.
Set Implicit Arguments.

Section GateProof.
  Variable ftab : fid -> fdef.
  Variable lf : nat.
  Notation I := (interp ftab lf).

  Lemma vis_GetDebug fuel A (k : bool -> prog A) w : I fuel (Vis GetDebug k) w = I fuel (k (debug w)) w.
  Proof. destruct fuel; reflexivity. Qed.
  Lemma vis_SetDebug fuel A b (k : unit -> prog A) w : I fuel (Vis (SetDebug b) k) w = I fuel (k tt) (set_debug b w).
  Proof. destruct fuel; reflexivity. Qed.
  Lemma vis_Emit fuel A ev (k : unit -> prog A) w : I fuel (Vis (Emit ev) k) w = I fuel (k tt) (emit ev w).
  Proof. destruct fuel; reflexivity. Qed.

  (* a pre validator whose raw function is a pure verdict function *)
  Definition pure_plain (v : validator) (err : cls) (vf : pargs -> pkwargs -> verdict) :=
    v_kind v = VK_plain err /\ forall a k, v_fn v a k = Ret (vf a k).

  Lemma validate_accept fuel v err vf a k w :
    pure_plain v err vf -> vf a k = Accept ->
    I fuel (validate v a k None) w = Done (inl tt) (emit (EvValidator (v_id v)) w).
  Proof.
    intros [Hk Hf] Ha. unfold validate. rewrite Hk, Hf, Ha. cbn. rewrite vis_Emit. apply interp_ret.
  Qed.
  Lemma validate_reject fuel v err vf a k w :
    pure_plain v err vf -> vf a k = Reject ->
    I fuel (validate v a k None) w = Done (inr (mk_exn err)) (emit (EvValidator (v_id v)) w).
  Proof.
    intros [Hk Hf] Ha. unfold validate. rewrite Hk, Hf, Ha. cbn. rewrite vis_Emit. apply interp_raise.
  Qed.

  Definition emit_all (l : list validator) (w : world) := fold_left (fun w v => emit (EvValidator (v_id v)) w) l w.

  (* the generated loop  `for validator in self.pres: validator.validate(args, kwargs)`  *)
  Definition pre_loop (l : list validator) : stmt env :=
    s_for_list set_validator l (s_do (fun env => validate (get_validator env) (get_args env) (get_kwargs env) None)).

  Lemma pre_loop_reject fuel l1 v l2 e w err :
    (forall u, In u l1 -> exists eu vf, pure_plain u eu vf /\ vf (l_args e) (l_kwargs e) = Accept) ->
    (exists vf, pure_plain v err vf /\ vf (l_args e) (l_kwargs e) = Reject) ->
    I fuel (pre_loop (l1 ++ v :: l2) e) w = Done (inr (mk_exn err)) (emit (EvValidator (v_id v)) (emit_all l1 w)).
  Proof.
    revert e w. induction l1 as [|u l1 IH]; intros e w H1 [vf [Hv Hr]].
    - cbn [app pre_loop s_for_list]. rewrite interp_bind. unfold s_do. rewrite interp_bind.
      cbn [get_validator set_validator l_validator get_args get_kwargs l_args l_kwargs].
      rewrite (@validate_reject fuel v err vf _ _ _ Hv Hr). reflexivity.
    - destruct (H1 u (or_introl eq_refl)) as [eu [uf [Hu Ha]]].
      cbn [app pre_loop s_for_list]. rewrite interp_bind. unfold s_do at 1. rewrite interp_bind.
      cbn [get_validator set_validator l_validator get_args get_kwargs l_args l_kwargs].
      rewrite (@validate_accept fuel u eu uf _ _ _ Hu Ha). rewrite interp_ret. cbn [fst snd].
      change (s_for_list set_validator (l1 ++ v :: l2) _) with (pre_loop (l1 ++ v :: l2)).
      rewrite IH.
      + reflexivity.
      + intros u' Hin. destruct (H1 u' (or_intror Hin)) as [eu' [uf' [Hu' Ha']]]. exists eu', uf'. split; assumption.
      + exists vf. split; assumption.
  Qed.

  (* C01 (reject half, sync): with contracts enabled, a rejecting precondition stops the call before the body *)
  Theorem C01_gate_sync_reject fuel c a k w (l1 : list validator) v l2 err :
    debug w = true ->
    c_pres c = (l1 ++ v :: l2)%list ->
    (forall u, In u l1 -> exists eu vf, pure_plain u eu vf /\ vf a k = Accept) ->
    (exists vf, pure_plain v err vf /\ vf a k = Reject) ->
    I fuel (run_fn (run_sync lf c) a k) w =
      Done (inr (mk_exn err)) (set_debug true (emit (EvValidator (v_id v)) (emit_all l1 (set_debug false w)))).
  Proof.
    intros Hd Hp H1 Hv.
    unfold run_fn, run_sync. rewrite interp_bind.
    (* statement 1: if not state.debug: return ... *)
    unfold s_seq at 1. rewrite interp_bind.
    unfold s_if at 1. rewrite interp_bind. unfold fmap, trigger. cbn [bind].
    rewrite vis_GetDebug, interp_ret, Hd. cbn [negb]. unfold s_skip at 1. rewrite interp_ret. cbn [fst snd].
    (* statement 2: state.debug = False *)
    unfold s_seq at 1. rewrite interp_bind. unfold s_do at 1. rewrite interp_bind. unfold trigger.
    rewrite vis_SetDebug, !interp_ret. cbn [fst snd].
    (* statement 3: try: for ... finally: state.debug = True *)
    unfold s_seq at 1. rewrite interp_bind. unfold s_finally at 1. rewrite interp_bind.
    unfold s_for at 1. rewrite Hp.
    erewrite interp_try_except_done.
    2:{ rewrite interp_bind. fold (pre_loop (l1 ++ v :: l2)).
        rewrite (@pre_loop_reject fuel l1 v l2 (init_env a k) (set_debug false w) err H1 Hv). reflexivity. }
    cbn beta iota. rewrite interp_bind. unfold s_do at 1. rewrite interp_bind. unfold trigger.
    rewrite vis_SetDebug, !interp_ret. cbn [fst snd]. rewrite interp_raise. reflexivity.
  Qed.
End GateProof.
Print Assumptions C01_gate_sync_reject.
