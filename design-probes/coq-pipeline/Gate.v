(* How painful are proofs about the *generated* run_sync?  C01-style gate lemma, pre block only. *)
From Coq Require Import List ZArith Bool String Lia.
Import ListNotations.
Require Import Prog Model GenContracts Interp.
Set Implicit Arguments.

Section Lemmas.
  Variable ftab : fid -> fdef.
  Variable lf : nat.
  Notation I := (interp ftab lf).

  Lemma interp_ret fuel A (a : A) w : I fuel (Ret a) w = Done (inl a) w.
  Proof. destruct fuel; reflexivity. Qed.
  Lemma interp_raise fuel A e w : I fuel (@Raise A e) w = Done (inr e) w.
  Proof. destruct fuel; reflexivity. Qed.

  Lemma interp_bind fuel A B (p : prog A) (f : A -> prog B) w :
    I fuel (bind p f) w =
    match I fuel p w with
    | Done (inl a) w1 => I fuel (f a) w1
    | Done (inr e) w1 => Done (inr e) w1
    | Susp v k w1 => Susp v (fun r => bind (k r) f) w1
    | OutOfFuel => OutOfFuel
    end.
  Proof.
    revert w. induction p as [a|e|X ev k IH|v k IH]; intro w; destruct fuel as [|fuel']; try reflexivity;
      destruct ev; cbn -[wrapper]; try apply IH; try reflexivity.
    - destruct (out w); apply IH.
    - destruct (out w); apply IH.
    - destruct (f_kind (ftab f0)).
      + destruct (interp ftab lf fuel' (wrapper lf (ftab f0) a k0) w) as [r w1|v k1 w1|]; try apply IH; reflexivity.
      + apply IH.
    - destruct (f_kind (ftab f0)).
      + destruct (interp ftab lf fuel' (f_body (ftab f0) a k0) (emit (EvBody f0) w)) as [r w1|v k1 w1|]; try apply IH; reflexivity.
      + apply IH.
    - destruct (nth h (gens w) None) as [g|]; [|apply IH].
      destruct (interp ftab lf fuel' (g r) (set_gen h None w)) as [[v|e] w1|v g' w1|]; try apply IH; reflexivity.
  Qed.

  Lemma interp_try_except_done fuel A (p : prog A) h w r w1 :
    I fuel p w = Done r w1 ->
    I fuel (try_except p h) w =
    match r with
    | inl a => Done (inl a) w1
    | inr e => match h e with Some q => I fuel q w1 | None => Done (inr e) w1 end
    end.
  Proof.
    revert w. induction p as [a|e|X ev k IH|v k IH]; intro w.
    - rewrite interp_ret. intro H; inversion H; subst. cbn [try_except]. apply interp_ret.
    - rewrite interp_raise. intro H; inversion H; subst. cbn [try_except].
      destruct (h e) as [q|]; [reflexivity|apply interp_raise].
    - destruct fuel as [|fuel']; destruct ev; cbn -[wrapper]; intro H; try discriminate; try (apply IH; exact H).
      + destruct (out w); apply IH; exact H.
      + destruct (out w); apply IH; exact H.
      + destruct (f_kind (ftab f)).
        * destruct (interp ftab lf fuel' (wrapper lf (ftab f) a k0) w) as [r0 w0|v k1 w0|]; try discriminate; apply IH; exact H.
        * apply IH; exact H.
      + destruct (f_kind (ftab f)).
        * destruct (interp ftab lf fuel' (f_body (ftab f) a k0) (emit (EvBody f) w)) as [r0 w0|v k1 w0|]; try discriminate; apply IH; exact H.
        * apply IH; exact H.
      + destruct (nth h0 (gens w) None) as [g|]; [|apply IH; exact H].
        destruct (interp ftab lf fuel' (g r0) (set_gen h0 None w)) as [[v|e] w0|v g' w0|]; try discriminate; apply IH; exact H.
    - destruct fuel; cbn; intro H; discriminate.
  Qed.
End Lemmas.
