(* Prototype: freer monad with Yield, statement combinators, generator handles, interpreter with fuel. *)
From Coq Require Import List ZArith Bool String.
Import ListNotations.
Set Implicit Arguments.
Open Scope string_scope.

(* ---------- values / exceptions ---------- *)
Definition genh := nat.
Inductive value := VInt (z : Z) | VNone | VGen (h : genh) | VStr (s : string).
Definition cls := nat.
(* class ids: 0 ContractError(base) 10 Pre 11 Post 12 Raises 13 Reason 14 Silent; 1 BaseException-only; 2 StopIteration; >=20 user Exception subclasses *)
Record exn := { e_cls : cls; e_id : nat; e_ctx : option cls }.
Definition mk_exn c := {| e_cls := c; e_id := 0; e_ctx := None |}.
Definition H_ContractError (e : exn) := Nat.eqb (e_cls e) 0 || (Nat.leb 10 (e_cls e) && Nat.ltb (e_cls e) 20).
Definition H_Exception (e : exn) := negb (Nat.eqb (e_cls e) 1).
Definition H_StopIteration (e : exn) := Nat.eqb (e_cls e) 2.
Definition cls_eqb := Nat.eqb.
Definition type_of (e : exn) := e_cls e.

Definition pargs := list value.
Definition pkwargs := list (string * value).
Definition kwargs0 : pkwargs := [].
Definition args1 (v : value) : pargs := [v].
Definition kwargs_with (k : pkwargs) (n : string) (v : value) : pkwargs := List.app k [(n, v)].

Inductive stream := Real | Patched (owner : nat).
Inductive resume := Send (v : value) | Throw (e : exn).
Inductive gen_res := GYield (v : value) | GStop (v : value) | GRaise (e : exn).
Inductive event := EvBody (f : nat) | EvPrint | EvValidator (id : nat).
Definition fid := nat.

Inductive eff : Type -> Type :=
| GetDebug : eff bool | SetDebug (b : bool) : eff unit
| GetOut : eff stream | SetOut (s : stream) : eff unit
| GetSlot (p : nat) : eff stream | SetSlot (p : nat) (s : stream) : eff unit
| Print : eff (unit + exn)
| Emit (ev : event) : eff unit
| Call (f : fid) (a : pargs) (k : pkwargs) : eff (value + exn)       (* call the decorated function *)
| CallBody (f : fid) (a : pargs) (k : pkwargs) : eff (value + exn)   (* the undecorated function, i.e. self.func *)
| GenResume (h : genh) (r : resume) : eff gen_res.

Inductive prog (A : Type) : Type :=
| Ret (a : A) | Raise (e : exn)
| Vis {X} (ev : eff X) (k : X -> prog A)
| Yield (v : value) (k : resume -> prog A).
Arguments Raise {A} e.
Arguments Yield {A} v k.

Fixpoint bind {A B} (p : prog A) (f : A -> prog B) : prog B :=
  match p with
  | Ret a => f a | Raise e => Raise e
  | Vis ev k => Vis ev (fun x => bind (k x) f)
  | Yield v k => Yield v (fun r => bind (k r) f)
  end.
Notation "x <- p ;; q" := (bind p (fun x => q)) (at level 61, p at next level, right associativity).
Notation "p ;;; q" := (bind p (fun _ => q)) (at level 61, right associativity).
Definition trigger {X} (ev : eff X) : prog X := Vis ev (fun x => Ret x).
Definition fmap {A B} (f : A -> B) (p : prog A) : prog B := x <- p ;; Ret (f x).
Definition lift_res {A} (r : A + exn) : prog A := match r with inl a => Ret a | inr e => Raise e end.

(* try: p finally: q *)
Fixpoint try_finally {A} (p : prog A) (q : prog unit) : prog A :=
  match p with
  | Ret a => q ;;; Ret a
  | Raise e => q ;;; Raise e
  | Vis ev k => Vis ev (fun x => try_finally (k x) q)
  | Yield v k => Yield v (fun r => try_finally (k r) q)
  end.
(* try: p except: h   -- h returns None when no clause matches *)
Fixpoint try_except {A} (p : prog A) (h : exn -> option (prog A)) : prog A :=
  match p with
  | Ret a => Ret a
  | Raise e => match h e with Some q => q | None => Raise e end
  | Vis ev k => Vis ev (fun x => try_except (k x) h)
  | Yield v k => Yield v (fun r => try_except (k r) h)
  end.
(* raise inside a handler for [cur]: implicit __context__ chaining *)
Fixpoint in_handler {A} (cur : exn) (p : prog A) : prog A :=
  match p with
  | Ret a => Ret a
  | Raise e => Raise (if Nat.eqb (e_id e) (e_id cur) && Nat.eqb (e_cls e) (e_cls cur) then e
                      else {| e_cls := e_cls e; e_id := e_id e; e_ctx := Some (e_cls cur) |})
  | Vis ev k => Vis ev (fun x => in_handler cur (k x))
  | Yield v k => Yield v (fun r => in_handler cur (k r))
  end.

(* ---------- statements ---------- *)
Inductive ctrl := CNormal | CReturn (v : value).
Section Stmt.
  Variable env : Type.
  Definition stmt := env -> prog (ctrl * env).
  Definition s_skip : stmt := fun e => Ret (CNormal, e).
  Definition s_seq (a b : stmt) : stmt := fun e =>
    r <- a e ;; match fst r with CNormal => b (snd r) | CReturn v => Ret (CReturn v, snd r) end.
  Definition s_do (p : env -> prog unit) : stmt := fun e => p e ;;; Ret (CNormal, e).
  Definition s_assign {X} (set : X -> env -> env) (p : env -> prog X) : stmt := fun e =>
    x <- p e ;; Ret (CNormal, set x e).
  Definition s_return (p : env -> prog value) : stmt := fun e => v <- p e ;; Ret (CReturn v, e).
  Definition s_raise_exn (x : exn) : stmt := fun _ => Raise x.
  Definition s_if (c : env -> prog bool) (a b : stmt) : stmt := fun e => t <- c e ;; if t then a e else b e.
  Fixpoint s_for_list {X} (set : X -> env -> env) (l : list X) (body : stmt) : stmt := fun e =>
    match l with
    | [] => Ret (CNormal, e)
    | x :: xs => r <- body (set x e) ;;
                 match fst r with CNormal => s_for_list set xs body (snd r) | CReturn v => Ret (CReturn v, snd r) end
    end.
  Definition s_for {X} (set : X -> env -> env) (l : env -> list X) (body : stmt) : stmt :=
    fun e => s_for_list set (l e) body e.
  Fixpoint s_while_true (fuel : nat) (body : stmt) : stmt := fun e =>
    match fuel with
    | O => Raise (mk_exn 999)                      (* out of loop fuel: distinguished *)
    | S n => r <- body e ;;
             match fst r with CNormal => s_while_true n body (snd r) | CReturn v => Ret (CReturn v, snd r) end
    end.
  (* the finaliser runs on normal exit, return and exception; its own return/raise wins (Python) *)
  Definition s_finally (a f : stmt) : stmt := fun e =>
    r <- try_except (x <- a e ;; Ret (inl x))
                    (fun ex => Some (r <- f e ;; match fst r with
                                                 | CNormal => Raise ex
                                                 | CReturn v => Ret (inl (CReturn v, snd r)) end)) ;;
    match r with
    | inl (c, e1) => r2 <- f e1 ;; match fst r2 with CNormal => Ret (c, snd r2) | CReturn v => Ret (CReturn v, snd r2) end
    | inr tt => Ret (CNormal, e)
    end.
  Definition handler := ((exn -> bool) * option (exn -> env -> env) * (exn -> stmt))%type.
  Fixpoint pick (hs : list handler) (ex : exn) (e : env) : option (prog (ctrl * env)) :=
    match hs with
    | [] => None
    | (m, set, body) :: rest =>
      if m ex then Some (in_handler ex (body ex (match set with Some s => s ex e | None => e end)))
      else pick rest ex e
    end.
  Definition s_try (a : stmt) (hs : list handler) : stmt := fun e => try_except (a e) (fun ex => pick hs ex e).
  Definition s_yield (p : env -> value) : stmt := fun e =>
    Yield (p e) (fun r => match r with Send _ => Ret (CNormal, e) | Throw ex => Raise ex end).
End Stmt.
Arguments s_skip {env}. Arguments s_raise_exn {env}.
