From Coq Require Import List ZArith Bool String.
Import ListNotations.
Require Import Prog Model GenContracts.
Set Implicit Arguments.
Open Scope string_scope.

Inductive fkind := KSync | KGen.
Record fdef := { f_kind : fkind; f_contracts : contracts; f_body : pargs -> pkwargs -> prog value }.

Record world := { debug : bool; out : stream; slots : nat -> stream;
                  gens : list (option (resume -> prog value)); trace : list event }.
Definition upd_slot (f : nat -> stream) p s := fun q => if Nat.eqb q p then s else f q.
Definition set_debug b w := {| debug := b; out := out w; slots := slots w; gens := gens w; trace := trace w |}.
Definition set_out s w := {| debug := debug w; out := s; slots := slots w; gens := gens w; trace := trace w |}.
Definition set_slot p s w := {| debug := debug w; out := out w; slots := upd_slot (slots w) p s; gens := gens w; trace := trace w |}.
Definition emit ev w := {| debug := debug w; out := out w; slots := slots w; gens := gens w; trace := (trace w ++ [ev])%list |}.
Definition new_gen (k : resume -> prog value) w := (List.length (gens w), {| debug := debug w; out := out w; slots := slots w; gens := (gens w ++ [Some k])%list; trace := trace w |}).
Fixpoint list_set {X} (l : list X) (n : nat) (x : X) : list X :=
  match l, n with [], _ => [] | _ :: t, O => x :: t | h :: t, S m => h :: list_set t m x end.
Definition set_gen h k w := {| debug := debug w; out := out w; slots := slots w; gens := list_set (gens w) h k; trace := trace w |}.

Inductive res (A : Type) := Done (r : A + exn) (w : world) | Susp (v : value) (k : resume -> prog A) (w : world) | OutOfFuel.
Arguments OutOfFuel {A}.

Definition wrapper (lf : nat) (d : fdef) (a : pargs) (k : pkwargs) : prog value :=
  match f_kind d with
  | KSync => run_fn (run_sync lf (f_contracts d)) a k
  | KGen => run_fn (run_iter lf (f_contracts d)) a k
  end.

Section Interp.
  Variable ftab : fid -> fdef.
  Variable lf : nat.  (* loop fuel handed to generated while-loops *)
  Fixpoint interp (fuel : nat) : forall A, prog A -> world -> res A :=
    fix go A (p : prog A) (w : world) {struct p} : res A :=
    match p with
    | Ret a => Done (inl a) w
    | Raise e => Done (inr e) w
    | Yield v k => Susp v k w
    | Vis ev k =>
      match ev in eff X return (X -> prog A) -> res A with
      | GetDebug => fun k => go _ (k (debug w)) w
      | SetDebug b => fun k => go _ (k tt) (set_debug b w)
      | GetOut => fun k => go _ (k (out w)) w
      | SetOut s => fun k => go _ (k tt) (set_out s w)
      | GetSlot p => fun k => go _ (k (slots w p)) w
      | SetSlot p s => fun k => go _ (k tt) (set_slot p s w)
      | Emit e => fun k => go _ (k tt) (emit e w)
      | Print => fun k => match out w with
                          | Real => go _ (k (inl tt)) (emit EvPrint w)
                          | Patched o => go _ (k (inr (mk_exn 14))) w
                          end
      | Call f a kw => fun k =>
          match fuel with O => OutOfFuel | S fuel' =>
            let d := ftab f in
            match f_kind d with
            | KGen => let (h, w1) := new_gen (fun _ => wrapper lf d a kw) w in go _ (k (inl (VGen h))) w1
            | KSync => match interp fuel' (wrapper lf d a kw) w with
                       | Done r w1 => go _ (k r) w1
                       | Susp _ _ w1 => go _ (k (inr (mk_exn 997))) w1
                       | OutOfFuel => OutOfFuel end
            end
          end
      | CallBody f a kw => fun k =>
          match fuel with O => OutOfFuel | S fuel' =>
            let d := ftab f in
            match f_kind d with
            | KGen => let (h, w1) := new_gen (fun _ => f_body d a kw) (emit (EvBody f) w) in go _ (k (inl (VGen h))) w1
            | KSync => match interp fuel' (f_body d a kw) (emit (EvBody f) w) with
                       | Done r w1 => go _ (k r) w1
                       | Susp _ _ w1 => go _ (k (inr (mk_exn 997))) w1
                       | OutOfFuel => OutOfFuel end
            end
          end
      | GenResume h r => fun k =>
          match fuel with O => OutOfFuel | S fuel' =>
            match nth h (gens w) None with
            | None => go _ (k (GRaise (mk_exn 2))) w            (* finished generator: StopIteration *)
            | Some g =>
              match interp fuel' (g r) (set_gen h None w) with
              | Done (inl v) w1 => go _ (k (GStop v)) w1
              | Done (inr e) w1 => go _ (k (GRaise e)) w1
              | Susp v g' w1 => go _ (k (GYield v)) (set_gen h (Some g') w1)
              | OutOfFuel => OutOfFuel
              end
            end
          end
      end k
    end.
End Interp.

(* ---------- scenario: generator yields 1, -1, 2 under post(r > 0)  (the probe r1.py) ---------- *)
Definition gt0 : validator :=
  {| v_id := 1; v_kind := VK_plain 11; v_event := 0;
     v_fn := fun a _ => Ret (match a with [VInt z] => if (0 <? z)%Z then Accept else Reject | _ => Reject end) |}.
Definition gen_body (_ : pargs) (_ : pkwargs) : prog value :=
  Yield (VInt 1) (fun _ => Yield (VInt (-1)) (fun _ => trigger Print ;;; Yield (VInt 2) (fun _ => Ret VNone))).
Definition tab (f : fid) : fdef :=
  {| f_kind := KGen;
     f_contracts := {| c_func := 0; c_pres := []; c_posts := [gt0]; c_ensures := []; c_raises := []; c_reasons := []; c_patcher := None |};
     f_body := gen_body |}.
Definition w0 := {| debug := true; out := Real; slots := fun _ => Real; gens := []; trace := [] |}.

Definition driver : prog (list gen_res) :=
  g <- trigger (Call 0 [] []) ;; let h := match g with inl (VGen h) => h | _ => 99 end in
  r1 <- trigger (GenResume h (Send VNone)) ;;
  r2 <- trigger (GenResume h (Send VNone)) ;;
  r3 <- trigger (GenResume h (Send VNone)) ;;
  Ret [r1; r2; r3].
Definition show (r : res (list gen_res)) :=
  match r with Done (inl l) w => Some (l, trace w, debug w) | _ => None end.
Eval vm_compute in show (interp tab 10 20 driver w0).
(* expected, as the real deal does:  [GYield 1; GRaise PostContractError(11); GRaise StopIteration(2)],
   inner generator never resumed after the rejection (no EvPrint in the trace), debug restored *)

(* same with contracts disabled: full delegation via yield from *)
Eval vm_compute in show (interp tab 10 20 driver (set_debug false w0)).
