"""Prototype: fail-closed typed-shallow translator for deal/_runtime/_contracts.py::_run_*.
Statements denote  env -> prog (ctrl * env); env is a generated record of the function's locals."""
import ast, sys, textwrap

class Unsupported(Exception): pass

# typing table for this file: local/param name -> Coq type
LOCALS = {
    'args': 'pargs', 'kwargs': 'pkwargs', 'validator': 'validator', 'result': 'value',
    'exc': 'exn', 'exc_type': 'cls', 'generator': 'genh',
}
FIELDS = {  # self.<attr> -> (coq projection, type)
    'pres': ('c_pres self', 'list validator'), 'posts': ('c_posts self', 'list validator'),
    'ensures': ('c_ensures self', 'list validator'), 'raises': ('c_raises self', 'list validator'),
    'reasons': ('c_reasons self', 'list validator'), 'patcher': ('c_patcher self', 'option patcher'),
    'func': ('c_func self', 'fid'),
}

def name_of(e):
    if isinstance(e, ast.Name): return e.id
    if isinstance(e, ast.Attribute):
        l = name_of(e.value); return None if l is None else l + '.' + e.attr
    return None

class Tr:
    def __init__(self, fname, locals_):
        self.fname = fname; self.locals = locals_; self.used = []; self.cur = []
    def var(self, n):
        if n not in LOCALS: raise Unsupported(f'untyped local {n}')
        if n not in self.used: self.used.append(n)
        return f'(get_{n} env)'
    # ---- expressions: return (coq_text_of_type_prog_X | pure_text, is_effectful)
    def pure(self, e):
        n = name_of(e)
        if isinstance(e, ast.Name): return self.var(e.id)
        if n and n.startswith('self.') and n[5:] in FIELDS: return f'({FIELDS[n[5:]][0]})'
        if n == 'validator.event': return f'(v_event {self.var("validator")})'
        if isinstance(e, ast.Tuple) and len(e.elts) == 1 and not isinstance(e.elts[0], ast.Starred):
            return f'(args1 {self.pure(e.elts[0])})'
        if isinstance(e, ast.Dict) and not e.keys: return 'kwargs0'
        if isinstance(e, ast.Call) and name_of(e.func) == 'dict' and len(e.args) == 1 and len(e.keywords) == 1:
            kw = e.keywords[0]
            return f'(kwargs_with {self.pure(e.args[0])} "{kw.arg}" {self.pure(kw.value)})'
        if isinstance(e, ast.Call) and name_of(e.func) == 'type' and len(e.args) == 1:
            return f'(type_of {self.pure(e.args[0])})'
        raise Unsupported(f'pure expr {ast.dump(e)[:80]}')
    def cond(self, e):   # -> prog bool text
        if isinstance(e, ast.UnaryOp) and isinstance(e.op, ast.Not):
            return f'(fmap negb {self.cond(e.operand)})'
        if name_of(e) == 'state.debug': return '(trigger GetDebug)'
        if isinstance(e, ast.Compare) and len(e.ops) == 1:
            l, r, op = e.left, e.comparators[0], e.ops[0]
            if isinstance(op, ast.IsNot) and isinstance(r, ast.Constant) and r.value is None:
                return f'(Ret (is_some {self.pure(l)}))'
            if isinstance(op, ast.Is):
                return f'(Ret (cls_eqb {self.pure(l)} {self.pure(r)}))'
        raise Unsupported(f'cond {ast.dump(e)[:80]}')
    def call(self, e):   # effectful call -> prog text, result coq type
        if isinstance(e, ast.Await): return self.call(e.value)   # await: same effect, kind recorded separately
        if not isinstance(e, ast.Call): raise Unsupported('call expected')
        f = name_of(e.func)
        star = [a for a in e.args if isinstance(a, ast.Starred)]
        dstar = [k for k in e.keywords if k.arg is None]
        if f == 'self.func' and len(star) == 1 and len(dstar) == 1 and len(e.args) == 1 and len(e.keywords) == 1:
            return f'(call_func (c_func self) {self.pure(star[0].value)} {self.pure(dstar[0].value)})', 'value'
        if f == 'validator.validate':
            a = [self.pure(x) for x in e.args]
            kw = {k.arg: self.pure(k.value) for k in e.keywords}
            if len(a) != 2 or set(kw) - {'exc'}: raise Unsupported('validate arity')
            exc = f'(Some {kw["exc"]})' if 'exc' in kw else 'None'
            return f'(validate {self.var("validator")} {a[0]} {a[1]} {exc})', 'unit'
        if f in ('self.patcher.patch', 'self.patcher.unpatch') and not e.args and not e.keywords:
            return f'(with_patcher (c_patcher self) {f.split(".")[-1]})', 'unit'
        if f == 'next' and len(e.args) == 1:
            return f'(gen_next {self.pure(e.args[0])})', 'value'
        raise Unsupported(f'call {f}')
    # ---- statements -> text of type  env -> prog (ctrl * env)
    def block(self, stmts):
        if not stmts: return 's_skip'
        parts = [self.stmt(s) for s in stmts]
        out = parts[-1]
        for p in reversed(parts[:-1]): out = f's_seq ({p})\n ({out})'
        return out
    def stmt(self, s):
        if isinstance(s, ast.Expr) and isinstance(s.value, ast.Constant) and isinstance(s.value.value, str):
            return 's_skip'   # docstring
        if isinstance(s, ast.Pass): return 's_skip'
        if isinstance(s, ast.If):
            return f's_if (fun env => {self.cond(s.test)})\n ({self.block(s.body)})\n ({self.block(s.orelse)})'
        if isinstance(s, ast.Assign) and len(s.targets) == 1:
            t = s.targets[0]
            if name_of(t) == 'state.debug' and isinstance(s.value, ast.Constant) and isinstance(s.value.value, bool):
                return f's_do (fun env => trigger (SetDebug {str(s.value.value).lower()}))'
            if isinstance(t, ast.Name):
                self.var(t.id)
                try:
                    c, _ = self.call(s.value)
                    return f's_assign set_{t.id} (fun env => {c})'
                except Unsupported:
                    return f's_assign set_{t.id} (fun env => Ret {self.pure(s.value)})'
        if isinstance(s, ast.Expr):
            if isinstance(s.value, ast.Yield):
                return f's_yield (fun env => {self.pure(s.value.value)})'
            if isinstance(s.value, ast.YieldFrom):
                c, _ = self.call(s.value.value)
                return f's_yield_from fuel (fun env => {c})'
            c, _ = self.call(s.value)
            return f's_do (fun env => {c})'
        if isinstance(s, ast.Return):
            if s.value is None: return 's_return (fun env => Ret VNone)'
            try: c, _ = self.call(s.value); return f's_return (fun env => {c})'
            except Unsupported: return f's_return (fun env => Ret {self.pure(s.value)})'
        if isinstance(s, ast.Raise) and s.exc is None and s.cause is None:
            if not self.cur: raise Unsupported('bare raise outside handler')
            return f's_raise_exn {self.cur[-1]}'
        if isinstance(s, ast.For) and isinstance(s.target, ast.Name) and not s.orelse:
            self.var(s.target.id)
            return f's_for set_{s.target.id} (fun env => {self.pure(s.iter)})\n ({self.block(s.body)})'
        if isinstance(s, ast.While) and isinstance(s.test, ast.Constant) and s.test.value is True and not s.orelse:
            return f's_while_true fuel\n ({self.block(s.body)})'
        if isinstance(s, ast.Try) and not s.orelse:
            hs = []
            for h in s.handlers:
                cls = name_of(h.type)
                if cls not in ('ContractError', 'Exception', 'StopIteration'): raise Unsupported(f'handler {cls}')
                bind = f'(Some set_{h.name})' if h.name else 'None'
                if h.name: self.var(h.name)
                self.cur.append(f'cur{len(self.cur)}')
                hs.append(f'(H_{cls}, {bind}, fun {self.cur[-1]} => {self.block(h.body)})')
                self.cur.pop()
            body = self.block(s.body)
            t = f's_try ({body})\n [{"; ".join(hs)}]' if hs else body
            if s.finalbody: t = f's_finally ({t})\n ({self.block(s.finalbody)})'
            return t
        raise Unsupported(f'stmt {type(s).__name__} at line {s.lineno}')

def translate(path, cls, funcs):
    tree = ast.parse(open(path).read())
    c = next(n for n in tree.body if isinstance(n, ast.ClassDef) and n.name == cls)
    out = []
    for fn in c.body:
        if isinstance(fn, (ast.FunctionDef, ast.AsyncFunctionDef)) and fn.name in funcs:
            params = [a.arg for a in fn.args.args]
            if params != ['self', 'args', 'kwargs']: raise Unsupported(f'{fn.name}: parameters changed: {params}')
            tr = Tr(fn.name, LOCALS)
            body = tr.block(fn.body)
            kind = 'async' if isinstance(fn, ast.AsyncFunctionDef) else 'sync'
            out.append(f'(* {path}:{fn.lineno} {kind} def {fn.name}; locals: {", ".join(tr.used)} *)\n'
                       f'Definition {fn.name.lstrip("_")} (fuel : nat) (self : contracts) : stmt env :=\n {body}.\n')
    hdr = 'From Coq Require Import List ZArith Bool String.\nImport ListNotations.\nRequire Import Prog Model.\n\n'
    return hdr + '\n'.join(out)

if __name__ == '__main__':
    print(translate('/repo/deal/_runtime/_contracts.py', 'Contracts', ['_run_sync', '_run_async', '_run_iter']))
