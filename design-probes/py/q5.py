import deal, typing
@deal.raises(ZeroDivisionError)
@deal.pre(lambda a, b: a > 0)
def div(a: int, b: int) -> float:
    return a / b
def run(seed):
    out = []
    for case in deal.cases(div, count=8, seed=seed, check_types=False):
        r = case()
        out.append((case.args, tuple(sorted(case.kwargs.items())), r is typing.NoReturn))
    return out
a = run(3); b = run(3)
print(len(a), a == b); print(a[:4])
c = list(deal.cases(div, count=8, seed=3, check_types=False, kwargs=dict(b=2)))
print([x.kwargs for x in c][:3])
try:
    for case in deal.cases(div, count=3, seed=3): case()
except BaseException as e: print('default check_types:', type(e).__name__, e)
