import deal, sys
deal.disable(permament=True, warn=False)
try: deal.enable(warn=False); print('enable ok after permanent?!')
except RuntimeError as e: print('enable raises', e)
deal.disable(warn=False)
try: deal.enable(warn=False); print('enable OK after permanent+disable -> not final')
except RuntimeError as e: print('enable raises', e)
