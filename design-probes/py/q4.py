import functools, deal
def foreign(fn):
    @functools.wraps(fn)
    def w(*a, **k): return fn(*a, **k)
    return w
@foreign
@deal.post(lambda r: r > 0)
def g2(x): return x
print('contracts:', [type(c).__name__ for c in deal.introspection.get_contracts(g2)])
class A:
    @deal.pre(lambda self, x: x > 0)
    def m(self, x): return x
class B(A): pass
class C(B):
    @deal.inherit
    def m(self, x): return x
C().m(1)
print('inherit dup:', [type(c).__name__ for c in deal.introspection.get_contracts(C.m)])
