import sys, socket, functools, pickle, asyncio
import deal
from deal._state import state

def section(t): print('\n=== ' + t)

section('C09 foreign decorator between deal decorators')
calls = []
def foreign(fn):
    @functools.wraps(fn)
    def w(*a, **k):
        calls.append('foreign')
        return fn(*a, **k)
    return w
@deal.pre(lambda x: x > 0)
@foreign
@deal.post(lambda r: r > 0)
def g(x): return x
g(1)
print('foreign called:', calls)
print('contracts:', [type(c).__name__ for c in deal.introspection.get_contracts(g)])
