import ast, random, tempfile, collections, io, contextlib, traceback
from pathlib import Path
import deal
from deal.linter import Checker
rnd = random.Random(7)
PREDS = ['x > 0', 'x != ""', 'len(x) < 3', 'x is None', 'x', 'not x', 'x == (1, 2)', '"neg" if x == -1 else True',
         'isinstance(x, int)', 'x in (1, "a", None)', 'x == {"a": 1}', 'x == [1, [2]]', 'x == {1, 2}', 'x == b"ab"', 'x == 1.5', 'x == -1']
def lit():
    k = rnd.randrange(14)
    return ['0','1','-1','""','"abc"','None','True','False','(1, 2)','[1, [2]]','{"a": 1}','{1, 2}','b"ab"','1.5'][k]
tmp = Path(tempfile.mkdtemp())
stats = collections.Counter(); ex = {}
for i in range(400):
    pred = rnd.choice(PREDS); v = lit(); kind = rnd.choice(['return','yield'])
    src = f'import deal\n\n@deal.post(lambda x: {pred})\ndef f():\n    {kind} {v}\n'
    # runtime
    ns = {}
    exec(compile(src, 'm', 'exec'), ns)
    try:
        r = ns['f'](); r = list(r) if kind == 'yield' else r
        rt = 'accept'
    except deal.PostContractError: rt = 'reject'
    except Exception as e: rt = 'exc:' + type(e).__name__
    for mode in ('ast', 'astroid'):
        p = tmp / f'm{i}.py'; p.write_text(src)
        try:
            with contextlib.redirect_stdout(io.StringIO()):
                errs = [e for e in Checker(tree=ast.parse(src), filename=('stdin' if mode == 'ast' else str(p))).get_errors() if e.code == 12]
            lt = 'reject' if errs else 'accept'
        except Exception as e: lt = 'crash:' + type(e).__name__
        key = (mode, rt, lt); stats[key] += 1; ex.setdefault(key, (pred, v, kind))
for k, n in sorted(stats.items()): print(n, k, ex[k])
