import deal
deal.module_load(deal.x.pure)
