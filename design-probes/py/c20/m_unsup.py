import deal
deal.module_load(deal.pre(lambda: True))
