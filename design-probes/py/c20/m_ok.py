import deal
deal.module_load(deal.pure)
x = 1
