import deal
deal.module_load(deal.has(), message='x')
print('kw printed')
