import deal
deal.module_load(deal.pure)
print('boo')
