import deal as d
d.module_load(d.pure)
print('alias printed')
