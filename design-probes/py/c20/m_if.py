import deal
if True:
    deal.module_load(deal.pure)
print('if printed')
