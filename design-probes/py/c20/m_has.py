import deal
deal.module_load(deal.has('stdout'), deal.safe)
print('allowed')
