import sys, importlib, deal
sys.path.insert(0, '.')
try:
    import m_ok; print('not activated: ok?!')
except BaseException as e: print('not activated:', type(e).__name__, e)
sys.modules.pop('m_ok', None)
mp = list(sys.meta_path)
print('activate', deal.activate(), deal.activate())
for name in ['m_ok','m_print','m_alias','m_unsup','m_nested','m_has','m_kw','m_if']:
    try:
        importlib.import_module(name); print(name, 'imported')
    except BaseException as e: print(name, '->', type(e).__name__, str(e)[:80])
    print('   in sys.modules:', name in sys.modules)
from deal._imports import deactivate
print('deactivate', deactivate(), deactivate(), sys.meta_path == mp)
