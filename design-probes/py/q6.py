import ast, tempfile
from pathlib import Path
from deal.linter import Checker
src = '''import deal
@deal.has()
def f():
    open('x', 0)
    return 1
'''
p = Path(tempfile.mkdtemp())/'m.py'; p.write_text(src)
for fn in ('stdin', str(p)):
    try: print(fn[:5], [(e.row, e.full_code, e.value) for e in Checker(tree=ast.parse(src), filename=fn).get_errors()])
    except BaseException as e: print(fn[:5], 'CRASH', type(e).__name__, e)
