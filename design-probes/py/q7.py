import sys, difflib
from pathlib import Path
from deal.linter import Transformer, TransformationType
p = Path(sys.argv[1]); cur = p.read_text(); seen = {}
for i in range(12):
    out = Transformer(content=cur, path=p, types=set(TransformationType)).transform()
    if out == cur: print('fixpoint at pass', i); break
    d = [l for l in difflib.unified_diff(cur.splitlines(), out.splitlines(), lineterm='', n=0) if l[0] in '+-' and not l.startswith(('+++','---'))]
    print('pass', i, 'changed lines', len(d), d[:4])
    if out in seen: print('CYCLE with pass', seen[out]); break
    seen[out] = i; cur = out
