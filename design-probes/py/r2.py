import ast, tokenize, io, deal
from deal.linter import Checker
src = '''import deal
@deal.has()
def f():
    print(1)  # noqa: E501
    return 1
'''
toks = list(tokenize.tokenize(io.BytesIO(src.encode()).readline))
c = Checker(tree=ast.parse(src), file_tokens=toks, filename='stdin')
print('errors:', list(c.run()))
src2 = '''import deal
@deal.raises(ValueError)
def f():
    try:
        raise KeyError
    except* KeyError:
        raise IndexError
'''
c = Checker(tree=ast.parse(src2)); print('trystar:', [(e.row, e.full_code, e.value) for e in c.get_errors()])
