import sys, socket, functools, pickle, asyncio
import deal
from deal._state import state

def section(t): print('\n=== ' + t)

section('C13 coroutines interleaved with has')
async def main():
    ev = asyncio.Event()
    @deal.has()
    async def quiet():
        await ev.wait(); return 1
    @deal.has('stdout')
    async def loud():
        print('hello from loud', file=sys.stdout); ev.set(); return 2
    t1 = asyncio.ensure_future(quiet())
    await asyncio.sleep(0)
    try: print('loud ->', await loud())
    except BaseException as e:
        ev.set(); sys.__stderr__.write('loud raised %s\n' % type(e).__name__)
    await t1
asyncio.run(main())
