import sys, socket, functools, pickle, asyncio
import deal
from deal._state import state

def section(t): print('\n=== ' + t)

section('C12 dispatch with two stacked pres')
@deal.dispatch
def d(x): raise NotImplementedError
@d.register
@deal.pre(lambda x: x > 10)
@deal.pre(lambda x: x > 0)
def _(x): return 'big'
@d.register
def _(x): return 'default'
for v in (20, -1, 5):
    try: print(v, d(v))
    except BaseException as e: print(v, 'raised', type(e).__name__, e)
