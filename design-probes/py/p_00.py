import sys, socket, functools, pickle, asyncio
import deal
from deal._state import state

def section(t): print('\n=== ' + t)

section('C03 derived exception under raises(LookupError)')
@deal.raises(LookupError)
def f1(): raise KeyError('k')
try: f1()
except BaseException as e: print(type(e).__name__, repr(e.__cause__), repr(e.__context__))
