import ast, random, tempfile, collections, io, contextlib, builtins
from pathlib import Path
from deal.linter import Checker
rnd = random.Random(11)
# effect atoms: (source line, kind, name)
EXC = ['ValueError', 'KeyError', 'IndexError', 'LookupError', 'ZeroDivisionError', 'OSError', 'FileNotFoundError', 'MyError']
ATOMS = [(f'raise {e}', 'exc', e) for e in EXC] + [(f'raise {e}("m")', 'exc', e) for e in EXC[:3]] + [
    ('assert x', 'exc', 'AssertionError'), ('exit(1)', 'exc', 'SystemExit'), ('sys.exit(1)', 'exc', 'SystemExit'),
    ('print(x)', 'mark', 'stdout'), ('print(x, file=sys.stderr)', 'mark', 'stderr'), ('print(x, file=x)', 'none', ''),
    ('sys.stdout.write("a")', 'mark', 'stdout'), ('sys.stderr.write("a")', 'mark', 'stderr'), ('input()', 'mark', 'stdin'),
    ('sys.stdin.read()', 'mark', 'stdin'), ('global G', 'mark', 'global'), ('import os', 'mark', 'import'),
    ('open("f")', 'mark', 'read'), ('open("f", "w")', 'mark', 'write'), ('open("f", mode="w")', 'mark', 'write'),
    ('random.random()', 'mark', 'random'), ('randint(1, 2)', 'mark', 'random'), ('time.time()', 'mark', 'time'),
    ('os.system("ls")', 'mark', 'syscall'), ('subprocess.run("ls")', 'mark', 'syscall'), ('x = 1', 'none', ''),
]
IMPL = {'stdout': {'io', 'print', 'stdout'}, 'stderr': {'io', 'stderr'}, 'stdin': {'io', 'input', 'stdin'},
        'read': {'io', 'read'}, 'write': {'io', 'write'}, 'global': {'global', 'nonlocal'}, 'import': {'import'},
        'random': {'random'}, 'time': {'time'}, 'syscall': {'io', 'syscall'}, 'network': {'io', 'network', 'socket'}}
def gen_block(depth, intry, out, ind):
    lines = []
    for _ in range(rnd.randint(1, 3)):
        c = rnd.random()
        if depth < 2 and c < 0.35:
            k = rnd.choice(['if', 'for', 'while', 'with', 'try'])
            if k == 'if':
                lines.append(ind + 'if x:'); lines += gen_block(depth+1, intry, out, ind+'    ')
                lines.append(ind + 'else:'); lines += gen_block(depth+1, intry, out, ind+'    ')
            elif k == 'for':
                lines.append(ind + 'for i in x:'); lines += gen_block(depth+1, intry, out, ind+'    ')
            elif k == 'while':
                lines.append(ind + 'while x:'); lines += gen_block(depth+1, intry, out, ind+'    ')
            elif k == 'with':
                lines.append(ind + 'with x:'); lines += gen_block(depth+1, intry, out, ind+'    ')
            else:
                lines.append(ind + 'try:'); lines += gen_block(depth+1, True, out, ind+'    ')
                lines.append(ind + 'except Exception:'); lines += gen_block(depth+1, intry, out, ind+'    ')
                if rnd.random() < .5: lines.append(ind + 'else:'); lines += gen_block(depth+1, intry, out, ind+'    ')
                if rnd.random() < .5: lines.append(ind + 'finally:'); lines += gen_block(depth+1, intry, out, ind+'    ')
        else:
            src, kind, name = rnd.choice(ATOMS)
            lines.append(ind + src)
            if kind != 'none' and not intry: out.append((kind, name))
    return lines
def covers_exc(declared, name):
    if name in declared: return True
    cls = getattr(builtins, name, None)
    if cls is None: return False
    ds = tuple(getattr(builtins, d) for d in declared if hasattr(builtins, d)) + (AssertionError,)
    return issubclass(cls, ds)
tmp = Path(tempfile.mkdtemp())
stats = collections.Counter(); ex = {}
N = 300
for i in range(N):
    eff = []
    body = gen_block(0, False, eff, '    ')
    body.append('    return 1')
    decl_exc = rnd.sample(EXC, rnd.randint(0, 3)); decl_mark = rnd.sample(sorted({m for s in IMPL.values() for m in s}), rnd.randint(0, 3))
    src = 'import deal, sys, os, random, time, subprocess\nfrom random import randint\nclass MyError(Exception): pass\n\n'
    src += f'@deal.raises({", ".join(decl_exc)})\n@deal.has({", ".join(repr(m) for m in decl_mark)})\ndef f(x):\n' + '\n'.join(body) + '\n'
    try: tree = ast.parse(src)
    except SyntaxError as e: stats['gen-syntax'] += 1; continue
    exp_exc = sorted({n for k, n in eff if k == 'exc' and not covers_exc(decl_exc, n)})
    exp_mark = sorted({n for k, n in eff if k == 'mark' and not (IMPL[n] & set(decl_mark))})
    p = tmp / f'm{i}.py'; p.write_text(src)
    for mode in ('ast', 'astroid'):
        try:
            with contextlib.redirect_stdout(io.StringIO()):
                errs = list(Checker(tree=tree, filename=('stdin' if mode == 'ast' else str(p))).get_errors())
        except Exception as e:
            stats[(mode, 'crash', type(e).__name__)] += 1; ex.setdefault((mode, 'crash', type(e).__name__), src); continue
        got_exc = sorted({e.value for e in errs if e.code == 21})
        got_mark = sorted({e.value for e in errs if 40 <= e.code <= 56})
        for what, exp, got in (('exc', exp_exc, got_exc), ('mark', exp_mark, got_mark)):
            if exp == got: stats[(mode, what, 'agree')] += 1
            else:
                key = (mode, what, 'missing=' + ','.join(sorted(set(exp) - set(got))), 'extra=' + ','.join(sorted(set(got) - set(exp))))
                stats[key] += 1; ex.setdefault(key, src)
for k, n in sorted(stats.items(), key=lambda kv: -kv[1])[:30]: print(n, k)
import sys
for k in list(ex)[:0]: print(k, '\n', ex[k])
open('/tmp/scratch/d18_examples.txt', 'w').write('\n\n'.join(f'### {k}\n{v}' for k, v in ex.items()))
