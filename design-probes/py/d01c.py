import deal, traceback
@deal.pre(lambda _: True)
def f(a=0, b=10, c=20, /, *args, **kw): return (a, b, c, args, kw)
def g(a=0, b=10, c=20, /, *args, **kw): return (a, b, c, args, kw)
print(g(c=3, z=9))
try: print(f(c=3, z=9))
except Exception as e: traceback.print_exc()
