import sys, socket, functools, pickle, asyncio
import deal
from deal._state import state

def section(t): print('\n=== ' + t)

section('C09 shared contract different signatures')
c = deal.pre(lambda _: _.a > 0)
@c
def h1(a): return a
@c
def h2(b): return b
try: print(h1(1))
except BaseException as e: print('h1(1) raised', type(e).__name__, e)
