import deal, sys
class NeedsArg(Exception):
    def __init__(self, a): super().__init__(a)
@deal.raises(ValueError)
def f(): raise NeedsArg(1)
try: f()
except BaseException as e: print('C10 from exc_type needing args ->', type(e).__name__, e)

@deal.inv(lambda _: _.likes >= 0)
class Video:
    likes = 1
    def like(self): self.likes += 1
v = Video()
try: v.like(); print('ok', v.likes)
except BaseException as e: print('C05 short inv + class attr ->', type(e).__name__, e)

@deal.ensure(lambda _: _.result == _.a + _.b)
def add(a, b=2): return a + b
print('ensure short', add(1))

def g():
    yield 1; yield -1; print('RESUMED'); yield 2
dg = deal.post(lambda r: r > 0)(g)
it = dg(); print(next(it))
try: next(it)
except BaseException as e: print('gen post reject', type(e).__name__)
try: print(next(it))
except BaseException as e: print('after reject', type(e).__name__)

@deal.pre(lambda x: x > 0)
def inner(x): return x
@deal.dispatch
def d(x): ...
@d.register
@deal.pre(lambda x: True)
def _(x): return inner(x)
@d.register
def _(x): return 'fallback'
try: print(d(-1))
except BaseException as e: print('C12 nested pre propagates:', type(e).__name__)
