import random, collections, copy
import deal
rnd = random.Random(9)
stats = collections.Counter(); ex = {}
INVS = [('x >= 0', lambda d: d['x'] >= 0), ('x <= y', lambda d: d['x'] <= d['y']), ('y != 3', lambda d: d['y'] != 3)]
FORMS = ['explicit', 'short', 'msg']
def mk_class(invs, forms):
    log = []
    class A:
        k = 5; x = 0; y = 1
        def __init__(self): pass
        def incx(self, n): log.append('incx'); self.x += n; return self.x
        def incy(self, n): log.append('incy'); self.y += n; return self.y
        def both(self, n): log.append('both'); self.incx(n); self.incy(n); return (self.x, self.y)
        def get(self): log.append('get'); return self.x + self.y
        def boom(self): log.append('boom'); self.x -= 100; raise ValueError('boom')
        @property
        def total(self): return self.x + self.y
        @staticmethod
        def st(n): return n * 2
        @classmethod
        def cm(cls, n): return cls.k + n
    B = A
    for (src, _), form in zip(invs, forms):
        if form == 'explicit': v = eval(f'lambda obj: {src.replace("x", "obj.x").replace("y", "obj.y")}')
        elif form == 'short': v = eval(f'lambda _: {src.replace("x", "_.x").replace("y", "_.y")}')
        else: v = eval(f'lambda obj: ({src.replace("x", "obj.x").replace("y", "obj.y")}) or "bad"')
        B = deal.inv(v)(B)
    return A, B, log
OPS = ['incx', 'incy', 'both', 'get', 'boom', 'setx', 'sety', 'total', 'st', 'cm', 'isinst']
for it in range(1500):
    k = rnd.randint(1, 3); invs = rnd.sample(INVS, k); forms = [rnd.choice(FORMS) for _ in invs]
    A, B, log = mk_class(invs, forms)
    try: ref = A(); obj = B()
    except Exception as e: stats[('ctor', type(e).__name__)] += 1; continue
    hist = []
    for step in range(rnd.randint(1, 8)):
        op = rnd.choice(OPS); n = rnd.randint(-3, 3)
        def run(o):
            if op in ('incx', 'incy', 'both'): return getattr(o, op)(n)
            if op in ('get', 'boom'): return getattr(o, op)()
            if op == 'setx': o.x = n; return None
            if op == 'sety': o.y = n; return None
            if op == 'total': return o.total
            if op == 'st': return o.st(n)
            if op == 'cm': return o.cm(n)
            if op == 'isinst': return isinstance(o, A)
        before_ok = all(p({'x': obj.x, 'y': obj.y}) for _, p in invs)
        del log[:]
        try: r = ('ret', run(obj))
        except deal.InvContractError: r = ('inv',)
        except Exception as e: r = ('exc', type(e).__name__)
        entered = list(log)
        after_ok = all(p({'x': obj.x, 'y': obj.y}) for _, p in invs)
        hist.append((op, n, r))
        ismeth = op in ('incx', 'incy', 'both', 'get', 'boom', 'cm')
        # monitor
        if r[0] in ('ret', 'exc') and (ismeth or op in ('setx', 'sety')) and not after_ok:
            key = ('completed-but-inv-false', op, r[0]); stats[key] += 1; ex.setdefault(key, (invs, forms, hist[:])); break
        if ismeth and not before_ok and entered:
            key = ('entered-when-broken', op); stats[key] += 1; ex.setdefault(key, (forms, hist[:])); break
        if r[0] == 'inv' and after_ok and before_ok and op not in ('both',):
            key = ('inv-raised-but-all-true', op); stats[key] += 1; ex.setdefault(key, (forms, hist[:])); break
        # transparency vs reference object (only while states agree)
        if vars(ref) == {k_: v for k_, v in vars(obj).items()} or True:
            pass
        if r[0] == 'inv': break
        # replay on ref
        try: rr = ('ret', run(ref))
        except Exception as e: rr = ('exc', type(e).__name__)
        if rr != r:
            key = ('result-differs', op, r[0], rr[0]); stats[key] += 1; ex.setdefault(key, (forms, hist[:], rr)); break
    else:
        stats['ok'] += 1
for k, n in sorted(stats.items(), key=lambda kv: -kv[1]): print(n, k, ex.get(k, ''))
