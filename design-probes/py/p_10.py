import sys, socket, functools, pickle, asyncio
import deal
from deal._state import state

def section(t): print('\n=== ' + t)

section('C02 post with short validator')
@deal.post(lambda _: _.result > 0)
def ps(a, b): return a + b
try: print(ps(1, 2))
except BaseException as e: print('raised', type(e).__name__, e)
