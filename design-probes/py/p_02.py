import sys, socket, functools, pickle, asyncio
import deal
from deal._state import state

def section(t): print('\n=== ' + t)

section('C07 invariant while disabled')
@deal.inv(lambda o: o.x > 0)
class A:
    def __init__(self): self.x = 1
a = A()
deal.disable(warn=False)
try:
    a.x = -1
    print('no error while disabled')
except BaseException as e: print('raised while disabled', type(e).__name__)
deal.enable(warn=False)
