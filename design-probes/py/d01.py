import random, inspect, collections, itertools
import deal
rnd = random.Random(3)
def gen_sig():
    # returns python param list source and names
    n = rnd.randint(0, 4); names = ['a', 'b', 'c', 'd'][:n]
    kinds = []
    posonly = rnd.randint(0, n) if rnd.random() < .3 else 0
    star = rnd.random() < .4; dstar = rnd.random() < .4
    kwonly_from = rnd.randint(posonly, n) if (star or rnd.random() < .3) else n
    parts = []; seen_default = False
    for i, nm in enumerate(names):
        if i == kwonly_from:
            parts.append('*args' if star else '*'); 
        d = ''
        if i >= kwonly_from:
            if rnd.random() < .5: d = f'={i*10}'
        else:
            if seen_default or rnd.random() < .4: d = f'={i*10}'; seen_default = True
        parts.append(nm + d)
        if posonly and i == posonly - 1: parts.append('/')
    if kwonly_from >= n and star: parts.append('*args')
    if dstar: parts.append('**kw')
    return ', '.join(parts), names
def gen_call(names):
    npos = rnd.randint(0, len(names) + 1)
    args = [rnd.randint(1, 9) for _ in range(npos)]
    kws = {}
    for nm in names + ['z']:
        if rnd.random() < .35: kws[nm] = rnd.randint(1, 9)
    return args, kws
stats = collections.Counter(); ex = {}
for i in range(3000):
    sig, names = gen_sig()
    try:
        ns = {}
        exec(f'def probe({sig}): return dict(locals())', ns)
    except SyntaxError:
        stats['gen-syntax'] += 1; continue
    probe = ns['probe']
    seen = {}
    def val(_): seen['c'] = dict(_); return True
    body = {}
    ns2 = {'deal': deal, 'val': val, 'body': body}
    exec(f'@deal.pre(val)\ndef f({sig}):\n    body.update(locals()); return 1', ns2)
    f = ns2['f']
    args, kws = gen_call(names)
    try: ref = probe(*args, **kws); ok = True
    except TypeError: ok = False
    seen.clear(); body.clear()
    try: f(*args, **kws); got = 'ok'
    except TypeError: got = 'TypeError'
    except Exception as e: got = type(e).__name__
    if not ok:
        stats[('illformed', got, 'body_entered' if body else 'no_body')] += 1; continue
    if got != 'ok': stats[('wellformed-but', got)] += 1; ex.setdefault(('wb', got), (sig, args, kws)); continue
    c = seen['c']
    diffs = []
    for k, v in ref.items():
        if k not in c: diffs.append(('missing', k))
        elif c[k] != v: diffs.append(('differs', k, 'empty' if c[k] is inspect._empty else type(c[k]).__name__, type(v).__name__))
    extra = sorted(set(c) - set(ref))
    if extra: diffs.append(('extra',))
    key = tuple(sorted(set(d[:1] + d[2:] for d in diffs))) or 'equal'
    stats[key] += 1; ex.setdefault(key, (sig, args, kws, c, ref))
for k, n in sorted(stats.items(), key=lambda kv: -kv[1]): print(n, k, ex.get(k, '')[:3] if k in ex else '')
print(ex.get(('wb', 'TypeError')))
