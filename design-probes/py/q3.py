from pathlib import Path
from deal.linter import Transformer, TransformationType
src = '''import deal

@deal.raises(
    ValueError,
)
def f(x):
    if x:
        raise ValueError
    raise KeyError
'''
tr = Transformer(content=src, path=Path('x.py'), types=set(TransformationType))
out = tr.transform()
print(out)
import ast
try: ast.parse(out); print('valid')
except SyntaxError as e: print('INVALID', e)
