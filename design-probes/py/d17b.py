import ast, random, tempfile, collections, io, contextlib
from pathlib import Path
import deal
from deal.linter import Checker
rnd = random.Random(21)
SIGS = [('a', ['a']), ('a, b', ['a', 'b']), ('a, b=2', ['a', 'b']), ('a, *, b', ['a', 'b']), ('a, *, b=5', ['a', 'b']), ('a=1, b=2', ['a', 'b']), ('*args', []), ('a, **kw', ['a'])]
def pred(names, form):
    if form == 'short':
        n = rnd.choice(names) if names else None
        return f'lambda _: _.{n} > 0' if n else 'lambda _: True'
    if not names: return 'lambda *args: len(args) < 2'
    body = rnd.choice([f'{names[0]} > 0', f'{names[-1]} != 3', ' + '.join(names) + ' > 2', f'"neg" if {names[0]} < 0 else True'])
    return None, body
tmp = Path(tempfile.mkdtemp()); stats = collections.Counter(); ex = {}
for i in range(400):
    sig, names = rnd.choice(SIGS)
    form = rnd.choice(['explicit', 'short'])
    if form == 'short':
        p = pred(names, 'short'); contract = p
    else:
        p = pred(names, 'explicit')
        contract = p if isinstance(p, str) else f'lambda {sig}: {p[1]}'
    # call form
    vals = [rnd.choice(['0', '1', '-1', '3', '5']) for _ in range(3)]
    call = rnd.choice(['f({0})', 'f({0}, {1})', 'f({0}, b={1})', 'f(a={0}, b={1})', 'f(b={1}, a={0})', 'f()', 'f({0}, {1}, {2})']).format(*vals)
    mode = rnd.choice(['pre', 'example'])
    if mode == 'pre':
        src = f'import deal\n\n@deal.pre({contract})\ndef f({sig}):\n    return 1\n\n@deal.has()\ndef g():\n    return {call}\n'
    else:
        src = f'import deal\n\n@deal.example(lambda: {call} == 1)\n@deal.pre({contract})\ndef f({sig}):\n    return 1\n'
    try: tree = ast.parse(src)
    except SyntaxError: stats['gen-syntax'] += 1; continue
    ns = {}
    try: exec(compile(src, 'm', 'exec'), ns)
    except Exception as e: stats[('def-exc', type(e).__name__)] += 1; continue
    try: eval(call, ns); rt = 'accept'
    except deal.PreContractError: rt = 'reject'
    except Exception as e: rt = 'exc:' + type(e).__name__
    p = tmp / f'm{i}.py'; p.write_text(src)
    code = 11 if mode == 'pre' else 13
    for backend in ('ast', 'astroid'):
        try:
            with contextlib.redirect_stdout(io.StringIO()):
                errs = [e for e in Checker(tree=tree, filename=('stdin' if backend == 'ast' else str(p))).get_errors() if e.code == code]
            lt = 'reject' if errs else 'accept'
        except Exception as e: lt = 'crash:' + type(e).__name__
        key = (mode, backend, form, rt, lt); stats[key] += 1; ex.setdefault(key, src)
for k, n in sorted(stats.items(), key=str): print(n, k)
open('/tmp/scratch/d17b_examples.txt', 'w').write('\n\n'.join(f'### {k}\n{v}' for k, v in ex.items()))
