import threading, deal, sys
in_validator = threading.Event(); go = threading.Event()
def slow_pre(x):
    in_validator.set(); go.wait(2); return True
@deal.pre(slow_pre)
def a(x): return x
@deal.pre(lambda x: x > 0)
def b(x): return 'body ran with %r' % x
res = {}
def tb():
    in_validator.wait(2)
    try: res['b'] = b(-1)
    except deal.PreContractError: res['b'] = 'PreContractError'
    go.set()
t1 = threading.Thread(target=lambda: a(1)); t2 = threading.Thread(target=tb)
t1.start(); t2.start(); t1.join(); t2.join()
print('thread B alone would get PreContractError; interleaved got:', res['b'])
