import sys, socket, functools, pickle, asyncio
import deal
from deal._state import state

def section(t): print('\n=== ' + t)

section('C10 pickling')
@deal.pre(lambda x: x > 0)
def pk(x): return x
try: pk(-1)
except deal.PreContractError as e:
    try:
        e2 = pickle.loads(pickle.dumps(e)); print('pickle ok', type(e2).__name__, e2.params, str(e2))
    except BaseException as pe: print('pickle failed', type(pe).__name__, pe)
