import sys, socket, functools, pickle, asyncio
import deal
from deal._state import state

def section(t): print('\n=== ' + t)

section('C06 generator send / return value')
def gen():
    x = yield 1
    y = yield x
    return 'done'
dgen = deal.post(lambda r: True)(gen)
def drive(gf):
    g = gf(); out = [next(g)]
    out.append(g.send('S'))
    try: g.send('T')
    except StopIteration as s: out.append(('ret', s.value))
    return out
print('orig', drive(gen)); print('deal', drive(dgen))
