import ast, random, collections, itertools
from pathlib import Path
from deal.linter import Transformer, TransformationType
rnd = random.Random(5)
def strip(tree):
    class T(ast.NodeTransformer):
        def _f(self, node):
            self.generic_visit(node)
            node.decorator_list = [d for d in node.decorator_list if not ast.unparse(d).startswith('deal.')]
            return node
        visit_FunctionDef = visit_AsyncFunctionDef = visit_ClassDef = _f
    tree = T().visit(tree)
    tree.body = [s for s in tree.body if not (isinstance(s, ast.Import) and [a.name for a in s.names] == ['deal'])]
    return ast.dump(tree)
HEADS = ['', '#!/usr/bin/env python\n', '"""Module doc."""\n', '"""Module doc."""\nfrom __future__ import annotations\n', 'import os\nimport deal\n', 'from os import (\n    path,\n)\n', 'import os, sys\n']
DECOS = [[], ['@staticmethod'], ['@property'], ['@deal.raises(ValueError)'], ['@deal.raises(\n    ValueError,\n)'], ['@deal.has("io")'],
         ['@deal.has(\n    "io",\n)'], ['@deal.safe'], ['@deal.pure'], ['@deal.pre(lambda x: x)', '@deal.raises(ValueError)'],
         ['@other.deco(\n    1,\n)'], ['@deal.raises(ValueError)  # comment'], ['@deal.raises(ValueError)', '# a comment', '@other.deco'],
         ['@deal.safe', '@staticmethod'], ['@staticmethod', '@deal.has()'], ['@deal.chain(deal.safe, deal.has())'], ['@deal.raises(ValueError, KeyError)', '@deal.has("stdout")']]
BODIES = ['return x', 'raise KeyError', 'print(x)\n{i}return x', 'raise ValueError', '"""Doc."""\n{i}raise KeyError', 'import os\n{i}return os']
DEFS = ['def {n}(x):', 'async def {n}(x):', 'def {n}(\n{i}    x,\n{i}):', 'def {n}(x): {oneline}']
stats = collections.Counter(); ex = {}
N = 0
for head in HEADS:
    for _ in range(60):
        N += 1
        src = head; incls = rnd.random() < .4
        if incls: src += 'class C:\n'
        ind = '    ' if incls else ''
        for k in range(rnd.randint(1, 3)):
            for d in rnd.choice(DECOS):
                src += ''.join(ind + l + '\n' for l in d.split('\n'))
            df = rnd.choice(DEFS); body = rnd.choice(BODIES)
            if '{oneline}' in df:
                src += ind + df.format(n=f'f{k}', oneline=body.split('\n')[0].format(i='')) + '\n'
            else:
                src += ''.join(ind + l + '\n' for l in df.format(n=f'f{k}', i=ind).split('\n'))
                src += ind + '    ' + body.format(i=ind + '    ') + '\n'
            src += '\n'
        try: t0 = ast.parse(src)
        except SyntaxError: stats['gen-syntax'] += 1; continue
        try:
            out = Transformer(content=src, path=Path('x.py'), types=set(TransformationType)).transform()
        except Exception as e:
            k = ('crash', type(e).__name__, str(e)[:40]); stats[k] += 1; ex.setdefault(k, src); continue
        try: t1 = ast.parse(out)
        except SyntaxError as e:
            stats['INVALID'] += 1; ex.setdefault('INVALID', src + '\n=====>\n' + out); continue
        if strip(t1) != strip(ast.parse(src)):
            stats['AST-CHANGED'] += 1; ex.setdefault('AST-CHANGED', src + '\n=====>\n' + out); continue
        # declared preserved?
        stats['ok'] += 1
print(N, dict(stats))
open('/tmp/scratch/d19_examples.txt', 'w').write('\n\n'.join(f'### {k}\n{v}' for k, v in ex.items()))
