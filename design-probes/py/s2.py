import ast, deal, tempfile, os
from pathlib import Path
from deal.linter import Checker
src = '''import deal

@deal.raises(LookupError)
def f(x):
    if x:
        raise KeyError
    try:
        raise ValueError
    except ValueError:
        raise IndexError
    finally:
        print(1)

@deal.safe
@deal.raises(ValueError)
def g():
    raise ValueError

@deal.raises(ValueError)
def h():
    assert False
'''
print('ast   :', [(e.row, e.full_code, e.value) for e in Checker(tree=ast.parse(src)).get_errors()])
d = tempfile.mkdtemp(); p = Path(d)/'m.py'; p.write_text(src)
print('astroid:', [(e.row, e.full_code, e.value) for e in Checker(tree=ast.parse(src), filename=str(p)).get_errors()])
ns = {}
exec(compile(src, 'm', 'exec'), ns)
for fn, a in (('g', ()), ('h', ())):
    try: ns[fn](*a)
    except BaseException as e: print('runtime', fn, '->', type(e).__name__)
