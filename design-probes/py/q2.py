import ast, deal
from deal.linter import Checker
def lint(src, **kw):
    c = Checker(tree=ast.parse(src), **kw)
    return [(e.row, e.col, e.full_code, e.value) for e in c.get_errors()]
print('io covers syscall?', lint('''
import deal, os
@deal.has('io')
def f():
    os.system('ls')
    return 1
'''))
print('io covers stdout?', lint('''
import deal, os
@deal.has('io')
def f():
    print(1)
    return 1
'''))
try:
    print('post TypeError:', lint('''
import deal
@deal.post(lambda x: x > 0)
def f():
    return None
'''))
except BaseException as e: print('linter crashed', type(e).__name__, e)
try:
    print('post str result:', lint('''
import deal
@deal.post(lambda x: x > 0)
def f():
    return "a"
'''))
except BaseException as e: print('linter crashed', type(e).__name__, e)
