import os, sys, time, json, deal, socket
def run_scenario(i):
    src = f'''
import deal
@deal.has()
@deal.pre(lambda x: x > {i % 3})
def f(x):
    if x > 5: print("hi")
    return x
out = []
for v in (0, 2, 9):
    try: out.append(("ret", f(v)))
    except deal.ContractError as e: out.append(("exc", type(e).__name__))
'''
    ns = {}
    exec(compile(src, f'<scn{i}>', 'exec'), ns)
    return ns['out']
run_scenario(0)  # warm-up: imports done before forking
t0 = time.time(); N = 2000; res = []
for i in range(N):
    r, w = os.pipe()
    pid = os.fork()
    if pid == 0:
        os.close(r)
        try: out = run_scenario(i)
        except BaseException as e: out = ['crash', repr(e)]
        os.write(w, json.dumps(out).encode()); os._exit(0)
    os.close(w)
    data = b''
    while True:
        chunk = os.read(r, 65536)
        if not chunk: break
        data += chunk
    os.close(r); os.waitpid(pid, 0)
    res.append(json.loads(data))
dt = time.time() - t0
print(f'{N} forked scenarios in {dt:.2f}s = {dt/N*1000:.2f} ms each; sample {res[0]} {res[1]}')
