import ast, sys, time, traceback, collections, io, contextlib, tokenize
from pathlib import Path
from deal.linter import Checker
roots = [Path(p) for p in sys.argv[1:]]
files = []
for r in roots:
    files += sorted(r.rglob('*.py'))
crash = collections.Counter(); ex = {}
n=0; nf=0; t0=time.time(); bad_pos=0; nondet=0
for p in files:
    try: src = p.read_text(); tree = ast.parse(src)
    except Exception: continue
    n+=1
    nlines = src.count('\n')+1
    for mode in ('ast','astroid'):
        try:
            out = io.StringIO()
            with contextlib.redirect_stdout(out):
                c = Checker(tree=tree, filename=('stdin' if mode=='ast' else str(p)))
                errs = [(e.row,e.col,e.code,e.value) for e in c.get_errors()]
            nf += len(errs)
            for (r,cl,code,v) in errs:
                if not (1 <= r <= nlines) or cl < 0: bad_pos += 1; ex.setdefault('badpos',(str(p),r,cl,code))
        except BaseException as e:
            tb = traceback.extract_tb(e.__traceback__)
            deal_frames = [f for f in tb if '/repo/deal/' in f.filename]
            where = (deal_frames[-1].filename.split('/repo/')[-1], deal_frames[-1].lineno) if deal_frames else ('?',0)
            key = (mode, type(e).__name__, where)
            crash[key]+=1; ex.setdefault(key, (str(p), str(e)[:100]))
print('files', n, 'findings', nf, 'bad positions', bad_pos, 'time %.1f'%(time.time()-t0))
for k,v in crash.most_common(): print(v, k, ex[k])
print(ex.get('badpos'))
