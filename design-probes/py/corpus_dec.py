import ast, sys, time, traceback, collections, io, contextlib
from pathlib import Path
from deal.linter import Transformer, TransformationType, Checker
files = []
for r in sys.argv[1:]:
    files += sorted(Path(r).rglob('*.py'))
def strip(tree):
    class T(ast.NodeTransformer):
        def _f(self, node):
            self.generic_visit(node)
            node.decorator_list = [d for d in node.decorator_list if not ast.unparse(d).startswith('deal.')]
            return node
        visit_FunctionDef = visit_AsyncFunctionDef = visit_ClassDef = _f
    tree = T().visit(tree)
    tree.body = [s for s in tree.body if not (isinstance(s, ast.Import) and [a.name for a in s.names]==['deal'])]
    return ast.dump(tree)
stats = collections.Counter(); ex = {}
t0=time.time()
for p in files:
    try: src = p.read_text(); tree0 = ast.parse(src)
    except Exception: continue
    stats['files']+=1
    try:
        cur = src; passes = 0
        for i in range(6):
            out = Transformer(content=cur, path=p, types=set(TransformationType)).transform()
            if out == cur: break
            passes += 1; cur = out
            try: t = ast.parse(out)
            except SyntaxError as e:
                stats['invalid']+=1; ex.setdefault('invalid', (str(p), i, str(e))); raise StopIteration
            if strip(t) != strip(ast.parse(src)):
                stats['ast_changed']+=1; ex.setdefault('ast_changed', (str(p), i)); raise StopIteration
        else:
            stats['no_fixpoint_6']+=1; ex.setdefault('nofix', str(p))
        stats['passes_%d'%passes]+=1
        # lint at fixpoint
        tmp = Path('/tmp/scratch/_dec_tmp.py'); tmp.write_text(cur)
        with contextlib.redirect_stdout(io.StringIO()):
            errs = [(e.row, e.code, e.value) for e in Checker(tree=ast.parse(cur), filename=str(tmp)).get_errors()]
        und = [e for e in errs if e[1]==21 or 40<=e[1]<=56]
        if und: stats['undeclared_at_fixpoint']+=1; ex.setdefault('und', (str(p), und[:3]))
    except StopIteration: pass
    except BaseException as e:
        tb = traceback.extract_tb(e.__traceback__)
        fr = [f for f in tb if '/repo/deal/' in f.filename]
        key = ('crash', type(e).__name__, fr[-1].filename.split('/repo/')[-1] if fr else '?', fr[-1].lineno if fr else 0)
        stats[key]+=1; ex.setdefault(key, (str(p), str(e)[:120]))
print('time %.1f'%(time.time()-t0))
for k,v in sorted(stats.items(), key=str): print(v, k, ex.get(k,''))
for k in ('invalid','ast_changed','nofix','und'): print(k, ex.get(k))
