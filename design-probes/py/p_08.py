import sys, socket, functools, pickle, asyncio
import deal
from deal._state import state

def section(t): print('\n=== ' + t)

section('C11 inherit self binding')
class B:
    @deal.pre(lambda self, x: x > 0)
    def m(self, x): return x
class C(B):
    @deal.inherit
    def m(self, x): return self
cobj = C()
try:
    r = cobj.m(1); print('self seen:', r, 'is instance?', r is cobj)
except BaseException as e: print('raised', type(e).__name__, e)
try:
    r = cobj.m(1); print('2nd call self seen:', r)
except BaseException as e: print('raised', type(e).__name__, e)
