import sys, socket, functools, pickle, asyncio
import deal
from deal._state import state

def section(t): print('\n=== ' + t)

section('C08 recursion with has()')
orig = sys.stdout
@deal.has()
def rec(n):
    if n: rec(n-1)
    return 0
rec(1)
print('stdout restored?', sys.stdout is orig, file=sys.stderr)
sys.stdout = orig
