import sys, socket, functools, pickle, asyncio
import deal
from deal._state import state

def section(t): print('\n=== ' + t)

section('C01 omitted *args in short validator')
@deal.pre(lambda _: len(_.args) == 0)
def va(a, *args, **kw): return a
try: print(va(1))
except BaseException as e: print('raised', type(e).__name__, e)
