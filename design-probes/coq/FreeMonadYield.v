From Coq Require Import List ZArith Bool String Lia.
Import ListNotations.
Set Implicit Arguments.

Definition value := Z.
Definition exn := nat.
Inductive resume := Send (v : value) | Throw (e : exn).

Inductive prog (A : Type) : Type :=
| Ret (a : A)
| Raise (e : exn)
| GetDebug (k : bool -> prog A)
| SetDebug (b : bool) (k : prog A)
| Yield (v : value) (k : resume -> prog A)
| CallUser (f : nat) (args : list value) (k : value + exn -> prog A).
Arguments Raise {A} e.

Fixpoint bind {A B} (p : prog A) (f : A -> prog B) : prog B :=
  match p with
  | Ret a => f a
  | Raise e => Raise e
  | GetDebug k => GetDebug (fun b => bind (k b) f)
  | SetDebug b k => SetDebug b (bind k f)
  | Yield v k => Yield v (fun r => bind (k r) f)
  | CallUser g a k => CallUser g a (fun r => bind (k r) f)
  end.

(* try: p finally: q   (q's own exception replaces) *)
Fixpoint try_finally {A} (p : prog A) (q : prog unit) : prog A :=
  match p with
  | Ret a => bind q (fun _ => Ret a)
  | Raise e => bind q (fun _ => Raise e)
  | GetDebug k => GetDebug (fun b => try_finally (k b) q)
  | SetDebug b k => SetDebug b (try_finally k q)
  | Yield v k => Yield v (fun r => try_finally (k r) q)
  | CallUser g a k => CallUser g a (fun r => try_finally (k r) q)
  end.

Fixpoint try_except {A} (p : prog A) (h : exn -> option (prog A)) : prog A :=
  match p with
  | Ret a => Ret a
  | Raise e => match h e with Some q => q | None => Raise e end
  | GetDebug k => GetDebug (fun b => try_except (k b) h)
  | SetDebug b k => SetDebug b (try_except k h)
  | Yield v k => Yield v (fun r => try_except (k r) h)
  | CallUser g a k => CallUser g a (fun r => try_except (k r) h)
  end.

Fixpoint foreach {X} (l : list X) (f : X -> prog unit) : prog unit :=
  match l with [] => Ret tt | x :: xs => bind (f x) (fun _ => foreach xs f) end.

Definition yield_ (v : value) : prog value :=
  Yield v (fun r => match r with Send x => Ret x | Throw e => Raise e end).

(* pre-validation block *)
Definition pre_block (pres : list nat) (args : list value) : prog unit :=
  SetDebug false (try_finally
     (foreach pres (fun v => CallUser v args (fun r => match r with inl _ => Ret tt | inr e => Raise e end)))
     (SetDebug true (Ret tt))).

(* a hoare-ish predicate: every terminal leaf is reached with debug = true, assuming user calls preserve debug *)
Fixpoint leaves_debug {A} (p : prog A) (d : bool) : Prop :=
  match p with
  | Ret _ | Raise _ => d = true
  | GetDebug k => leaves_debug (k d) d
  | SetDebug b k => leaves_debug k b
  | Yield v k => forall r, leaves_debug (k r) d
  | CallUser _ _ k => forall r, leaves_debug (k r) d
  end.

Lemma pre_block_restores pres args d : leaves_debug (pre_block pres args) d.
Proof.
  unfold pre_block. cbn. clear d.
  induction pres as [|v vs IH]; cbn; [reflexivity|].
  intros [x|e]; cbn; [exact IH|reflexivity].
Qed.
Print Assumptions pre_block_restores.

Require Extraction.
Require Import ExtrOcamlBasic.
Extraction "prog.ml" pre_block try_except yield_.
