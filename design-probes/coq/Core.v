From Coq Require Import List ZArith Bool Lia.
Import ListNotations.
Set Implicit Arguments.

(* ---------- values, exceptions ---------- *)
Definition value := Z.
Inductive exn := Exn (cls : nat) (id : nat).
Definition is_contract_error (e : exn) := match e with Exn c _ => Nat.eqb c 0 end.
Definition is_exception (e : exn) := match e with Exn c _ => negb (Nat.eqb c 1) end. (* cls 1 = BaseException-only *)

Inductive stream := Real | Patched (owner : nat).
Record world := { debug : bool; out : stream; slots : nat -> stream (* true_stdout per patcher *) }.

(* ---------- effects ---------- *)
Inductive eff : Type -> Type :=
| GetDebug : eff bool
| SetDebug (b : bool) : eff unit
| GetOut : eff stream
| SetOut (s : stream) : eff unit
| GetSlot (p : nat) : eff stream
| SetSlot (p : nat) (s : stream) : eff unit
| Print : eff (unit + exn)          (* user-level: write to sys.stdout *)
| Call (f : nat) (a : value) : eff (value + exn).   (* call contracted function f *)

Inductive prog (A : Type) : Type :=
| Ret (a : A)
| Raise (e : exn)
| Vis {X} (ev : eff X) (k : X -> prog A).
Arguments Raise {A} e.

Fixpoint bind {A B} (p : prog A) (f : A -> prog B) : prog B :=
  match p with
  | Ret a => f a | Raise e => Raise e
  | Vis ev k => Vis ev (fun x => bind (k x) f)
  end.
Notation "x <- p ;; q" := (bind p (fun x => q)) (at level 61, p at next level, right associativity).
Notation "p ;;; q" := (bind p (fun _ => q)) (at level 61, right associativity).
Definition trigger {X} (ev : eff X) : prog X := Vis ev (fun x => Ret x).

Fixpoint try_finally {A} (p : prog A) (q : prog unit) : prog A :=
  match p with
  | Ret a => q ;;; Ret a
  | Raise e => q ;;; Raise e
  | Vis ev k => Vis ev (fun x => try_finally (k x) q)
  end.
Fixpoint try_except {A} (p : prog A) (h : exn -> option (prog A)) : prog A :=
  match p with
  | Ret a => Ret a
  | Raise e => match h e with Some q => q | None => Raise e end
  | Vis ev k => Vis ev (fun x => try_except (k x) h)
  end.
Fixpoint foreach {X} (l : list X) (f : X -> prog unit) : prog unit :=
  match l with [] => Ret tt | x :: xs => f x ;;; foreach xs f end.
Definition lift_res {A} (r : A + exn) : prog A := match r with inl a => Ret a | inr e => Raise e end.

(* ---------- the "generated" part: patcher + run_sync ---------- *)
Record contracts := { pres : list (value -> prog unit);   (* validators: user code, may raise *)
                      patcher : option nat;               (* has(): patcher id, blocks stdout *)
                      body : value -> prog value }.

Definition patch (p : nat) : prog unit :=
  s <- trigger GetOut ;; trigger (SetSlot p s) ;;; trigger (SetOut (Patched p)).
Definition unpatch (p : nat) : prog unit :=
  s <- trigger (GetSlot p) ;; trigger (SetOut s).
Definition when_some {X} (o : option X) (f : X -> prog unit) : prog unit :=
  match o with Some x => f x | None => Ret tt end.

Definition run_sync (c : contracts) (a : value) : prog value :=
  d <- trigger GetDebug ;;
  if negb d then body c a else
  trigger (SetDebug false) ;;;
  try_finally (foreach (pres c) (fun v => v a)) (trigger (SetDebug true)) ;;;
  when_some (patcher c) patch ;;;
  try_finally
    (try_except (body c a) (fun e => if is_contract_error e then None else None))
    (when_some (patcher c) unpatch).

(* ---------- interpreter with fuel ---------- *)
Inductive res (A : Type) := Done (r : A + exn) (w : world) | OutOfFuel.
Arguments OutOfFuel {A}.

Definition upd_slot (f : nat -> stream) p s := fun q => if Nat.eqb q p then s else f q.

Section Interp.
  Variable ftab : nat -> contracts.
  Variable runf : contracts -> value -> prog value.
  Fixpoint interp (fuel : nat) : forall A, prog A -> world -> res A :=
    fix go A (p : prog A) (w : world) {struct p} : res A :=
    match p with
    | Ret a => Done (inl a) w
    | Raise e => Done (inr e) w
    | Vis ev k =>
      match ev in eff X return (X -> prog A) -> res A with
      | GetDebug => fun k => go _ (k (debug w)) w
      | SetDebug b => fun k => go _ (k tt) {| debug := b; out := out w; slots := slots w |}
      | GetOut => fun k => go _ (k (out w)) w
      | SetOut s => fun k => go _ (k tt) {| debug := debug w; out := s; slots := slots w |}
      | GetSlot p => fun k => go _ (k (slots w p)) w
      | SetSlot p s => fun k => go _ (k tt) {| debug := debug w; out := out w; slots := upd_slot (slots w) p s |}
      | Print => fun k => match out w with
                          | Real => go _ (k (inl tt)) w
                          | Patched o => go _ (k (inr (Exn 0 o))) w
                          end
      | Call f a => fun k =>
          match fuel with
          | O => OutOfFuel
          | S fuel' =>
            match interp fuel' (runf (ftab f) a) w with
            | Done r w' => go _ (k r) w'
            | OutOfFuel => OutOfFuel
            end
          end
      end k
    end.
End Interp.
