From Coq Require Import List ZArith Bool Lia.
Import ListNotations.
Require Import Core.
Set Implicit Arguments.

(* ---- refutation on the faithful (pinned) model: recursion through one patcher ---- *)
Definition rec_body (a : value) : prog value :=
  if (0 <? a)%Z then (r <- trigger (Call 0 (a - 1)%Z) ;; lift_res r) else Ret 0%Z.
Definition rec_tab (_ : nat) : contracts := {| pres := []; patcher := Some 7; body := rec_body |}.
Definition w0 := {| debug := true; out := Real; slots := fun _ => Real |}.
Definition final_out (r : res value) := match r with Done _ w => Some (out w) | OutOfFuel => None end.
Lemma C08_refuted_pinned :
  final_out (interp rec_tab run_sync 5 (run_sync (rec_tab 0) 1%Z) w0) = Some (Patched 7).
Proof. vm_compute. reflexivity. Qed.

(* ---- fixed variant: saved original kept in a local ---- *)
Definition run_sync2 (c : contracts) (a : value) : prog value :=
  d <- trigger GetDebug ;;
  if negb d then body c a else
  trigger (SetDebug false) ;;;
  try_finally (foreach (pres c) (fun v => v a)) (trigger (SetDebug true)) ;;;
  match patcher c with
  | None => body c a
  | Some p => s <- trigger GetOut ;; trigger (SetOut (Patched p)) ;;;
              try_finally (body c a) (trigger (SetOut s))
  end.

Inductive user_ok : forall A, prog A -> Prop :=
| U_Ret A (a : A) : user_ok (Ret a)
| U_Raise A e : user_ok (@Raise A e)
| U_Print A (k : unit + exn -> prog A) : (forall r, user_ok (k r)) -> user_ok (Vis Print k)
| U_Call A f a (k : value + exn -> prog A) : (forall r, user_ok (k r)) -> user_ok (Vis (Call f a) k).

Definition tab_ok (ftab : nat -> contracts) :=
  forall f, (forall a, user_ok (body (ftab f) a)) /\ (forall v a, In v (pres (ftab f)) -> user_ok (v a)).

Definition frame (w w' : world) := debug w' = debug w /\ out w' = out w.

Section Proofs.
  Variable ftab : nat -> contracts.
  Hypothesis Htab : tab_ok ftab.
  Notation I := (interp ftab run_sync2).

  Lemma interp_bind fuel A B (p : prog A) (f : A -> prog B) w :
    I fuel (bind p f) w =
    match I fuel p w with
    | Done (inl a) w1 => I fuel (f a) w1
    | Done (inr e) w1 => Done (inr e) w1
    | OutOfFuel => OutOfFuel
    end.
  Proof.
    revert w. induction p as [a|e|X ev k IH]; intro w; destruct fuel as [|fuel']; try reflexivity;
      destruct ev; cbn -[run_sync2]; try apply IH; try reflexivity.
    - destruct (out w); apply IH.
    - destruct (out w); apply IH.
    - destruct (interp ftab run_sync2 fuel' (run_sync2 (ftab f0) a) w) as [r w1|]; [apply IH|reflexivity].
  Qed.

  Lemma interp_ret fuel A (a : A) w : I fuel (Ret a) w = Done (inl a) w.
  Proof. destruct fuel; reflexivity. Qed.
  Lemma interp_raise fuel A e w : I fuel (@Raise A e) w = Done (inr e) w.
  Proof. destruct fuel; reflexivity. Qed.

  Lemma interp_try_finally fuel A (p : prog A) (q : prog unit) w :
    I fuel (try_finally p q) w =
    match I fuel p w with
    | Done r w1 => match I fuel q w1 with
                   | Done (inl _) w2 => Done r w2
                   | Done (inr e) w2 => Done (inr e) w2
                   | OutOfFuel => OutOfFuel end
    | OutOfFuel => OutOfFuel
    end.
  Proof.
    revert w. induction p as [a|e|X ev k IH]; intro w.
    - cbn [try_finally]. rewrite interp_bind, interp_ret. destruct (I fuel q w) as [[u|e] w2|]; try reflexivity. apply interp_ret.
    - cbn [try_finally]. rewrite interp_bind, interp_raise. destruct (I fuel q w) as [[u|e'] w2|]; try reflexivity. apply interp_raise.
    - destruct fuel as [|fuel']; destruct ev; cbn -[run_sync2]; try apply IH; try reflexivity.
      + destruct (out w); apply IH.
      + destruct (out w); apply IH.
      + destruct (interp ftab run_sync2 fuel' (run_sync2 (ftab f) a) w) as [r w1|]; [apply IH|reflexivity].
  Qed.

  (* P n : every user program run with fuel n preserves (debug,out) *)
  Definition P (n : nat) := forall A (p : prog A), user_ok p -> forall w r w', I n p w = Done r w' -> frame w w'.

  Lemma frame_refl w : frame w w. Proof. split; reflexivity. Qed.
  Lemma frame_trans a b c : frame a b -> frame b c -> frame a c.
  Proof. unfold frame; intros [? ?] [? ?]; split; congruence. Qed.

  Lemma foreach_frame n (HP : P n) (l : list (value -> prog unit)) a :
    (forall v, In v l -> user_ok (v a)) ->
    forall w r w', I n (foreach l (fun v => v a)) w = Done r w' -> frame w w'.
  Proof.
    induction l as [|v vs IH]; intros Hok w r w' H.
    - destruct n; cbn in H; inversion H; apply frame_refl.
    - cbn [foreach] in H. rewrite interp_bind in H.
      destruct (I n (v a) w) as [[u|e] w1|] eqn:E; try discriminate.
      + eapply frame_trans; [eapply HP; [apply Hok; left; reflexivity|exact E]|].
        eapply IH; [intros; apply Hok; right; assumption|exact H].
      + inversion H; subst. eapply HP; [apply Hok; left; reflexivity|exact E].
  Qed.

  Lemma run_sync2_frame n (HP : P n) f a w r w' :
    I n (run_sync2 (ftab f) a) w = Done r w' -> frame w w'.
  Proof.
    destruct (Htab f) as [Hb Hv].
    unfold run_sync2. rewrite interp_bind.
    replace (I n (trigger GetDebug) w) with (@Done bool (inl (debug w)) w) by (destruct n; reflexivity).
    destruct (debug w) eqn:Hd; cbn [negb].
    2:{ intro H. eapply HP; [apply Hb|exact H]. }
    rewrite interp_bind.
    set (w1 := {| debug := false; out := out w; slots := slots w |}).
    replace (I n (trigger (SetDebug false)) w) with (@Done unit (inl tt) w1) by (destruct n; reflexivity).
    rewrite interp_bind, interp_try_finally.
    destruct (I n (foreach (pres (ftab f)) (fun v => v a)) w1) as [rv w2|] eqn:Ev; try discriminate.
    assert (F12 : frame w1 w2) by (exact (@foreach_frame n HP (pres (ftab f)) a (fun v Hin => Hv v a Hin) w1 rv w2 Ev)).
    set (w3 := {| debug := true; out := out w2; slots := slots w2 |}).
    replace (I n (trigger (SetDebug true)) w2) with (@Done unit (inl tt) w3) by (destruct n; reflexivity).
    assert (F3 : frame w w3).
    { destruct F12 as [_ Ho]. split; cbn; [symmetry; exact Hd|rewrite Ho; reflexivity]. }
    destruct rv as [u|e]; [|intro H; inversion H; subst; exact F3].
    destruct (patcher (ftab f)) as [p|].
    - rewrite interp_bind.
      replace (I n (trigger GetOut) w3) with (@Done stream (inl (out w3)) w3) by (destruct n; reflexivity).
      rewrite interp_bind.
      set (w4 := {| debug := debug w3; out := Patched p; slots := slots w3 |}).
      replace (I n (trigger (SetOut (Patched p))) w3) with (@Done unit (inl tt) w4) by (destruct n; reflexivity).
      rewrite interp_try_finally.
      destruct (I n (body (ftab f) a) w4) as [rb w5|] eqn:Eb; try discriminate.
      assert (F45 : frame w4 w5) by (eapply HP; [apply Hb|exact Eb]).
      set (w6 := {| debug := debug w5; out := out w3; slots := slots w5 |}).
      replace (I n (trigger (SetOut (out w3))) w5) with (@Done unit (inl tt) w6) by (destruct n; reflexivity).
      intro H. inversion H; subst.
      eapply frame_trans; [exact F3|]. destruct F45 as [Hd5 _]. split; cbn; [rewrite Hd5; reflexivity|reflexivity].
    - intro H. eapply frame_trans; [exact F3|]. eapply HP; [apply Hb|exact H].
  Qed.

  Theorem C08_restore_fixed : forall n, P n.
  Proof.
    induction n as [|n IHn]; intros A p Hok; induction Hok as [A a|A e|A k Hk IHk|A f a k Hk IHk]; intros w r w' H.
    - cbn in H; inversion H; apply frame_refl.
    - cbn in H; inversion H; apply frame_refl.
    - cbn in H. destruct (out w); eapply IHk; exact H.
    - cbn in H. discriminate.
    - cbn in H; inversion H; apply frame_refl.
    - cbn in H; inversion H; apply frame_refl.
    - cbn in H. destruct (out w); eapply IHk; exact H.
    - cbn -[run_sync2] in H.
      destruct (interp ftab run_sync2 n (run_sync2 (ftab f) a) w) as [r1 w1|] eqn:E; try discriminate.
      eapply frame_trans; [eapply run_sync2_frame; [exact IHn|exact E]|eapply IHk; exact H].
  Qed.
End Proofs.
Print Assumptions C08_restore_fixed.
Print Assumptions C08_refuted_pinned.
