#!/bin/sh
# Build the whole Coq development once from the files on disk (offline). Checks rebuild incrementally afterwards.
set -e
cd "$(dirname "$0")"
exec /venv/bin/python -c "
import sys; sys.path.insert(0, '.')
from tools.harness import coq
with coq.Lock():
    coq.mirror()
    rep = coq.translate()
    bad = {m: e.get('error') for m, e in rep.items() if not e.get('ok')}
    if bad: print('translation problems:', bad)
    ok, log = coq.make([], timeout=3000)
    print(log[-3000:])
    sys.exit(0 if ok else 1)
"
