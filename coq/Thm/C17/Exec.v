(* Thm/C17/Exec.v -- the linter reports a contract error for extracted values iff the runtime validator rejects them; the message of
   a message-returning validator is the finding's text; whatever cannot be executed is skipped silently. *)
From Coq Require Import List ZArith Bool String.
Import ListNotations.
Require Import Base LintExec.
Open Scope string_scope.

(* the violations the runtime produces without vaa: no message (args empty) or the message string *)
Definition plain_rejection (o : outcome) : Prop := o = Rejected None \/ exists s, o = Rejected (Some (VStr s)).

Theorem verdict_iff_rejected default o :
  (o = Accepted \/ plain_rejection o \/ exists c, o = Crashed c) ->
  (lint_verdict default o <> None <-> plain_rejection o).
Proof.
  intros [->|[H|[c ->]]].
  - cbn. split; [congruence|]. intros [H|[s H]]; discriminate.
  - split; [intros _; exact H|]. destruct H as [->|[s ->]]; cbn; congruence.
  - cbn. split; [congruence|]. intros [H|[s H]]; discriminate.
Qed.
Theorem accepted_no_finding default : lint_verdict default Accepted = None /\ pre_verdict default Accepted = None.
Proof. split; reflexivity. Qed.
Theorem crash_skipped default c : lint_verdict default (Crashed c) = None /\ pre_verdict default (Crashed c) = None.
Proof. split; reflexivity. Qed.
Theorem rejected_default_text default : lint_verdict default (Rejected None) = Some default /\ pre_verdict default (Rejected None) = Some default.
Proof. split; reflexivity. Qed.
Theorem rejected_message_text default s : lint_verdict default (Rejected (Some (VStr s))) = Some s.
Proof. reflexivity. Qed.
Theorem pre_message_text default s : s <> "" -> pre_verdict default (Rejected (Some (VStr s))) = Some s.
Proof. intro H. unfold pre_verdict, pre_token, template. apply String.eqb_neq in H. rewrite H. reflexivity. Qed.
(* the two places that judge a template result agree on everything the runtime produces without vaa *)
Theorem rules_agree default o : (o = Accepted \/ plain_rejection o \/ exists c, o = Crashed c) ->
  (lint_verdict default o = None <-> pre_verdict default o = None).
Proof.
  intros [->|[[->|[s ->]]|[c ->]]]; cbn; try tauto; try (split; congruence).
  destruct (String.eqb s ""); split; congruence.
Qed.

(* at full strength the equivalence fails for a rejection that carries a truthy non-string first argument (a vaa error mapping) *)
Example structured_errors_not_reported :
  lint_verdict "post contract error" (Rejected (Some (VDict [("x", VStr "must be positive")]))) = None.
Proof. reflexivity. Qed.
