(* Thm/C11/MroFacts.v -- the two facts about the C3 model (Py/Mro.v) that the C11 heap theorems use, proved of the model:
   a linearisation starts with its class, and everything else in it -- and everything in the linearisation of anything in it --
   was defined earlier, whenever the bases of a class are classes defined before it. (Py/Mro.v itself remains a hand-written
   model of CPython's type.mro(), compared with CPython by the C11 family.) *)
From Coq Require Import List Bool String Arith Lia.
Import ListNotations.
Require Import Base Mro.
Open Scope string_scope.

(* ---- merge only rearranges what it is given ---- *)
Lemma pick_head_in cands all c : pick_head cands all = Some c -> exists t, In (c :: t) cands.
Proof.
  induction cands as [|l rest IH]; cbn; [discriminate|]. destruct l as [|x t].
  - intros H. destruct (IH H) as [t' Ht]. eauto.
  - destruct (existsb (in_tail x) all).
    + intros H. destruct (IH H) as [t' Ht]. eauto.
    + intros H; inversion H; subst. exists t. left. reflexivity.
Qed.
Lemma drop_head_incl c l x : In x (drop_head c l) -> In x l.
Proof. destruct l as [|y t]; cbn; [tauto|]. destruct (String.eqb y c); [intros H; right; exact H|tauto]. Qed.
Lemma merge_subset fuel : forall seqs r, merge fuel seqs = Some r -> forall x, In x r -> exists l, In l seqs /\ In x l.
Proof.
  induction fuel as [|n IH]; intros seqs r; cbn [merge]; [discriminate|].
  set (seqs' := filter (fun l => match l with [] => false | _ => true end) seqs).
  assert (Hsub : forall l, In l seqs' -> In l seqs) by (intros l Hl; apply filter_In in Hl; tauto).
  destruct seqs' as [|s0 srest] eqn:Es.
  - intros H; inversion H; subst. intros x [].
  - rewrite <- Es in *. destruct (pick_head seqs' seqs') as [c|] eqn:Ep; [|discriminate].
    destruct (merge n (map (drop_head c) seqs')) as [r'|] eqn:Em; [|discriminate].
    intros H; inversion H; subst r. intros x [->|Hx].
    + destruct (pick_head_in _ _ _ Ep) as [t Ht]. exists (x :: t). split; [apply Hsub; exact Ht|left; reflexivity].
    + destruct (IH _ _ Em x Hx) as (l' & Hl' & Hxl'). apply in_map_iff in Hl'. destruct Hl' as (l0 & <- & Hl0).
      exists l0. split; [apply Hsub; exact Hl0|eapply drop_head_incl; exact Hxl'].
Qed.

(* ---- the table of linearisations ---- *)
Lemma lookup_in {X} (l : list (string * X)) c (v : X) : lookup c l = Some v -> In (c, v) l.
Proof.
  induction l as [|[k x] t IH]; cbn; [discriminate|]. destruct (String.eqb_spec k c) as [->|N].
  - intros H; inversion H; subst. left. reflexivity.
  - intros H. right. apply IH. exact H.
Qed.
(* every entry (n, m): m = n :: t with everything in t ranked below n *)
Definition entry_ok (rank : string -> nat) (e : string * list string) : Prop :=
  exists t, snd e = fst e :: t /\ forall d, In d t -> rank d < rank (fst e).
Definition ordered (hl : list (string * list string)) (rank : string -> nat) : Prop :=
  forall l1 n bs l2, hl = (l1 ++ (n, bs) :: l2)%list ->
    (forall x, In x (map fst l1) -> rank x < rank n) /\ rank "object" < rank n /\ (forall b, In b bs -> In b (map fst l1)).
Lemma ordered_tail e rest rank : ordered (e :: rest) rank -> forall l1 n bs l2, rest = (l1 ++ (n, bs) :: l2)%list ->
  (forall x, In x (map fst (e :: l1)) -> rank x < rank n) /\ rank "object" < rank n /\ (forall b, In b bs -> In b (map fst (e :: l1))).
Proof. intros H l1 n bs l2 E. apply (H (e :: l1) n bs l2). rewrite E. reflexivity. Qed.

Lemma mro_table_ok fuel rank : forall classes seen acc,
  Forall (entry_ok rank) acc ->
  (forall l1 n bs l2, classes = (l1 ++ (n, bs) :: l2)%list ->
     (forall x, In x (seen ++ map fst l1) -> rank x < rank n) /\ rank "object" < rank n /\ (forall b, In b bs -> In b (seen ++ map fst l1))) ->
  Forall (entry_ok rank) (mro_table fuel classes acc).
Proof.
  induction classes as [|[n bs] rest IH]; intros seen acc Hacc Hord; cbn [mro_table]; [exact Hacc|].
  destruct (Hord [] n bs rest eq_refl) as (Hlt & Hobj & Hbs). cbn [map app] in Hlt, Hbs. rewrite app_nil_r in Hlt, Hbs.
  apply (IH (seen ++ [n])%list).
  - apply Forall_app. split; [exact Hacc|]. constructor; [|constructor].
    set (bases := match bs with [] => ["object"] | _ => bs end).
    assert (Hb : forall b, In b bases -> rank b < rank n).
    { unfold bases. destruct bs as [|b0 bt]; [intros b [<-|[]]; exact Hobj|intros b Hb; apply Hlt; apply Hbs; exact Hb]. }
    set (lins := map (fun b => match lookup b acc with Some m => m | None => [b] end) bases).
    destruct (merge fuel (lins ++ [bases])) as [r|] eqn:Em.
    + exists r. split; [reflexivity|]. cbn [fst]. intros d Hd.
      destruct (merge_subset _ _ _ Em d Hd) as (l & Hl & Hdl). apply in_app_or in Hl. destruct Hl as [Hl|[<-|[]]]; [|apply Hb; exact Hdl].
      unfold lins in Hl. apply in_map_iff in Hl. destruct Hl as (b & <- & Hbin).
      destruct (lookup b acc) as [m|] eqn:El.
      * apply lookup_in in El. rewrite Forall_forall in Hacc. destruct (Hacc _ El) as (t & Et & Ht). cbn [fst snd] in *. subst m.
        destruct Hdl as [<-|Hdt]; [apply Hb; exact Hbin|]. specialize (Ht d Hdt). specialize (Hb b Hbin). lia.
      * destruct Hdl as [<-|[]]. apply Hb; exact Hbin.
    + exists []. split; [reflexivity|intros d []].
  - intros l1 n' bs' l2 E. destruct (Hord ((n, bs) :: l1) n' bs' l2) as (A & B & C); [rewrite E; reflexivity|].
    cbn [map fst] in A, C. split; [|split; [exact B|]].
    + intros x Hx. apply A. rewrite <- app_assoc in Hx. exact Hx.
    + intros b Hb'. rewrite <- app_assoc. apply C. exact Hb'.
Qed.

Lemma mro_of_entry hl rank c : ordered hl rank ->
  exists t, mro_of hl c = c :: t /\ (lookup c (mro_table 50 hl [("object", ["object"])]) <> None -> forall d, In d t -> rank d < rank c).
Proof.
  intros Hord. unfold mro_of.
  assert (T : Forall (entry_ok rank) (mro_table 50 hl [("object", ["object"])])).
  { apply (mro_table_ok 50 rank hl []).
    - constructor; [exists []; split; [reflexivity|intros d []]|constructor].
    - intros l1 n bs l2 E. cbn [app]. exact (Hord l1 n bs l2 E). }
  destruct (lookup c (mro_table 50 hl [("object", ["object"])])) as [m|] eqn:El.
  - apply lookup_in in El. rewrite Forall_forall in T. destruct (T _ El) as (t & Et & Ht). cbn [fst snd] in *. subst m.
    exists t. split; [reflexivity|intros _; exact Ht].
  - exists []. split; [reflexivity|intros H; contradiction].
Qed.

(* the two facts, for every class list whose bases are earlier classes (rank = any function increasing along the list, with "object" below) *)
Theorem mro_head hl rank c : ordered hl rank -> exists t, mro_of hl c = c :: t.
Proof. intros H. destruct (mro_of_entry hl rank c H) as (t & E & _). eauto. Qed.
Theorem mro_rank hl rank c b d : ordered hl rank -> In b (tl (mro_of hl c)) -> In d (mro_of hl b) -> rank d < rank c.
Proof.
  intros H Hb Hd.
  destruct (mro_of_entry hl rank c H) as (t & E & Ht). rewrite E in Hb. cbn [tl] in Hb.
  destruct (lookup c (mro_table 50 hl [("object", ["object"])])) as [m|] eqn:El.
  - assert (Hbc : rank b < rank c) by (apply Ht; [discriminate|exact Hb]).
    destruct (mro_of_entry hl rank b H) as (t' & E' & Ht'). rewrite E' in Hd. destruct Hd as [<-|Hd]; [exact Hbc|].
    destruct (lookup b (mro_table 50 hl [("object", ["object"])])) as [m'|] eqn:El'.
    + specialize (Ht' ltac:(discriminate) d Hd). lia.
    + unfold mro_of in E'. rewrite El' in E'. inversion E'; subst t'. destruct Hd.
  - unfold mro_of in E. rewrite El in E. inversion E; subst t. destruct Hb.
Qed.
