(* Thm/C11/HeapCheck.v -- the hypotheses of Thm/C11/HeapFrame.v (wwf, hier_ok) as boolean checks with soundness proofs, so that
   they can be (and are, by the C11 family) evaluated on every world that a generated scenario builds, and are shown to be
   satisfiable by a concrete non-trivial world (Props/C11.v). rank = position of the class statement. *)
From Coq Require Import List Bool String Arith Lia.
Import ListNotations.
Require Import Base Mro Interp ObjModel InheritHeap HeapFrame HeapBuild.

Fixpoint index_of (c : string) (l : list string) : nat :=
  match l with [] => 0 | x :: t => if String.eqb x c then 1 else match index_of c t with 0 => 0 | S n => S (S n) end end.
Definition rank_of (w : world) (c : string) : nat := index_of c (names w).

(* ---- hierarchy ---- *)
Definition hier_ok_b (w : world) : bool :=
  forallb (fun c => match M w c with x :: _ => String.eqb x c | [] => false end &&
                    forallb (fun b => forallb (fun d => Nat.ltb (rank_of w d) (rank_of w c)) (M w b)) (tl (M w c))) (names w).

Lemma lookup_app_ne {X} (acc : list (string * X)) n (m : X) c : c <> n -> lookup c (acc ++ [(n, m)]) = lookup c acc.
Proof.
  intros N. induction acc as [|[k v] t IH]; cbn.
  - destruct (String.eqb_spec n c); [congruence|reflexivity].
  - destruct (String.eqb k c); [reflexivity|exact IH].
Qed.
Lemma mro_table_other fuel classes : forall acc c, ~ In c (map fst classes) -> lookup c (mro_table fuel classes acc) = lookup c acc.
Proof.
  induction classes as [|[n b] rest IH]; intros acc c Hn; cbn; [reflexivity|].
  rewrite IH by (intros H; apply Hn; right; exact H). apply lookup_app_ne. intros ->. apply Hn. left. reflexivity.
Qed.
Lemma M_not_class w c : ~ In c (names w) -> tl (M w c) = [].
Proof.
  intros Hn. unfold M, mro_of. rewrite mro_table_other.
  - cbn [lookup]. destruct (String.eqb "object" c); reflexivity.
  - unfold hier. rewrite map_map. exact Hn.
Qed.
Theorem hier_ok_b_sound w : hier_ok_b w = true -> hier_ok w (rank_of w).
Proof.
  unfold hier_ok_b. rewrite forallb_forall. intros H. constructor.
  - intros c Hc. specialize (H c Hc). apply andb_prop in H. destruct H as [H _].
    destruct (M w c) as [|x t]; [discriminate|]. apply String.eqb_eq in H. subst x. eauto.
  - intros c b d Hb Hd. destruct (in_dec string_dec c (names w)) as [Hin|Hout].
    + specialize (H c Hin). apply andb_prop in H. destruct H as [_ H]. rewrite forallb_forall in H. specialize (H b Hb).
      rewrite forallb_forall in H. specialize (H d Hd). apply Nat.ltb_lt in H. exact H.
    + rewrite (M_not_class _ _ Hout) in Hb. destruct Hb.
Qed.

(* ---- heap ---- *)
Definition hwf_b (h : heap) : bool :=
  forallb (fun o => match o_attr (get_obj h o) with Some r => Nat.ltb r (nregs h) | None => true end) (seq 0 (nobjs h)) &&
  forallb (fun r => Nat.ltb (r_wrapped (get_reg h r)) (nobjs h) && Nat.ltb (r_func (get_reg h r)) (nobjs h) &&
                    match own_wrapper h (r_func (get_reg h r)) with None => true | Some _ => false end) (seq 0 (nregs h)).
Theorem hwf_b_sound h : hwf_b h = true -> hwf h.
Proof.
  unfold hwf_b. intros H. apply andb_prop in H. destruct H as [H1 H2]. rewrite forallb_forall in H1, H2. constructor.
  - intros o r Ho. destruct (Nat.lt_ge_cases o (nobjs h)) as [L|L].
    + specialize (H1 o). rewrite Ho in H1. apply Nat.ltb_lt. apply H1. apply in_seq. lia.
    + unfold get_obj in Ho. rewrite nth_overflow in Ho by exact L. discriminate.
  - intros r Hr. specialize (H2 r ltac:(apply in_seq; lia)). apply andb_prop in H2. destruct H2 as [H2 _]. apply andb_prop in H2.
    destruct H2 as [A B]. apply Nat.ltb_lt in A. apply Nat.ltb_lt in B. auto.
  - intros r Hr. specialize (H2 r ltac:(apply in_seq; lia)). apply andb_prop in H2. destruct H2 as [_ C].
    destruct (own_wrapper h (r_func (get_reg h r))); [discriminate|reflexivity].
Qed.

(* ---- world ---- *)
Definition holds (w : world) (c : string) (o : nat) : bool :=
  match attr_of w c with Some a => Nat.eqb (obj_of a) o | None => false end.
Definition is_func (w : world) (b : string) (o : nat) : bool :=
  match attr_of w b with Some (AFunc o2) => Nat.eqb o2 o | _ => false end.
Definition shared_b (w : world) : bool :=
  forallb (fun c => match attr_of w c with
                    | Some (AInh o) => forallb (fun c' => if String.eqb c c' then true
                                                          else if holds w c' o then existsb (fun b => is_func w b o) (tl (M w c)) else true) (names w)
                    | _ => true end) (names w).
Definition wwf_b (w : world) : bool :=
  hwf_b (w_heap w) &&
  forallb (fun c => match attr_of w c with Some a => Nat.ltb (obj_of a) (nobjs (w_heap w)) | None => true end) (names w) &&
  shared_b w.
Theorem wwf_b_sound w : wwf_b w = true -> wwf w.
Proof.
  unfold wwf_b. intros H. apply andb_prop in H. destruct H as [H H3]. apply andb_prop in H. destruct H as [H1 H2].
  rewrite forallb_forall in H2. constructor.
  - apply hwf_b_sound. exact H1.
  - intros c a Ha. specialize (H2 c (attr_in_names _ _ _ Ha)). rewrite Ha in H2. apply Nat.ltb_lt. exact H2.
  - intros c c' o N Ha Hb. unfold shared_b in H3. rewrite forallb_forall in H3.
    specialize (H3 c (attr_in_names _ _ _ Ha)). rewrite Ha in H3. rewrite forallb_forall in H3.
    assert (Hin' : In c' (names w)) by (destruct Hb as [Hb|Hb]; eapply attr_in_names; exact Hb).
    specialize (H3 c' Hin'). destruct (String.eqb_spec c c'); [contradiction|].
    assert (Hh : holds w c' o = true) by (unfold holds; destruct Hb as [-> | ->]; cbn; apply Nat.eqb_refl).
    rewrite Hh in H3. apply existsb_exists in H3. destruct H3 as (b & Hb1 & Hb2). exists b. split; [exact Hb1|].
    unfold is_func in Hb2. destruct (attr_of w b) as [[o2|o2]|]; try discriminate. apply Nat.eqb_eq in Hb2. subst. reflexivity.
Qed.

(* every world on the way: the class statements one by one *)
Fixpoint all_worlds (fuel : nat) (w : world) (l : list cspec) : list (option world) :=
  match l with
  | [] => []
  | c :: rest => match define_class fuel w c with
                 | Some w1 => Some w1 :: all_worlds fuel w1 rest
                 | None => [None] end
  end.
Definition checked (ow : option world) : bool := match ow with Some w => wwf_b w && hier_ok_b w | None => false end.
(* ---- the hypothesis of Thm/C11/HeapBuild.v (prefixes_ok: distinct class names + two facts about the C3 linearisations of every
   prefix of the class list) as a boolean, with rank = position of the class statement ---- *)
Lemma mro_of_not_class hl c : ~ In c (map fst hl) -> tl (mro_of hl c) = [].
Proof.
  intros Hn. unfold mro_of. rewrite mro_table_other by exact Hn. cbn [lookup]. destruct (String.eqb "object" c); reflexivity.
Qed.
Definition hier_ok_hb (hl : list (string * list string)) (rank : string -> nat) : bool :=
  forallb (fun c => match mro_of hl c with x :: _ => String.eqb x c | [] => false end &&
                    forallb (fun b => forallb (fun d => Nat.ltb (rank d) (rank c)) (mro_of hl b)) (tl (mro_of hl c))) (map fst hl).
Lemma hier_ok_hb_sound hl rank : hier_ok_hb hl rank = true -> hier_ok_h hl rank.
Proof.
  unfold hier_ok_hb. rewrite forallb_forall. intros H. split.
  - intros c Hc. specialize (H c Hc). apply andb_prop in H. destruct H as [H _].
    destruct (mro_of hl c) as [|x t]; [discriminate|]. apply String.eqb_eq in H. subst x. eauto.
  - intros c b d Hb Hd. destruct (in_dec string_dec c (map fst hl)) as [Hin|Hout].
    + specialize (H c Hin). apply andb_prop in H. destruct H as [_ H]. rewrite forallb_forall in H. specialize (H b Hb).
      rewrite forallb_forall in H. specialize (H d Hd). apply Nat.ltb_lt in H. exact H.
    + rewrite (mro_of_not_class _ _ Hout) in Hb. destruct Hb.
Qed.
Fixpoint prefixes_ok_b (hl0 : list (string * list string)) (specs : list cspec) (rank : string -> nat) : bool :=
  match specs with
  | [] => true
  | c :: rest => hier_ok_hb (hl0 ++ [spec_h c]) rank && forallb (fun x => Nat.ltb (rank x) (rank (cs_name c))) (map fst hl0) &&
                 negb (existsb (String.eqb (cs_name c)) (map fst hl0)) && prefixes_ok_b (hl0 ++ [spec_h c]) rest rank
  end.
Lemma prefixes_ok_b_sound specs rank : forall hl0, prefixes_ok_b hl0 specs rank = true -> prefixes_ok hl0 specs rank.
Proof.
  induction specs as [|c rest IH]; intros hl0; cbn [prefixes_ok_b prefixes_ok]; [auto|].
  intros H. apply andb_prop in H. destruct H as [H H4]. apply andb_prop in H. destruct H as [H H3]. apply andb_prop in H. destruct H as [H1 H2].
  split; [apply hier_ok_hb_sound; exact H1|]. split; [|split; [|apply IH; exact H4]].
  - rewrite forallb_forall in H2. intros x Hx. apply Nat.ltb_lt. apply H2. exact Hx.
  - intros Hin. apply negb_true_iff in H3. assert (existsb (String.eqb (cs_name c)) (map fst hl0) = true); [|congruence].
    apply existsb_exists. exists (cs_name c). split; [exact Hin|apply String.eqb_refl].
Qed.
Definition spec_rank (specs : list cspec) (c : string) : nat := index_of c (map cs_name specs).
(* closed form: the only hypothesis left is a computation about the class list and its C3 linearisations *)
Theorem built_world_wwf_b fuel patchers specs w :
  prefixes_ok_b [] specs (spec_rank specs) = true -> define_all fuel (world0 patchers) specs = Some w -> wwf w.
Proof. intros H. apply (built_world_wwf (spec_rank specs)). apply prefixes_ok_b_sound. exact H. Qed.

