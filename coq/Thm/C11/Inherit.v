(* Thm/C11/Inherit.v -- on the class-table model of Inherit._patch (Sem/ClassModel.v): a method marked inherit enforces its own
   contracts and every contract of the same-named method visible from each class of its MRO. *)
From Coq Require Import List Bool String.
Import ListNotations.
Require Import Base Mro Show ClassModel.

Theorem own_contracts n t cls name owner m c :
  resolve t cls name = Some (owner, m) -> In c (m_contracts m) -> In c (enforced_n (S n) t cls name).
Proof.
  intros Hr Hin. cbn [enforced_n]. rewrite Hr. destruct (m_inherit m); [apply in_or_app; left|]; exact Hin.
Qed.

Theorem ancestor_contracts n t cls name owner m base o2 bm c :
  resolve t cls name = Some (owner, m) -> m_inherit m = true ->
  In base (tl (mro_of (hierarchy t) owner)) ->
  resolve t base name = Some (o2, bm) -> resolve t o2 name = Some (o2, bm) ->
  In c (m_contracts bm) ->
  In c (enforced_n (S (S n)) t cls name).
Proof.
  intros Hr Hi Hb Hrb Hro Hin. cbn [enforced_n]. rewrite Hr, Hi.
  apply in_or_app. right. apply in_concat. eexists. split.
  - apply in_map_iff. exists base. split; [reflexivity|exact Hb].
  - rewrite Hrb. eapply own_contracts; eassumption.
Qed.

(* a method that is not marked inherit, or has no contracted ancestor, keeps exactly its own contracts *)
Theorem not_inherit_unchanged n t cls name owner m :
  resolve t cls name = Some (owner, m) -> m_inherit m = false -> enforced_n (S n) t cls name = m_contracts m.
Proof. intros Hr Hi. cbn [enforced_n]. rewrite Hr, Hi. reflexivity. Qed.
