(* Thm/C11/HeapBuild.v -- every world built by class statements (Sem/InheritHeap.v: define_all) satisfies the hypothesis wwf
   of the frame theorems (Thm/C11/HeapFrame.v), provided the class names are distinct and the C3 linearisations (Py/Mro.v, a
   validated model of CPython) of every prefix of the class list have the two properties collected in hier_ok: a
   linearisation starts with its class, and everything in the linearisation of a base was defined earlier. *)
From Coq Require Import List Bool String Arith Lia.
Import ListNotations.
Require Import Base Mro Interp ObjModel InheritHeap Compose HeapFrame.

(* ---------- heap steps keep the heap well-formed ---------- *)
Lemma new_obj_frame h x : hwf h -> (forall r, o_attr x = Some r -> r < nregs h) ->
  let h' := fst (new_obj h x) in
  hwf h' /\ hext h h' /\ snd (new_obj h x) = nobjs h /\ nobjs h' = S (nobjs h) /\ nregs h' = nregs h.
Proof.
  intros W Hx. unfold new_obj. cbn [fst snd].
  set (h' := {| h_objs := _; h_regs := _; h_vfun := _; h_pmarkers := _ |}).
  assert (No : nobjs h' = S (nobjs h)) by (unfold nobjs, h'; cbn; rewrite app_length; cbn; lia).
  assert (Nr : nregs h' = nregs h) by reflexivity.
  assert (Go : forall o, o < nobjs h -> get_obj h' o = get_obj h o) by (intros o Ho; unfold get_obj, h'; cbn; apply nth_app_lt'; exact Ho).
  assert (Gr : forall r, get_reg h' r = get_reg h r) by reflexivity.
  assert (Gon : get_obj h' (nobjs h) = x) by (unfold get_obj, h', nobjs; cbn; apply nth_app_len).
  assert (Ext : hext h h') by (constructor; try lia; auto).
  split; [|split; [exact Ext|split; [reflexivity|split; [exact No|exact Nr]]]].
  constructor.
  - intros o r Ho. rewrite Nr. destruct (Nat.lt_ge_cases o (nobjs h)) as [L|L].
    + rewrite Go in Ho by exact L. eapply hw_attr; eassumption.
    + destruct (Nat.eq_dec o (nobjs h)) as [->|N].
      * rewrite Gon in Ho. apply Hx. exact Ho.
      * unfold get_obj in Ho. rewrite nth_overflow in Ho by (fold (nobjs h'); lia). discriminate.
  - intros r Hr. rewrite Nr in Hr. rewrite Gr, No. destruct (hw_reg _ W r Hr). lia.
  - intros r Hr. rewrite Nr in Hr. rewrite Gr. destruct (hw_reg _ W r Hr) as [_ Hf].
    rewrite (own_wrapper_stable h h' _ W Ext Hf). apply (hw_func _ W). exact Hr.
Qed.
Lemma keeps_id_append k v : keeps_id (fun x => {| r_func := r_func x; r_wrapped := r_wrapped x; r_vals := (r_vals x ++ [(k, v)])%list; r_patcher := r_patcher x |}).
Proof. intros x; split; reflexivity. Qed.
Lemma keeps_id_has p : keeps_id (fun x => {| r_func := r_func x; r_wrapped := r_wrapped x; r_vals := r_vals x; r_patcher := Some p |}).
Proof. intros x; split; reflexivity. Qed.
Lemma attach_frame k v h f : hwf h -> f < nobjs h ->
  hwf (fst (attach k v h f)) /\ hext h (fst (attach k v h f)) /\ snd (attach k v h f) < nobjs (fst (attach k v h f)) /\
  (snd (attach k v h f) = f \/ nobjs h <= snd (attach k v h f)).
Proof.
  intros W Hf. unfold attach.
  destruct (ensure_wrapped_frame h f W Hf) as (E1 & W1 & Hr & Ow1 & Hcase & _).
  destruct (ensure_wrapped h f) as [h1 r] eqn:Ee. cbn [fst snd] in *.
  set (h2 := set_vfun h1 v (r_func (get_reg h1 r))).
  destruct (same_graph_wf h1 h2) as (E2 & W2 & Ow2); try reflexivity; [exact W1|].
  assert (Hr2 : r < nregs h2) by exact Hr.
  destruct (upd_reg_frame h2 r _ W2 Hr2 (keeps_id_append k v)) as (E3 & W3 & Nr3 & No3 & Ow3).
  cbn [fst snd]. split; [exact W3|]. split; [eapply hext_trans; [exact E1|eapply hext_trans; eassumption]|].
  rewrite No3. rewrite upd_reg_get by exact Hr2. rewrite Nat.eqb_refl. cbn [r_wrapped].
  change (get_reg h2 r) with (get_reg h1 r). split; [apply (hw_reg _ W1); exact Hr|].
  destruct Hcase as [[_ B]|[_ [_ C]]]; [left; exact B|right; rewrite C; lia].
Qed.
Lemma attach_has_frame p h f : hwf h -> f < nobjs h ->
  hwf (fst (attach_has p h f)) /\ hext h (fst (attach_has p h f)) /\ snd (attach_has p h f) < nobjs (fst (attach_has p h f)) /\
  (snd (attach_has p h f) = f \/ nobjs h <= snd (attach_has p h f)).
Proof.
  intros W Hf. unfold attach_has.
  destruct (ensure_wrapped_frame h f W Hf) as (E1 & W1 & Hr & Ow1 & Hcase & _).
  destruct (ensure_wrapped h f) as [h1 r] eqn:Ee. cbn [fst snd] in *.
  destruct (upd_reg_frame h1 r _ W1 Hr (keeps_id_has p)) as (E3 & W3 & Nr3 & No3 & Ow3).
  cbn [fst snd]. split; [exact W3|]. split; [eapply hext_trans; eassumption|].
  rewrite No3. rewrite upd_reg_get by exact Hr. rewrite Nat.eqb_refl. cbn [r_wrapped]. split; [apply (hw_reg _ W1); exact Hr|].
  destruct Hcase as [[_ B]|[_ [_ C]]]; [left; exact B|right; rewrite C; lia].
Qed.
Lemma apply_step_frame hf s : hwf (fst hf) -> snd hf < nobjs (fst hf) ->
  hwf (fst (apply_step hf s)) /\ hext (fst hf) (fst (apply_step hf s)) /\ snd (apply_step hf s) < nobjs (fst (apply_step hf s)) /\
  (snd (apply_step hf s) = snd hf \/ nobjs (fst hf) <= snd (apply_step hf s)).
Proof.
  intros W Hf. destruct s as [k v|p|t|t]; cbn [apply_step].
  - apply attach_frame; assumption.
  - apply attach_has_frame; assumption.
  - unfold foreign_wraps.
    destruct (new_obj_frame (fst hf) {| o_kind := OForeign t (snd hf); o_attr := o_attr (get_obj (fst hf) (snd hf)); o_wrapped := Some (snd hf); o_fkind := KSync |} W) as (A & B & C & D & _).
    + cbn [o_attr]. intros r Hr. eapply hw_attr; eassumption.
    + split; [exact A|split; [exact B|]]. rewrite C, D. split; [lia|right; lia].
  - unfold foreign_plain.
    destruct (new_obj_frame (fst hf) {| o_kind := OForeign t (snd hf); o_attr := None; o_wrapped := None; o_fkind := KSync |} W) as (A & B & C & D & _).
    + cbn [o_attr]. discriminate.
    + split; [exact A|split; [exact B|]]. rewrite C, D. split; [lia|right; lia].
Qed.
Lemma apply_steps_frame l : forall h f, hwf h -> f < nobjs h ->
  hwf (fst (apply_steps h f l)) /\ hext h (fst (apply_steps h f l)) /\ snd (apply_steps h f l) < nobjs (fst (apply_steps h f l)) /\
  f <= snd (apply_steps h f l).
Proof.
  unfold apply_steps. induction l as [|s t IH]; intros h f W Hf; cbn [fold_left].
  - cbn. auto using hext_refl.
  - destruct (apply_step_frame (h, f) s W Hf) as (A & B & C & D).
    destruct (apply_step (h, f) s) as [h1 f1] eqn:E. cbn [fst snd] in *.
    destruct (IH h1 f1 A C) as (A2 & B2 & C2 & D2). split; [exact A2|split; [eapply hext_trans; eassumption|split; [exact C2|]]].
    destruct D as [->|D]; lia.
Qed.

(* ---------- a class statement appends to the hierarchy; earlier linearisations stay ---------- *)
Lemma lookup_app_other {X} (acc : list (string * X)) n (m : X) c : c <> n -> lookup c (acc ++ [(n, m)]) = lookup c acc.
Proof.
  intros N. induction acc as [|[k v] t IH]; cbn.
  - destruct (String.eqb_spec n c); [congruence|reflexivity].
  - destruct (String.eqb k c); [reflexivity|exact IH].
Qed.
Lemma mro_table_app fuel l1 : forall l2 acc, mro_table fuel (l1 ++ l2) acc = mro_table fuel l2 (mro_table fuel l1 acc).
Proof. induction l1 as [|[n b] t IH]; intros l2 acc; cbn; [reflexivity|apply IH]. Qed.
Lemma mro_of_app hl n b c : c <> n -> mro_of (hl ++ [(n, b)]) c = mro_of hl c.
Proof.
  intros N. unfold mro_of. rewrite mro_table_app. cbn [mro_table]. rewrite lookup_app_other by exact N. reflexivity.
Qed.

Definition add_class (w : world) (h' : heap) (k : kls) : world := {| w_heap := h'; w_cls := (w_cls w ++ [k])%list |}.
Lemma names_add w h' k : names (add_class w h' k) = (names w ++ [k_name k])%list.
Proof. unfold names, add_class. cbn. apply map_app. Qed.
Lemma hier_add w h' k : hier (add_class w h' k) = (hier w ++ [(k_name k, k_bases k)])%list.
Proof. unfold hier, add_class. cbn. apply map_app. Qed.
Lemma find_app_last {X} (f : X -> bool) l x : find f (l ++ [x]) = match find f l with Some y => Some y | None => if f x then Some x else None end.
Proof. induction l as [|a t IH]; cbn; [reflexivity|]. destruct (f a); [reflexivity|exact IH]. Qed.
Lemma find_none_names w c : ~ In c (names w) -> find_kls w c = None.
Proof.
  intros H. unfold find_kls. destruct (find _ (w_cls w)) as [k|] eqn:E; [|reflexivity].
  apply find_some in E. destruct E as [Hin He]. apply String.eqb_eq in He. exfalso. apply H. subst c. apply in_map. exact Hin.
Qed.
Lemma attr_of_add_other w h' k c : c <> k_name k -> attr_of (add_class w h' k) c = attr_of w c.
Proof.
  intros N. unfold attr_of, find_kls, add_class. cbn [w_cls]. rewrite find_app_last.
  destruct (find _ (w_cls w)); [reflexivity|]. destruct (String.eqb_spec (k_name k) c); [congruence|reflexivity].
Qed.
Lemma attr_of_add_new w h' k : ~ In (k_name k) (names w) -> attr_of (add_class w h' k) (k_name k) = k_attr k.
Proof.
  intros H. unfold attr_of. replace (find_kls (add_class w h' k) (k_name k)) with (Some k); [reflexivity|].
  unfold find_kls, add_class. cbn [w_cls]. rewrite find_app_last. fold (find_kls w (k_name k)). rewrite (find_none_names _ _ H).
  rewrite String.eqb_refl. reflexivity.
Qed.
Lemma M_add w h' k c : c <> k_name k -> M (add_class w h' k) c = M w c.
Proof. intros N. unfold M. rewrite hier_add. apply mro_of_app. exact N. Qed.

Lemma add_class_wwf w h' k :
  wwf w -> hwf h' -> hext (w_heap w) h' -> ~ In (k_name k) (names w) ->
  (forall a, k_attr k = Some a -> nobjs (w_heap w) <= obj_of a /\ obj_of a < nobjs h') ->
  wwf (add_class w h' k).
Proof.
  intros W Hw Hx Hn Ha.
  assert (Hold : forall c a, attr_of w c = Some a -> c <> k_name k) by (intros c a Hc ->; apply Hn; eapply attr_in_names; exact Hc).
  constructor.
  - exact Hw.
  - intros c a Hc. cbn [w_heap add_class]. destruct (String.eqb_spec c (k_name k)) as [->|N].
    + rewrite attr_of_add_new in Hc by exact Hn. apply Ha. exact Hc.
    + rewrite attr_of_add_other in Hc by exact N. pose proof (ww_obj _ W c a Hc). pose proof (he_objs _ _ Hx). lia.
  - intros c c' o Ncc Hc Hc'.
    destruct (String.eqb_spec c (k_name k)) as [->|N].
    + (* the new class holds a fresh object: nobody else holds it *)
      exfalso. rewrite attr_of_add_new in Hc by exact Hn. destruct (Ha _ Hc) as [Hge _]. cbn [obj_of] in Hge.
      rewrite attr_of_add_other in Hc' by (intros E; apply Ncc; symmetry; exact E).
      destruct Hc' as [Hc'|Hc']; pose proof (ww_obj _ W c' _ Hc') as Hlt; cbn [obj_of] in Hlt; lia.
    + rewrite attr_of_add_other in Hc by exact N. rewrite (M_add _ _ _ _ N).
      destruct (String.eqb_spec c' (k_name k)) as [->|N'].
      * exfalso. rewrite attr_of_add_new in Hc' by exact Hn. pose proof (ww_obj _ W c _ Hc) as Hlt. cbn [obj_of] in Hlt.
        destruct Hc' as [Hc'|Hc']; destruct (Ha _ Hc') as [Hge _]; cbn [obj_of] in Hge; lia.
      * rewrite attr_of_add_other in Hc' by exact N'. destruct (ww_shared _ W c c' o Ncc Hc Hc') as (b & Hb1 & Hb2).
        exists b. split; [exact Hb1|]. rewrite attr_of_add_other by (eapply Hold; exact Hb2). exact Hb2.
Qed.

(* ---------- the class decorator ---------- *)
Lemma attr_of_set_attr_in w c a : In c (names w) -> attr_of (set_attr w c a) c = Some a.
Proof.
  unfold attr_of, find_kls, set_attr, names. cbn [w_cls]. induction (w_cls w) as [|k t IH]; cbn; [intros []|].
  destruct (String.eqb_spec (k_name k) c) as [E|E]; cbn [k_name].
  - intros _. destruct (String.eqb_spec (k_name k) c) as [_|E2]; [reflexivity|contradiction].
  - intros [H|H]; [contradiction|]. destruct (String.eqb_spec (k_name k) c) as [E2|_]; [contradiction|apply IH; exact H].
Qed.
Lemma names_set_attr w c a : names (set_attr w c a) = names w.
Proof. unfold names, set_attr. cbn. rewrite map_map. apply map_ext. intros k. destruct (String.eqb (k_name k) c); reflexivity. Qed.

Lemma class_inherit_wwf rank fuel w c w' :
  wwf w -> hier_ok w rank -> In c (names w) ->
  (forall x, In x (names w) -> x <> c -> rank x < rank c) ->
  (forall a_c, attr_of w c = Some a_c -> forall x a, x <> c -> attr_of w x = Some a -> obj_of a <> obj_of a_c) ->
  class_inherit fuel w c = Some w' -> wwf w' /\ hier w' = hier w /\ names w' = names w.
Proof.
  intros W H0 Hc Hrank Hfresh. unfold class_inherit.
  destruct (getattr_n fuel w c) as [[w2 [o|]]|] eqn:Eg; [| |discriminate].
  2:{ intros H; inversion H; subst. destruct (getattr_ok rank fuel w c w' None W H0 Eg) as (W2 & E2 & _).
      split; [exact W2|split; [exact (we_hier _ _ E2)|]]. rewrite !names_hier, (we_hier _ _ E2). reflexivity. }
  intros H; inversion H; subst w'. clear H.
  destruct (getattr_ok rank fuel w c w2 (Some o) W H0 Eg) as (W2 & E2 & F2 & Hres & _ & _ & Horig).
  destruct (Horig o eq_refl) as (d & Hd & Hdo & Hhold).
  assert (Hn2 : names w2 = names w) by (rewrite !names_hier, (we_hier _ _ E2); reflexivity).
  assert (H02 : hier_ok w2 rank) by (eapply hier_ok_ext; eassumption).
  assert (HM2 : forall x, M w2 x = M w x) by (intros x; apply M_ext; exact E2).
  set (w3 := set_attr w2 c (AInh o)).
  assert (Hc2 : In c (names w2)) by (rewrite Hn2; exact Hc).
  assert (Hsame : attr_of w3 c = Some (AInh o)) by (apply attr_of_set_attr_in; exact Hc2).
  assert (Hoth : forall x, x <> c -> attr_of w3 x = attr_of w2 x) by (intros x N; apply attr_of_set_attr_other; exact N).
  assert (HM3 : forall x, M w3 x = M w2 x) by (intros x; unfold M, w3; rewrite hier_set_attr; reflexivity).
  (* c is the newest class: it is in nobody's linearisation tail *)
  assert (Hnotbase : forall x a, x <> c -> attr_of w2 x = Some a -> ~ In c (tl (M w2 x))).
  { intros x a N Ha Hin. destruct (ho_head _ _ H02 c Hc2) as [t Ht].
    pose proof (ho_rank _ _ H02 x c c Hin ltac:(rewrite Ht; left; reflexivity)) as Hlt.
    pose proof (Hrank x ltac:(rewrite <- Hn2; eapply attr_in_names; exact Ha) N). lia. }
  split; [|split; [unfold w3; rewrite hier_set_attr; exact (we_hier _ _ E2)|unfold w3; rewrite names_set_attr; exact Hn2]].
  constructor.
  - exact (ww_heap _ W2).
  - intros x a Hx. destruct (String.eqb_spec x c) as [->|N].
    + rewrite Hsame in Hx. inversion Hx; subst a. cbn [obj_of]. apply Hres. reflexivity.
    + rewrite Hoth in Hx by exact N. apply (ww_obj _ W2 x a Hx).
  - intros x x' o' Nxx Hx Hx'. rewrite HM3.
    assert (Keep : forall b, In b (tl (M w2 x)) -> attr_of w2 b = Some (AFunc o') -> b <> c ->
                   exists b0, In b0 (tl (M w2 x)) /\ attr_of w3 b0 = Some (AFunc o')).
    { intros b Hb1 Hb2 Nb. exists b. split; [exact Hb1|rewrite Hoth by exact Nb; exact Hb2]. }
    destruct (String.eqb_spec x c) as [->|N].
    + (* the decorated class itself *)
      rewrite Hsame in Hx. inversion Hx; subst o'. clear Hx.
      assert (Nx' : x' <> c) by (intros E; apply Nxx; symmetry; exact E).
      rewrite Hoth in Hx' by exact Nx'.
      destruct (String.eqb_spec d c) as [->|Nd].
      * (* the function came from the class's own dictionary: nobody else holds it *)
        exfalso.
        assert (Hobj : exists a, attr_of w2 x' = Some a /\ obj_of a = o) by (destruct Hx' as [Hx'|Hx']; eexists; split; [exact Hx'|reflexivity|exact Hx'|reflexivity]).
        destruct Hobj as (a & Ha & Eo). destruct (Hhold x' a Nx' Ha Eo) as (a0 & Ha0 & Eo0).
        destruct (we_attr_obj _ _ E2 c (AFunc o) Hdo) as [(ac & Hac & Eac)|Hge].
        -- cbn [obj_of] in Eac. apply (Hfresh ac Hac x' a0 Nx' Ha0). congruence.
        -- cbn [obj_of] in Hge. pose proof (ww_obj _ W x' a0 Ha0). lia.
      * destruct (ho_head _ _ H02 c Hc2) as [t Ht]. exists d. split.
        -- rewrite Ht. cbn [tl]. rewrite <- HM2, Ht in Hd. destruct Hd as [E|Hd]; [congruence|exact Hd].
        -- rewrite Hoth by exact Nd. exact Hdo.
    + rewrite Hoth in Hx by exact N.
      destruct (String.eqb_spec x' c) as [->|N'].
      * rewrite Hsame in Hx'. destruct Hx' as [Hx'|Hx']; [discriminate|]. inversion Hx'; subst o'.
        (* x holds Inherit(o); o is a plain method of d *)
        assert (Nxd : x <> d) by (intros ->; congruence).
        destruct (ww_shared _ W2 x d o Nxd Hx (or_introl Hdo)) as (b & Hb1 & Hb2).
        apply (Keep b Hb1 Hb2). intros ->. exact (Hnotbase x _ N Hx Hb1).
      * rewrite Hoth in Hx' by exact N'. destruct (ww_shared _ W2 x x' o' Nxx Hx Hx') as (b & Hb1 & Hb2).
        apply (Keep b Hb1 Hb2). intros ->. exact (Hnotbase x _ N Hx Hb1).
Qed.

(* ---------- class statements ---------- *)
Definition hier_ok_h (hl : list (string * list string)) (rank : string -> nat) : Prop :=
  (forall c, In c (map fst hl) -> exists t, mro_of hl c = c :: t) /\
  (forall c b d, In b (tl (mro_of hl c)) -> In d (mro_of hl b) -> rank d < rank c).
Lemma hier_ok_of_h w rank : hier_ok_h (hier w) rank -> hier_ok w rank.
Proof. intros [A B]. constructor; [intros c Hc; apply A; rewrite <- names_hier; exact Hc|exact B]. Qed.
Definition spec_h (c : cspec) : string * list string := (cs_name c, cs_bases c).

Lemma define_class_wwf rank fuel w c w1 :
  wwf w -> ~ In (cs_name c) (names w) ->
  hier_ok_h (hier w ++ [spec_h c]) rank -> (forall x, In x (names w) -> rank x < rank (cs_name c)) ->
  define_class fuel w c = Some w1 ->
  wwf w1 /\ hier w1 = (hier w ++ [spec_h c])%list /\ names w1 = (names w ++ [cs_name c])%list.
Proof.
  intros W Hn Hh Hrank. unfold define_class.
  set (hm := match cs_method c with None => (w_heap w, None) | Some m => _ end).
  set (k := {| k_name := cs_name c; k_bases := cs_bases c; k_attr := snd hm |}).
  change {| w_heap := fst hm; w_cls := (w_cls w ++ [k])%list |} with (add_class w (fst hm) k).
  assert (Hm : hwf (fst hm) /\ hext (w_heap w) (fst hm) /\ (forall a, snd hm = Some a -> nobjs (w_heap w) <= obj_of a /\ obj_of a < nobjs (fst hm))).
  { unfold hm. destruct (cs_method c) as [m|]; cbn [fst snd].
    - destruct (new_obj_frame (w_heap w) {| o_kind := OBody (cs_name c); o_attr := None; o_wrapped := None; o_fkind := KSync |} (ww_heap _ W))
        as (A & B & C & D & _); [cbn; discriminate|].
      set (ho := new_obj (w_heap w) _) in *.
      assert (Hlt : snd ho < nobjs (fst ho)) by (rewrite C, D; lia).
      destruct (apply_steps_frame (ms_steps m) (fst ho) (snd ho) A Hlt) as (A2 & B2 & C2 & D2).
      split; [exact A2|]. split; [eapply hext_trans; eassumption|].
      intros a Ha. assert (Eo : obj_of a = snd (apply_steps (fst ho) (snd ho) (ms_steps m))) by (destruct (ms_inherit m); inversion Ha; reflexivity).
      rewrite Eo. split; [rewrite <- C; exact D2|exact C2].
    - split; [exact (ww_heap _ W)|split; [apply hext_refl|discriminate]]. }
  destruct Hm as (Hw & Hx & Ha).
  assert (W1 : wwf (add_class w (fst hm) k)) by (apply add_class_wwf; assumption).
  assert (Hh1 : hier (add_class w (fst hm) k) = (hier w ++ [spec_h c])%list) by apply hier_add.
  assert (Hn1 : names (add_class w (fst hm) k) = (names w ++ [cs_name c])%list) by apply names_add.
  destruct (cs_inherit c).
  - intros H.
    destruct (class_inherit_wwf rank fuel (add_class w (fst hm) k) (cs_name c) w1 W1) as (A & B & C); try exact H.
    + apply hier_ok_of_h. rewrite Hh1. exact Hh.
    + rewrite Hn1. apply in_or_app. right. left. reflexivity.
    + intros x Hx' N. rewrite Hn1 in Hx'. apply in_app_or in Hx'. destruct Hx' as [Hx'|[E|[]]]; [apply Hrank; exact Hx'|congruence].
    + intros a_c Hac x a N Hxa. change (cs_name c) with (k_name k) in Hac. rewrite (attr_of_add_new w (fst hm) k Hn) in Hac. destruct (Ha _ Hac) as [Hge _].
      rewrite attr_of_add_other in Hxa by exact N. pose proof (ww_obj _ W x a Hxa). lia.
    + split; [exact A|split; congruence].
  - intros H; inversion H; subst w1. auto.
Qed.

Fixpoint prefixes_ok (hl0 : list (string * list string)) (specs : list cspec) (rank : string -> nat) : Prop :=
  match specs with
  | [] => True
  | c :: rest => hier_ok_h (hl0 ++ [spec_h c]) rank /\ (forall x, In x (map fst hl0) -> rank x < rank (cs_name c)) /\
                 ~ In (cs_name c) (map fst hl0) /\ prefixes_ok (hl0 ++ [spec_h c]) rest rank
  end.
Theorem define_all_wwf rank fuel specs : forall w w',
  wwf w -> prefixes_ok (hier w) specs rank -> define_all fuel w specs = Some w' -> wwf w' /\ hier w' = (hier w ++ map spec_h specs)%list.
Proof.
  induction specs as [|c rest IH]; intros w w' W Hp; cbn [define_all].
  - intros H; inversion H; subst. split; [exact W|]. cbn. rewrite app_nil_r. reflexivity.
  - destruct Hp as (Hh & Hrank & Hn & Hrest).
    destruct (define_class fuel w c) as [w1|] eqn:Ed; [|discriminate].
    destruct (define_class_wwf rank fuel w c w1 W) as (W1 & Hh1 & Hn1); try assumption.
    + rewrite names_hier. exact Hn.
    + intros x Hx. apply Hrank. rewrite <- names_hier. exact Hx.
    + intros H. destruct (IH w1 w' W1) as (A & B); [rewrite Hh1; exact Hrest|exact H|].
      split; [exact A|]. rewrite B, Hh1, <- app_assoc. reflexivity.
Qed.
Lemma world0_wwf patchers : wwf (world0 patchers).
Proof.
  constructor.
  - constructor.
    + intros o r H. unfold get_obj, world0 in H. cbn in H. destruct o; discriminate.
    + intros r H. unfold nregs, world0 in H. cbn in H. lia.
    + intros r H. unfold nregs, world0 in H. cbn in H. lia.
  - intros c a H. discriminate.
  - intros c c' o _ H. discriminate.
Qed.
(* every world built from scratch by class statements *)
Theorem built_world_wwf rank fuel patchers specs w :
  prefixes_ok [] specs rank -> define_all fuel (world0 patchers) specs = Some w -> wwf w.
Proof. intros Hp Hd. eapply define_all_wwf; [apply world0_wwf|exact Hp|exact Hd]. Qed.
Theorem built_world_hier rank fuel patchers specs w :
  prefixes_ok [] specs rank -> define_all fuel (world0 patchers) specs = Some w -> hier w = map spec_h specs.
Proof. intros Hp Hd. destruct (define_all_wwf rank fuel specs (world0 patchers) w (world0_wwf patchers) Hp Hd) as [_ H]. exact H. Qed.
