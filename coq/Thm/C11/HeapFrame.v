(* Thm/C11/HeapFrame.v -- on the heap-level inherit model (Sem/InheritHeap.v): looking a method up on any class (which lazily
   patches inherit-marked methods along the way) changes no registry other than (a) registries it creates and (b) the own
   registry of an inherit-marked method that no other class uses as a plain method. In particular the registry of a method
   that is not marked inherit is never touched, whatever is derived from its class and in whatever order classes are used.
   (The defect repaired by c58cbb0: the class decorator merged ancestor contracts into the base class method's registry.) *)
From Coq Require Import List Bool String Arith Lia.
Import ListNotations.
Require Import Base Mro Interp ObjModel InheritHeap Compose.

(* ---------- lists ---------- *)
Lemma nth_list_upd_other {X} (l : list X) n m f d : n <> m -> nth n (list_upd l m f) d = nth n l d.
Proof.
  revert n m. induction l as [|a t IH]; intros n m H; destruct m; destruct n; cbn; auto; try lia.
Qed.
Lemma nth_app_lt' {X} (l l2 : list X) d n : n < List.length l -> nth n (l ++ l2) d = nth n l d.
Proof. intros H. apply app_nth1. exact H. Qed.

(* ---------- heaps only grow; objects and the identity part of registries never change ---------- *)
Definition nobjs (h : heap) := List.length (h_objs h).
Definition nregs (h : heap) := List.length (h_regs h).
Record hext (h h' : heap) : Prop := {
  he_objs : nobjs h <= nobjs h';
  he_obj : forall o, o < nobjs h -> get_obj h' o = get_obj h o;
  he_regs : nregs h <= nregs h';
  he_reg : forall r, r < nregs h -> r_func (get_reg h' r) = r_func (get_reg h r) /\ r_wrapped (get_reg h' r) = r_wrapped (get_reg h r) }.
Lemma hext_refl h : hext h h. Proof. constructor; auto. Qed.
Lemma hext_trans a b c : hext a b -> hext b c -> hext a c.
Proof.
  intros [A1 A2 A3 A4] [B1 B2 B3 B4]. constructor; try lia.
  - intros o H. rewrite B2 by lia. auto.
  - intros r H. destruct (A4 r H) as [X Y]. destruct (B4 r ltac:(lia)) as [X' Y']. split; congruence.
Qed.

Record hwf (h : heap) : Prop := {
  hw_attr : forall o r, o_attr (get_obj h o) = Some r -> r < nregs h;
  hw_reg : forall r, r < nregs h -> r_wrapped (get_reg h r) < nobjs h /\ r_func (get_reg h r) < nobjs h;
  hw_func : forall r, r < nregs h -> own_wrapper h (r_func (get_reg h r)) = None }.

Lemma own_wrapper_spec h o r : own_wrapper h o = Some r <-> o_attr (get_obj h o) = Some r /\ r_wrapped (get_reg h r) = o.
Proof.
  unfold own_wrapper. destruct (o_attr (get_obj h o)) as [r0|]; [|split; [discriminate|intros [H _]; discriminate]].
  destruct (Nat.eqb_spec (r_wrapped (get_reg h r0)) o) as [E|E]; split.
  - intros H; inversion H; subst; auto.
  - intros [H _]; inversion H; subst; reflexivity.
  - discriminate.
  - intros [H1 H2]. inversion H1; subst. contradiction.
Qed.
Lemma own_wrapper_stable h h' o : hwf h -> hext h h' -> o < nobjs h -> own_wrapper h' o = own_wrapper h o.
Proof.
  intros W E Ho. unfold own_wrapper. rewrite (he_obj _ _ E o Ho).
  destruct (o_attr (get_obj h o)) as [r|] eqn:Ea; [|reflexivity].
  pose proof (hw_attr _ W _ _ Ea) as Hr. destruct (he_reg _ _ E r Hr) as [_ Hw]. rewrite Hw. reflexivity.
Qed.
Lemma own_wrapper_out h o : hwf h -> nobjs h <= o -> own_wrapper h o = None.
Proof.
  intros W H. unfold own_wrapper, get_obj. rewrite nth_overflow by exact H. reflexivity.
Qed.
Lemma own_wrapper_inj h o o' r : own_wrapper h o = Some r -> own_wrapper h o' = Some r -> o = o'.
Proof. intros H1 H2. apply own_wrapper_spec in H1. apply own_wrapper_spec in H2. destruct H1, H2. congruence. Qed.

(* ---------- Contracts._ensure_wrapped ---------- *)
Lemma ensure_reuse h o r : own_wrapper h o = Some r -> ensure_wrapped h o = (h, r).
Proof. intros H. apply own_wrapper_spec in H. destruct H as [Ha Hw]. unfold ensure_wrapped. rewrite Ha, Hw, Nat.eqb_refl. reflexivity. Qed.
Lemma ensure_fresh h o : own_wrapper h o = None ->
  ensure_wrapped h o =
  ({| h_objs := (h_objs h ++ [{| o_kind := ODeal (nregs h); o_attr := Some (nregs h); o_wrapped := Some o; o_fkind := o_fkind (get_obj h o) |}])%list;
      h_regs := (h_regs h ++ [{| r_func := o; r_wrapped := nobjs h; r_vals := []; r_patcher := None |}])%list;
      h_vfun := h_vfun h; h_pmarkers := h_pmarkers h |}, nregs h).
Proof.
  intros H. unfold ensure_wrapped, own_wrapper in *. destruct (o_attr (get_obj h o)) as [r|]; [|reflexivity].
  destruct (Nat.eqb (r_wrapped (get_reg h r)) o); [discriminate|reflexivity].
Qed.

(* what ensure_wrapped guarantees, in both cases *)
Lemma ensure_wrapped_frame h o : hwf h -> o < nobjs h ->
  let h' := fst (ensure_wrapped h o) in let r := snd (ensure_wrapped h o) in
  hext h h' /\ hwf h' /\ r < nregs h' /\ own_wrapper h' (r_wrapped (get_reg h' r)) = Some r /\
  ((own_wrapper h o = Some r /\ r_wrapped (get_reg h' r) = o) \/ (own_wrapper h o = None /\ r = nregs h /\ r_wrapped (get_reg h' r) = nobjs h)) /\
  (forall r', r' < nregs h -> get_reg h' r' = get_reg h r').
Proof.
  intros W Ho. destruct (own_wrapper h o) as [r0|] eqn:E.
  - rewrite (ensure_reuse _ _ _ E). cbn [fst snd]. pose proof E as E'. apply own_wrapper_spec in E'. destruct E' as [Ea Ew].
    split; [apply hext_refl|split; [exact W|split; [eapply hw_attr; eassumption|split; [rewrite Ew; exact E|split; [left; split; [reflexivity|exact Ew]|auto]]]]].
  - rewrite (ensure_fresh _ _ E). cbn [fst snd].
    set (h' := {| h_objs := _; h_regs := _; h_vfun := _; h_pmarkers := _ |}).
    assert (No : nobjs h' = S (nobjs h)) by (unfold nobjs, h'; cbn; rewrite app_length; cbn; lia).
    assert (Nr : nregs h' = S (nregs h)) by (unfold nregs, h'; cbn; rewrite app_length; cbn; lia).
    assert (Go : forall x, x < nobjs h -> get_obj h' x = get_obj h x) by (intros x Hx; unfold get_obj, h'; cbn; apply nth_app_lt'; exact Hx).
    assert (Gr : forall x, x < nregs h -> get_reg h' x = get_reg h x) by (intros x Hx; unfold get_reg, h'; cbn; apply nth_app_lt'; exact Hx).
    assert (Gon : get_obj h' (nobjs h) = {| o_kind := ODeal (nregs h); o_attr := Some (nregs h); o_wrapped := Some o; o_fkind := o_fkind (get_obj h o) |})
      by (unfold get_obj, h', nobjs; cbn; apply nth_app_len).
    assert (Grn : get_reg h' (nregs h) = {| r_func := o; r_wrapped := nobjs h; r_vals := []; r_patcher := None |})
      by (unfold get_reg, h', nregs; cbn; apply nth_app_len).
    assert (Ext : hext h h').
    { constructor; try lia; auto. intros r Hr. rewrite Gr by exact Hr. auto. }
    split; [exact Ext|]. split; [|split; [lia|split; [|split; [right; rewrite Grn; auto|exact Gr]]]].
    + constructor.
      * intros x r Hx. destruct (Nat.lt_ge_cases x (nobjs h)) as [L|L].
        -- rewrite Go in Hx by exact L. pose proof (hw_attr _ W _ _ Hx). lia.
        -- destruct (Nat.eq_dec x (nobjs h)) as [->|N].
           ++ rewrite Gon in Hx. cbn [o_attr] in Hx. inversion Hx. lia.
           ++ unfold get_obj in Hx. rewrite nth_overflow in Hx by (fold (nobjs h'); lia). discriminate.
      * intros r Hr. destruct (Nat.eq_dec r (nregs h)) as [->|N].
        -- rewrite Grn. cbn [r_wrapped r_func]. lia.
        -- rewrite Gr by lia. destruct (hw_reg _ W r ltac:(lia)). lia.
      * intros r Hr. destruct (Nat.eq_dec r (nregs h)) as [->|N].
        -- rewrite Grn. cbn [r_func]. rewrite (own_wrapper_stable h h' o W Ext Ho). exact E.
        -- rewrite Gr by lia. destruct (hw_reg _ W r ltac:(lia)) as [_ Hf].
           rewrite (own_wrapper_stable h h' _ W Ext Hf). apply (hw_func _ W). lia.
    + rewrite Grn. cbn [r_wrapped]. apply own_wrapper_spec. rewrite Gon, Grn. cbn. auto.
Qed.

(* ---------- updates that keep the object graph ---------- *)
Lemma own_wrapper_congr h h' o :
  (forall x, get_obj h' x = get_obj h x) -> (forall r, r_wrapped (get_reg h' r) = r_wrapped (get_reg h r)) -> own_wrapper h' o = own_wrapper h o.
Proof. intros Ho Hr. unfold own_wrapper. rewrite Ho. destruct (o_attr (get_obj h o)); [rewrite Hr|]; reflexivity. Qed.
Lemma upd_reg_get h r f r' : r < nregs h -> get_reg (upd_reg h r f) r' = if Nat.eqb r' r then f (get_reg h r) else get_reg h r'.
Proof.
  intros Hr. unfold get_reg, upd_reg. cbn [h_regs]. destruct (Nat.eqb_spec r' r) as [->|N].
  - apply nth_list_upd_same. exact Hr.
  - apply nth_list_upd_other. exact N.
Qed.
Definition keeps_id (f : reg -> reg) : Prop := forall x, r_func (f x) = r_func x /\ r_wrapped (f x) = r_wrapped x.
Lemma upd_reg_frame h r f : hwf h -> r < nregs h -> keeps_id f ->
  hext h (upd_reg h r f) /\ hwf (upd_reg h r f) /\ nregs (upd_reg h r f) = nregs h /\ nobjs (upd_reg h r f) = nobjs h /\
  (forall o, own_wrapper (upd_reg h r f) o = own_wrapper h o).
Proof.
  intros W Hr K.
  assert (Nr : nregs (upd_reg h r f) = nregs h) by (unfold nregs, upd_reg; cbn; apply length_list_upd).
  assert (No : nobjs (upd_reg h r f) = nobjs h) by reflexivity.
  assert (Go : forall x, get_obj (upd_reg h r f) x = get_obj h x) by reflexivity.
  assert (Gi : forall x, r_func (get_reg (upd_reg h r f) x) = r_func (get_reg h x) /\ r_wrapped (get_reg (upd_reg h r f) x) = r_wrapped (get_reg h x)).
  { intros x. rewrite upd_reg_get by exact Hr. destruct (Nat.eqb_spec x r) as [->|N]; [apply K|auto]. }
  assert (Ow : forall o, own_wrapper (upd_reg h r f) o = own_wrapper h o) by (intros o; apply own_wrapper_congr; [exact Go|intros x; apply Gi]).
  split; [|split; [|auto]].
  - constructor; try lia; auto.
  - constructor.
    + intros o x Hx. rewrite Go in Hx. rewrite Nr. eapply hw_attr; eassumption.
    + intros x Hx. rewrite Nr in Hx. destruct (Gi x) as [A B]. rewrite A, B, No. apply (hw_reg _ W). exact Hx.
    + intros x Hx. rewrite Nr in Hx. destruct (Gi x) as [A _]. rewrite A, Ow. apply (hw_func _ W). exact Hx.
Qed.
Lemma set_pmarkers_frame h p m :
  (forall o, get_obj (set_pmarkers h p m) o = get_obj h o) /\ (forall r, get_reg (set_pmarkers h p m) r = get_reg h r) /\
  nregs (set_pmarkers h p m) = nregs h /\ nobjs (set_pmarkers h p m) = nobjs h.
Proof. repeat split. Qed.
Lemma same_graph_wf h h' :
  (forall o, get_obj h' o = get_obj h o) -> (forall r, get_reg h' r = get_reg h r) -> nregs h' = nregs h -> nobjs h' = nobjs h ->
  hwf h -> hext h h' /\ hwf h' /\ (forall o, own_wrapper h' o = own_wrapper h o).
Proof.
  intros Go Gr Nr No W.
  assert (Ow : forall o, own_wrapper h' o = own_wrapper h o) by (intros o; apply own_wrapper_congr; [exact Go|intros x; rewrite Gr; reflexivity]).
  split; [|split; [|exact Ow]].
  - constructor; try lia; auto. intros r _. rewrite Gr. auto.
  - constructor.
    + intros o x Hx. rewrite Go in Hx. rewrite Nr. eapply hw_attr; eassumption.
    + intros x Hx. rewrite Nr in Hx. rewrite Gr, No. apply (hw_reg _ W). exact Hx.
    + intros x Hx. rewrite Nr in Hx. rewrite Gr, Ow. apply (hw_func _ W). exact Hx.
Qed.

(* ---------- Contracts.wrap ---------- *)
Lemma keeps_id_add l : keeps_id (reg_add_vals l). Proof. intros x; split; reflexivity. Qed.
Lemma keeps_id_patcher p : keeps_id (reg_set_patcher p). Proof. intros x; split; reflexivity. Qed.

Lemma patcher_branch_frame h r m : hwf h -> r < nregs h ->
  let h3 := upd_reg (fst (new_patcher h m)) r (reg_set_patcher (snd (new_patcher h m))) in
  hext h h3 /\ hwf h3 /\ nregs h3 = nregs h /\ nobjs h3 = nobjs h /\ (forall o, own_wrapper h3 o = own_wrapper h o) /\
  (forall r', r' <> r -> get_reg h3 r' = get_reg h r') /\ r_wrapped (get_reg h3 r) = r_wrapped (get_reg h r).
Proof.
  intros W Hr. unfold new_patcher. cbn [fst snd].
  set (hq := set_pmarkers h (fresh_p h) m).
  destruct (set_pmarkers_frame h (fresh_p h) m) as (Go & Gr & Nr & No). fold hq in Go, Gr, Nr, No.
  destruct (same_graph_wf h hq Go Gr Nr No W) as (Eq1 & Wq & Owq).
  assert (Hrq : r < nregs hq) by (rewrite Nr; exact Hr).
  destruct (upd_reg_frame hq r _ Wq Hrq (keeps_id_patcher (fresh_p h))) as (E4 & W4 & Nr4 & No4 & Ow4).
  split; [eapply hext_trans; eassumption|]. split; [exact W4|]. split; [rewrite Nr4; exact Nr|]. split; [rewrite No4; exact No|].
  split; [intros o; rewrite Ow4; apply Owq|]. split.
  - intros r' N. rewrite upd_reg_get by exact Hrq. destruct (Nat.eqb_spec r' r); [contradiction|]. apply Gr.
  - rewrite upd_reg_get by exact Hrq. rewrite Nat.eqb_refl. cbn [reg_set_patcher r_wrapped]. rewrite Gr. reflexivity.
Qed.

Lemma wrap_reg_frame h src func : hwf h -> func < nobjs h ->
  let h' := fst (wrap_reg h src func) in let p := snd (wrap_reg h src func) in
  hext h h' /\ hwf h' /\ p < nobjs h' /\
  exists t, own_wrapper h' p = Some t /\ t < nregs h' /\
            ((own_wrapper h func = Some t /\ p = func) \/ (own_wrapper h func = None /\ t = nregs h /\ p = nobjs h)) /\
            (forall r', r' < nregs h -> r' <> t -> get_reg h' r' = get_reg h r').
Proof.
  intros W Hf. unfold wrap_reg. cbn [fst snd].
  destruct (ensure_wrapped_frame h func W Hf) as (E1 & W1 & Hr & Ow1 & Hcase & Hold).
  set (h1 := fst (ensure_wrapped h func)) in *. set (r := snd (ensure_wrapped h func)) in *.
  set (h2 := upd_reg h1 r (reg_add_vals (r_vals (get_reg h1 src)))).
  destruct (upd_reg_frame h1 r _ W1 Hr (keeps_id_add (r_vals (get_reg h1 src)))) as (E2 & W2 & Nr2 & No2 & Ow2). fold h2 in E2, W2, Nr2, No2, Ow2.
  set (h3 := match r_patcher (get_reg h2 src) with None => h2 | Some ps => _ end).
  assert (H3 : hext h2 h3 /\ hwf h3 /\ nregs h3 = nregs h2 /\ nobjs h3 = nobjs h2 /\ (forall o, own_wrapper h3 o = own_wrapper h2 o) /\
               (forall r', r' <> r -> get_reg h3 r' = get_reg h2 r') /\ r_wrapped (get_reg h3 r) = r_wrapped (get_reg h2 r)).
  { unfold h3. destruct (r_patcher (get_reg h2 src)) as [ps|].
    - apply patcher_branch_frame; [exact W2|rewrite Nr2; exact Hr].
    - split; [apply hext_refl|split; [exact W2|split; [reflexivity|split; [reflexivity|split; [reflexivity|split; [reflexivity|reflexivity]]]]]]. }
  destruct H3 as (E3 & W3 & Nr3 & No3 & Ow3 & Hoth3 & Hw3).
  assert (Hw2 : r_wrapped (get_reg h2 r) = r_wrapped (get_reg h1 r)).
  { unfold h2. rewrite upd_reg_get by exact Hr. rewrite Nat.eqb_refl. reflexivity. }
  assert (Ext : hext h h3) by (eapply hext_trans; [exact E1|eapply hext_trans; eassumption]).
  split; [exact Ext|]. split; [exact W3|].
  assert (Hp : r_wrapped (get_reg h3 r) = r_wrapped (get_reg h1 r)) by congruence.
  rewrite Hp.
  assert (Hpl : r_wrapped (get_reg h1 r) < nobjs h3).
  { rewrite No3, No2. apply (hw_reg _ W1). exact Hr. }
  split; [exact Hpl|]. exists r.
  split; [rewrite Ow3, Ow2; exact Ow1|]. split; [rewrite Nr3, Nr2; exact Hr|]. split.
  - destruct Hcase as [[A B]|[A [B C]]]; [left|right]; auto.
  - intros r' Hr' N. rewrite Hoth3 by exact N. unfold h2. rewrite upd_reg_get by exact Hr.
    destruct (Nat.eqb_spec r' r); [contradiction|]. apply Hold. exact Hr'.
Qed.

(* ---------- classes ---------- *)
Definition attr_of (w : world) (c : string) : option attr := match find_kls w c with Some k => k_attr k | None => None end.
Definition obj_of (a : attr) : nat := match a with AFunc o | AInh o => o end.
Definition M (w : world) (c : string) : list string := mro_of (hier w) c.

Lemma hier_set_attr w c a : hier (set_attr w c a) = hier w.
Proof.
  unfold hier, set_attr. cbn [w_cls]. rewrite map_map. apply map_ext. intros k. destruct (String.eqb (k_name k) c); reflexivity.
Qed.
Lemma hier_with_heap w h : hier (with_heap w h) = hier w. Proof. reflexivity. Qed.
Lemma attr_of_with_heap w h c : attr_of (with_heap w h) c = attr_of w c. Proof. reflexivity. Qed.
Lemma attr_of_set_attr_other w c a c' : c' <> c -> attr_of (set_attr w c a) c' = attr_of w c'.
Proof.
  intros N. unfold attr_of, find_kls, set_attr. cbn [w_cls]. induction (w_cls w) as [|k t IH]; cbn; [reflexivity|].
  destruct (String.eqb_spec (k_name k) c) as [E|E]; cbn [k_name].
  - destruct (String.eqb_spec (k_name k) c') as [E2|E2]; [congruence|exact IH].
  - destruct (String.eqb_spec (k_name k) c') as [E2|E2]; [reflexivity|exact IH].
Qed.
Lemma attr_of_set_attr_same w c a x : attr_of w c = Some x -> attr_of (set_attr w c a) c = Some a.
Proof.
  unfold attr_of, find_kls, set_attr. cbn [w_cls]. induction (w_cls w) as [|k t IH]; cbn; [discriminate|].
  destruct (String.eqb_spec (k_name k) c) as [E|E]; cbn [k_name].
  - destruct (String.eqb_spec (k_name k) c) as [_|E2]; [reflexivity|contradiction].
  - destruct (String.eqb_spec (k_name k) c) as [E2|_]; [contradiction|exact IH].
Qed.

Lemma first_def_head w c t a : attr_of w c = Some a -> first_def w (c :: t) = Some (c, a).
Proof. unfold attr_of. cbn. destruct (find_kls w c) as [k|]; [|discriminate]. intros ->. reflexivity. Qed.
Lemma first_def_sound w l c a : first_def w l = Some (c, a) -> attr_of w c = Some a /\ In c l.
Proof.
  induction l as [|x t IH]; cbn; [discriminate|]. unfold attr_of.
  destruct (find_kls w x) as [k|] eqn:E.
  - destruct (k_attr k) as [a'|] eqn:Ea.
    + intros H; inversion H; subst. rewrite E. auto.
    + intros H. destruct (IH H). auto.
  - intros H. destruct (IH H). auto.
Qed.

(* ---------- worlds ---------- *)
(* the hierarchy (which look-ups never change): every linearisation starts with its class, and everything in the
   linearisation of a base of c was defined before c (rank = position of the class statement) *)
Definition names (w : world) : list string := map k_name (w_cls w).
Lemma attr_in_names w c a : attr_of w c = Some a -> In c (names w).
Proof.
  unfold attr_of, find_kls, names. destruct (find _ (w_cls w)) as [k|] eqn:E; [|discriminate]. intros _.
  apply find_some in E. destruct E as [Hin He]. apply String.eqb_eq in He. subst c. apply in_map. exact Hin.
Qed.
Lemma names_hier w : names w = map fst (hier w).
Proof. unfold names, hier. rewrite map_map. reflexivity. Qed.
Record hier_ok (w : world) (rank : string -> nat) : Prop := {
  ho_head : forall c, In c (names w) -> exists t, M w c = c :: t;
  ho_rank : forall c b d, In b (tl (M w c)) -> In d (M w b) -> rank d < rank c }.
Record wwf (w : world) : Prop := {
  ww_heap : hwf (w_heap w);
  ww_obj : forall c a, attr_of w c = Some a -> obj_of a < nobjs (w_heap w);
  (* a function held by an Inherit object of class c and also held by another class (as a plain method, or by another Inherit
     object: two class-decorated subclasses of one base) is a plain method of a class in the linearisation of c *)
  ww_shared : forall c c' o, c <> c' -> attr_of w c = Some (AInh o) -> (attr_of w c' = Some (AFunc o) \/ attr_of w c' = Some (AInh o)) ->
              exists b, In b (tl (M w c)) /\ attr_of w b = Some (AFunc o) }.
Record wext (w w' : world) : Prop := {
  we_heap : hext (w_heap w) (w_heap w');
  we_hier : hier w' = hier w;
  we_func : forall c o, attr_of w c = Some (AFunc o) -> attr_of w' c = Some (AFunc o);
  we_inh : forall c o, attr_of w' c = Some (AInh o) -> attr_of w c = Some (AInh o);
  we_some : forall c, attr_of w c = None <-> attr_of w' c = None;
  (* the object a class holds afterwards is the one it held before, or an object created in between *)
  we_attr_obj : forall c a, attr_of w' c = Some a ->
                (exists a0, attr_of w c = Some a0 /\ obj_of a0 = obj_of a) \/ nobjs (w_heap w) <= obj_of a }.
Lemma wext_refl w : wext w w. Proof. constructor; auto using hext_refl; try tauto. intros c a H. left. eauto. Qed.
Lemma wext_trans a b c : wext a b -> wext b c -> wext a c.
Proof.
  intros [A1 A2 A3 A4 A5 A6] [B1 B2 B3 B4 B5 B6]. constructor; eauto using hext_trans; try congruence.
  - intros x. rewrite A5. apply B5.
  - intros x y Hy. destruct (B6 x y Hy) as [(y0 & Hy0 & Ey)|Hge].
    + destruct (A6 x y0 Hy0) as [(y1 & Hy1 & Ey1)|Hge]; [left; exists y1; split; [exact Hy1|congruence]|right; rewrite <- Ey; exact Hge].
    + right. pose proof (he_objs _ _ A1). lia.
Qed.
Lemma M_ext w w' c : wext w w' -> M w' c = M w c. Proof. intros E. unfold M. rewrite (we_hier _ _ E). reflexivity. Qed.

(* the registries a look-up may extend: the own registry of an inherit-marked method that no class holds as a plain method *)
Definition Mut (w : world) (r : nat) : Prop :=
  exists c o, attr_of w c = Some (AInh o) /\ own_wrapper (w_heap w) o = Some r /\ forall c', attr_of w c' <> Some (AFunc o).
Definition frame (w w' : world) : Prop :=
  forall r, r < nregs (w_heap w) -> ~ Mut w r -> get_reg (w_heap w') r = get_reg (w_heap w) r.
Lemma Mut_back w w' r : wwf w -> wext w w' -> Mut w' r -> Mut w r.
Proof.
  intros W E (c & o & Ha & Ho & Hn). exists c, o.
  pose proof (we_inh _ _ E _ _ Ha) as Ha0. split; [exact Ha0|]. split.
  - rewrite <- Ho. symmetry. apply own_wrapper_stable; [apply W|apply E|]. apply (ww_obj _ W c (AInh o) Ha0).
  - intros c' Hc. apply (Hn c'). apply (we_func _ _ E). exact Hc.
Qed.
Definition rel (w0 w : world) : Prop := wwf w /\ wext w0 w /\ frame w0 w.
Lemma rel_refl w : wwf w -> rel w w. Proof. intros W. split; [exact W|split; [apply wext_refl|intros r _ _; reflexivity]]. Qed.
Lemma rel_step w0 w w' : wwf w0 -> rel w0 w -> wwf w' -> wext w w' -> frame w w' -> rel w0 w'.
Proof.
  intros W0 (W & E & F) W' E' F'. split; [exact W'|]. split; [eapply wext_trans; eassumption|].
  intros r Hr Hn. rewrite <- (F r Hr Hn). apply F'.
  - pose proof (he_regs _ _ (we_heap _ _ E)). lia.
  - intros Hm. apply Hn. eapply Mut_back; eassumption.
Qed.

(* what a getter (getattr with lazy patching) guarantees *)
Definition ga_ok (rank : string -> nat) (ga : getter) : Prop :=
  forall w c w1 res, wwf w -> hier_ok w rank -> ga w c = Some (w1, res) ->
    wwf w1 /\ wext w w1 /\ frame w w1 /\
    (forall x, res = Some x -> x < nobjs (w_heap w1)) /\
    (forall x, attr_of w c = Some (AFunc x) -> res = Some x) /\
    (forall d, (forall x, In x (M w c) -> rank x < rank d) -> attr_of w1 d = attr_of w d) /\
    (* the function returned is a plain method of a class of the linearisation; whoever else holds it held it before *)
    (forall x, res = Some x -> exists d, In d (M w c) /\ attr_of w1 d = Some (AFunc x) /\
               forall y a, y <> d -> attr_of w1 y = Some a -> obj_of a = x -> exists a0, attr_of w y = Some a0 /\ obj_of a0 = x).
Lemma hier_ok_ext w w' rank : wext w w' -> hier_ok w rank -> hier_ok w' rank.
Proof.
  intros E [H1 H2]. constructor.
  - intros c Hc. rewrite (M_ext _ _ c E). apply H1. rewrite names_hier in *. rewrite <- (we_hier _ _ E). exact Hc.
  - intros c b d. rewrite !(M_ext _ _ _ E). apply H2.
Qed.

Lemma with_heap_rel w0 w h' t : wwf w0 -> rel w0 w -> hext (w_heap w) h' -> hwf h' ->
  (forall r', r' < nregs (w_heap w) -> r' <> t -> get_reg h' r' = get_reg (w_heap w) r') ->
  (t < nregs (w_heap w0) -> Mut w0 t) -> rel w0 (with_heap w h').
Proof.
  intros W0 (W & E & F) Hx Hw Hfr Ht.
  assert (E' : wext w (with_heap w h')).
  { constructor; cbn [w_heap with_heap]; auto; try tauto. intros c a Ha. left. rewrite attr_of_with_heap in Ha. eauto. }
  split; [|split; [eapply wext_trans; eassumption|]].
  - constructor; cbn [w_heap with_heap].
    + exact Hw.
    + intros c a Ha. rewrite attr_of_with_heap in Ha. pose proof (ww_obj _ W c a Ha). pose proof (he_objs _ _ Hx). lia.
    + intros c c' o. rewrite !attr_of_with_heap. intros N Ha Hb. destruct (ww_shared _ W c c' o N Ha Hb) as (b & Hb1 & Hb2).
      exists b. rewrite attr_of_with_heap. auto.
  - intros r Hr Hn. cbn [w_heap with_heap]. rewrite <- (F r Hr Hn). apply Hfr.
    + pose proof (he_regs _ _ (we_heap _ _ E)). lia.
    + intros ->. apply Hn. apply Ht. exact Hr.
Qed.

Definition above (rank : string -> nat) (w0 : world) (bases : list string) (c : string) : Prop :=
  forall x, In x bases -> forall y, In y (M w0 x) -> rank y < rank c.
Lemma above_tl rank w0 x t c : above rank w0 (x :: t) c -> above rank w0 t c.
Proof. intros H y Hy. apply H. right. exact Hy. Qed.

Lemma any_is_ok rank ga : ga_ok rank ga -> forall bases w0 w o w1 b,
  wwf w0 -> hier_ok w0 rank -> rel w0 w ->
  any_is ga w bases o = Some (w1, b) ->
  rel w0 w1 /\ (forall c, above rank w0 bases c -> attr_of w1 c = attr_of w c) /\
  ((exists c', In c' bases /\ attr_of w c' = Some (AFunc o)) -> b = true).
Proof.
  intros G. induction bases as [|x t IH]; intros w0 w o w1 b W0 H0 R; cbn.
  - intros H; inversion H; subst. split; [exact R|split; [reflexivity|]]. intros (c' & [] & _).
  - destruct (ga w x) as [[w2 res]|] eqn:Eg; [|discriminate].
    destruct R as (W & E & F).
    destruct (G w x w2 res W (hier_ok_ext _ _ _ E H0) Eg) as (W2 & E2 & F2 & Hres & Hfun & Hunt & _).
    assert (R2 : rel w0 w2) by (eapply rel_step; [exact W0|split; [exact W|split; eassumption]|exact W2|exact E2|exact F2]).
    assert (Hc : forall c, above rank w0 (x :: t) c -> attr_of w2 c = attr_of w c).
    { intros c Hab. apply Hunt. intros y Hy. rewrite (M_ext _ _ _ E) in Hy. eapply Hab; [left; reflexivity|exact Hy]. }
    destruct res as [y|].
    + destruct (Nat.eqb_spec y o) as [->|N].
      * intros H; inversion H; subst. split; [exact R2|split; [exact Hc|auto]].
      * intros H. destruct (IH w0 w2 o w1 b W0 H0 R2 H) as (R3 & Hc3 & Hb).
        split; [exact R3|split; [intros c Hab; rewrite (Hc3 c (above_tl _ _ _ _ _ Hab)); apply Hc; exact Hab|]]. intros (c' & [->|Hin] & Ha).
        -- specialize (Hfun o Ha). inversion Hfun. contradiction.
        -- apply Hb. exists c'. split; [exact Hin|]. apply (we_func _ _ E2). exact Ha.
    + intros H. destruct (IH w0 w2 o w1 b W0 H0 R2 H) as (R3 & Hc3 & Hb).
      split; [exact R3|split; [intros c Hab; rewrite (Hc3 c (above_tl _ _ _ _ _ Hab)); apply Hc; exact Hab|]]. intros (c' & [->|Hin] & Ha).
      * specialize (Hfun o Ha). discriminate.
      * apply Hb. exists c'. split; [exact Hin|]. apply (we_func _ _ E2). exact Ha.
Qed.

Lemma merge_ok rank ga : ga_ok rank ga -> forall bases w0 w o patched w1 q,
  wwf w0 -> hier_ok w0 rank -> rel w0 w ->
  patched < nobjs (w_heap w) ->
  (forall t, own_wrapper (w_heap w) patched = Some t -> t < nregs (w_heap w0) -> Mut w0 t) ->
  (patched = o \/ nobjs (w_heap w0) <= patched) ->
  (patched = o \/ forall y a, attr_of w y = Some a -> obj_of a <> patched) ->
  merge_bases ga w bases o patched = Some (w1, q) ->
  rel w0 w1 /\ (forall c, above rank w0 bases c -> attr_of w1 c = attr_of w c) /\ q < nobjs (w_heap w1) /\ (q = o \/ nobjs (w_heap w0) <= q) /\
  (q = o \/ forall y a, attr_of w1 y = Some a -> obj_of a <> q).
Proof.
  intros G. induction bases as [|x t IH]; intros w0 w o patched w1 q W0 H0 R Hp Htgt Hpo Hun; cbn.
  - intros H; inversion H; subst. auto.
  - destruct (ga w x) as [[w2 res]|] eqn:Eg; [|discriminate].
    pose proof R as (W & E & F).
    destruct (G w x w2 res W (hier_ok_ext _ _ _ E H0) Eg) as (W2 & E2 & F2 & Hres & Hfun & Hunt & _).
    assert (R2 : rel w0 w2) by (eapply rel_step; [exact W0|exact R|exact W2|exact E2|exact F2]).
    assert (Hc : forall c, above rank w0 (x :: t) c -> attr_of w2 c = attr_of w c).
    { intros c Hab. apply Hunt. intros y Hy. rewrite (M_ext _ _ _ E) in Hy. eapply Hab; [left; reflexivity|exact Hy]. }
    assert (Hp2 : patched < nobjs (w_heap w2)) by (pose proof (he_objs _ _ (we_heap _ _ E2)); lia).
    assert (Htgt2 : forall t0, own_wrapper (w_heap w2) patched = Some t0 -> t0 < nregs (w_heap w0) -> Mut w0 t0).
    { intros t0 Ht0. apply Htgt. rewrite <- Ht0. symmetry. apply own_wrapper_stable; [apply W|apply E2|exact Hp]. }
    assert (Hun2 : patched = o \/ forall y a, attr_of w2 y = Some a -> obj_of a <> patched).
    { destruct Hun as [->|Hun]; [left; reflexivity|right]. intros y a Ha.
      destruct (we_attr_obj _ _ E2 y a Ha) as [(a0 & Ha0 & Eo)|Hge]; [rewrite <- Eo; eapply Hun; exact Ha0|lia]. }
    assert (Skip : merge_bases ga w2 t o patched = Some (w1, q) ->
                   rel w0 w1 /\ (forall c, above rank w0 (x :: t) c -> attr_of w1 c = attr_of w c) /\ q < nobjs (w_heap w1) /\ (q = o \/ nobjs (w_heap w0) <= q) /\
                   (q = o \/ forall y a, attr_of w1 y = Some a -> obj_of a <> q)).
    { intros H. destruct (IH w0 w2 o patched w1 q W0 H0 R2 Hp2 Htgt2 Hpo Hun2 H) as (A & B & C & D & D2).
      split; [exact A|split; [intros c Hab; rewrite (B c (above_tl _ _ _ _ _ Hab)); apply Hc; exact Hab|auto]]. }
    destruct res as [other|]; [|exact Skip].
    destruct (Nat.eqb other o); [exact Skip|].
    destruct (o_attr (get_obj (w_heap w2) other)) as [r|]; [|exact Skip].
    destruct (wrap_reg_frame (w_heap w2) r patched (ww_heap _ W2) Hp2) as (Hx & Hw & Hq & tt & Hown & Htl & Hcase & Hfr).
    set (h' := fst (wrap_reg (w_heap w2) r patched)) in *. set (q' := snd (wrap_reg (w_heap w2) r patched)) in *.
    assert (Htt : tt < nregs (w_heap w0) -> Mut w0 tt).
    { intros Hlt. destruct Hcase as [[A _]|[_ [B _]]].
      - apply Htgt2; assumption.
      - pose proof (he_regs _ _ (we_heap _ _ (proj1 (proj2 R2)))). lia. }
    assert (R3 : rel w0 (with_heap w2 h')) by (eapply with_heap_rel; eassumption).
    intros H.
    assert (Hq3 : q' < nobjs (w_heap (with_heap w2 h'))) by exact Hq.
    assert (Htgt3 : forall t0, own_wrapper (w_heap (with_heap w2 h')) q' = Some t0 -> t0 < nregs (w_heap w0) -> Mut w0 t0).
    { cbn [w_heap with_heap]. intros t0 Ht0. rewrite Hown in Ht0. inversion Ht0; subst. exact Htt. }
    assert (Hpo3 : q' = o \/ nobjs (w_heap w0) <= q').
    { destruct Hcase as [[_ B]|[_ [_ C]]].
      - rewrite B. exact Hpo.
      - right. rewrite C. pose proof (he_objs _ _ (we_heap _ _ (proj1 (proj2 R2)))). lia. }
    assert (Hun3 : q' = o \/ forall y a, attr_of (with_heap w2 h') y = Some a -> obj_of a <> q').
    { destruct Hcase as [[_ B]|[_ [_ C]]].
      - rewrite B. destruct Hun2 as [->|Hun2]; [left; reflexivity|right; intros y a; rewrite attr_of_with_heap; apply Hun2].
      - right. intros y a. rewrite attr_of_with_heap. intros Ha. rewrite C. pose proof (ww_obj _ W2 y a Ha). lia. }
    destruct (IH w0 (with_heap w2 h') o q' w1 q W0 H0 R3 Hq3 Htgt3 Hpo3 Hun3 H) as (A & B & C & D & D2).
    split; [exact A|split; [intros c Hab; rewrite (B c (above_tl _ _ _ _ _ Hab)), attr_of_with_heap; apply Hc; exact Hab|auto]].
Qed.

(* ---------- Inherit._patch ---------- *)
Lemma set_attr_final w0 w3 c o q : wwf w0 -> rel w0 w3 -> attr_of w3 c = Some (AInh o) -> q < nobjs (w_heap w3) ->
  (q = o \/ nobjs (w_heap w0) <= q) ->
  let w' := set_attr w3 c (AFunc q) in
  wwf w' /\ wext w0 w' /\ frame w0 w' /\ (forall d, d <> c -> attr_of w' d = attr_of w3 d) /\ attr_of w' c = Some (AFunc q).
Proof.
  intros W0 (W3 & E3 & F3) Hc Hq Hqo w'.
  assert (Hoth : forall d, d <> c -> attr_of w' d = attr_of w3 d) by (intros d N; apply attr_of_set_attr_other; exact N).
  assert (Hsame : attr_of w' c = Some (AFunc q)) by (eapply attr_of_set_attr_same; exact Hc).
  assert (HM : forall x, M w' x = M w3 x) by (intros x; unfold M, w'; rewrite hier_set_attr; reflexivity).
  assert (Hc0 : attr_of w0 c = Some (AInh o)) by (apply (we_inh _ _ E3); exact Hc).
  assert (E' : wext w0 w').
  { constructor.
    - exact (we_heap _ _ E3).
    - unfold w'. rewrite hier_set_attr. exact (we_hier _ _ E3).
    - intros x o' Hx. pose proof (we_func _ _ E3 _ _ Hx) as Hx3.
      destruct (String.eqb_spec x c) as [->|N]; [congruence|rewrite Hoth by exact N; exact Hx3].
    - intros x o' Hx. destruct (String.eqb_spec x c) as [->|N]; [congruence|rewrite Hoth in Hx by exact N; apply (we_inh _ _ E3); exact Hx].
    - intros x. destruct (String.eqb_spec x c) as [->|N]; [rewrite Hc0, Hsame; split; discriminate|rewrite Hoth by exact N; apply (we_some _ _ E3)].
    - intros x a Hx. destruct (String.eqb_spec x c) as [->|N].
      + rewrite Hsame in Hx. inversion Hx; subst a. cbn [obj_of]. destruct Hqo as [->|Hge]; [left; exists (AInh o); auto|right; exact Hge].
      + rewrite Hoth in Hx by exact N. apply (we_attr_obj _ _ E3); exact Hx. }
  split; [|split; [exact E'|split; [exact F3|split; [exact Hoth|exact Hsame]]]].
  constructor.
  - exact (ww_heap _ W3).
  - intros x a Hx. destruct (String.eqb_spec x c) as [->|N].
    + rewrite Hsame in Hx. inversion Hx; subst. exact Hq.
    + rewrite Hoth in Hx by exact N. apply (ww_obj _ W3 x a Hx).
  - intros x x' o' Nxx Hx Hx'.
    destruct (String.eqb_spec x c) as [->|N]; [congruence|]. rewrite Hoth in Hx by exact N.
    assert (Keep : forall b, In b (tl (M w3 x)) /\ attr_of w3 b = Some (AFunc o') -> exists b0, In b0 (tl (M w' x)) /\ attr_of w' b0 = Some (AFunc o')).
    { intros b [Hb1 Hb2]. exists b. rewrite HM. split; [exact Hb1|]. destruct (String.eqb_spec b c) as [->|Nb]; [congruence|]. rewrite Hoth by exact Nb. exact Hb2. }
    destruct (String.eqb_spec x' c) as [->|N'].
    + rewrite Hsame in Hx'. destruct Hx' as [Hx'|Hx']; [|discriminate]. inversion Hx'; subst o'. destruct Hqo as [->|Hge].
      * destruct (ww_shared _ W3 x c o N Hx (or_intror Hc)) as (b & Hb). apply (Keep b Hb).
      * exfalso. pose proof (ww_obj _ W0 x (AInh q) (we_inh _ _ E3 _ _ Hx)) as Hlt. cbn in Hlt. lia.
    + rewrite Hoth in Hx' by exact N'. destruct (ww_shared _ W3 x x' o' Nxx Hx Hx') as (b & Hb). apply (Keep b Hb).
Qed.

Lemma patch_ok rank ga : ga_ok rank ga -> forall w c o w1 p,
  wwf w -> hier_ok w rank -> attr_of w c = Some (AInh o) ->
  patch_with ga w c o = Some (w1, p) ->
  wwf w1 /\ wext w w1 /\ frame w w1 /\ p < nobjs (w_heap w1) /\
  (forall d, d <> c -> above rank w (tl (M w c)) d -> attr_of w1 d = attr_of w d) /\
  attr_of w1 c = Some (AFunc p) /\
  (forall y a, y <> c -> attr_of w1 y = Some a -> obj_of a = p -> exists a0, attr_of w y = Some a0 /\ obj_of a0 = p).
Proof.
  intros G w c o w1 p W H0 Hc. unfold patch_with. fold (M w c).
  set (bases := tl (M w c)).
  assert (Habc : above rank w bases c) by (intros x Hx y Hy; eapply (ho_rank _ _ H0); eassumption).
  destruct (any_is ga w bases o) as [[w2 inh]|] eqn:Ea; [|discriminate].
  destruct (any_is_ok rank ga G bases w w o w2 inh W H0 (rel_refl _ W) Ea) as (R2 & Hunt2 & Hinh).
  pose proof R2 as (W2 & E2 & F2).
  assert (Hc2 : attr_of w2 c = Some (AInh o)) by (rewrite (Hunt2 c Habc); exact Hc).
  assert (Ho2 : o < nobjs (w_heap w2)) by (apply (ww_obj _ W2 c (AInh o) Hc2)).
  set (start := match (if inh then own_wrapper (w_heap w2) o else None) with Some r => _ | None => (w2, o) end).
  assert (S : rel w (fst start) /\ (forall d, attr_of (fst start) d = attr_of w2 d) /\ snd start < nobjs (w_heap (fst start)) /\
              (forall t, own_wrapper (w_heap (fst start)) (snd start) = Some t -> t < nregs (w_heap w) -> Mut w t) /\
              (snd start = o \/ nobjs (w_heap w) <= snd start) /\
              (snd start = o \/ forall y a, attr_of (fst start) y = Some a -> obj_of a <> snd start)).
  { unfold start. destruct inh.
    - destruct (own_wrapper (w_heap w2) o) as [ro|] eqn:Eo.
      + (* a private copy of the registry *)
        pose proof Eo as Eo'. apply own_wrapper_spec in Eo'. destruct Eo' as [Eat _].
        pose proof (hw_attr _ (ww_heap _ W2) _ _ Eat) as Hro.
        destruct (hw_reg _ (ww_heap _ W2) ro Hro) as [_ Hfun].
        pose proof (hw_func _ (ww_heap _ W2) ro Hro) as Hnone.
        destruct (wrap_reg_frame (w_heap w2) ro (r_func (get_reg (w_heap w2) ro)) (ww_heap _ W2) Hfun) as (Hx & Hw & Hq & tt & Hown & Htl & Hcase & Hfr).
        destruct Hcase as [[A _]|[_ [B C]]]; [congruence|].
        cbn [fst snd].
        assert (Hge : nregs (w_heap w) <= tt) by (rewrite B; apply (he_regs _ _ (we_heap _ _ E2))).
        split; [eapply with_heap_rel; try eassumption; intros; lia|].
        split; [intros d; apply attr_of_with_heap|]. split; [exact Hq|]. split.
        * cbn [w_heap with_heap]. intros t Ht. rewrite Hown in Ht. inversion Ht; subst. lia.
        * split; [right; rewrite C; apply (he_objs _ _ (we_heap _ _ E2))|].
          right. intros y a. rewrite attr_of_with_heap. intros Ha. rewrite C. pose proof (ww_obj _ W2 y a Ha). lia.
      + cbn [fst snd]. split; [exact R2|]. split; [reflexivity|]. split; [exact Ho2|]. split; [intros t Ht; congruence|split; left; reflexivity].
    - cbn [fst snd]. split; [exact R2|]. split; [reflexivity|]. split; [exact Ho2|]. split; [|split; left; reflexivity].
      intros t Ht Hlt. exists c, o. split; [exact Hc|]. split.
      + rewrite <- Ht. symmetry. apply own_wrapper_stable; [apply W|apply E2|apply (ww_obj _ W c (AInh o) Hc)].
      + intros c' Hc'. assert (true = false); [|discriminate]. symmetry. apply Hinh.
        assert (Nc : c <> c') by (intros ->; congruence).
        destruct (ww_shared _ W c c' o Nc Hc (or_introl Hc')) as (b & Hb1 & Hb2). exists b. split; assumption. }
  destruct S as (Rs & Hats & Hps & Htgts & Hpos & Huns).
  destruct (merge_bases ga (fst start) bases o (snd start)) as [[w3 q]|] eqn:Em; [|discriminate].
  destruct (merge_ok rank ga G bases w (fst start) o (snd start) w3 q W H0 Rs Hps Htgts Hpos Huns Em) as (R3 & Hunt3 & Hq3 & Hqo & Hunq).
  assert (Hc3 : attr_of w3 c = Some (AInh o)) by (rewrite (Hunt3 c Habc), Hats; exact Hc2).
  intros H; inversion H; subst w1 p. clear H.
  destruct (set_attr_final w w3 c o q W R3 Hc3 Hq3 Hqo) as (Wf & Ef & Ff & Hoth & Hsame).
  split; [exact Wf|split; [exact Ef|split; [exact Ff|split; [exact Hq3|split; [|split; [exact Hsame|]]]]]].
  - intros d N Hab. rewrite (Hoth d N), (Hunt3 d Hab), Hats. apply Hunt2. exact Hab.
  - intros y a N Ha Eo. destruct Hunq as [->|Hunq].
    + destruct (we_attr_obj _ _ Ef y a Ha) as [(a0 & Ha0 & Eo0)|Hge]; [exists a0; split; [exact Ha0|congruence]|].
      exfalso. pose proof (ww_obj _ W c (AInh o) Hc) as Hlt. cbn [obj_of] in Hlt. lia.
    + exfalso. rewrite (Hoth y N) in Ha. exact (Hunq y a Ha Eo).
Qed.

(* ---------- getattr with lazy patching ---------- *)
Theorem getattr_ok rank fuel : ga_ok rank (getattr_n fuel).
Proof.
  induction fuel as [|n IH]; intros w cls w1 res W H0; cbn; [discriminate|]. fold (M w cls).
  destruct (first_def w (M w cls)) as [[d [o|o]]|] eqn:Ef.
  - (* a plain function *)
    intros H; inversion H; subst. destruct (first_def_sound _ _ _ _ Ef) as [Ha Hin].
    split; [exact W|split; [apply wext_refl|split; [intros r _ _; reflexivity|split; [|split; [|split; [reflexivity|]]]]]].
    + intros x Hx; inversion Hx; subst. apply (ww_obj _ W d (AFunc x) Ha).
    + intros x Hx. destruct (ho_head _ _ H0 cls (attr_in_names _ _ _ Hx)) as [t Ht]. rewrite Ht in Ef. rewrite (first_def_head _ _ _ _ Hx) in Ef. congruence.
    + intros x Hx; inversion Hx; subst x. exists d. split; [exact Hin|split; [exact Ha|]]. intros y a _ Hy Eo. exists a. auto.
  - (* an Inherit object: patch its class first *)
    destruct (first_def_sound _ _ _ _ Ef) as [Ha Hin].
    destruct (patch_with (getattr_n n) w d o) as [[w2 p]|] eqn:Ep; [|discriminate].
    intros H; inversion H; subst w1 res. clear H.
    destruct (patch_ok rank (getattr_n n) IH w d o w2 p W H0 Ha Ep) as (W2 & E2 & F2 & Hp & Hunt & Hsame & Hhold).
    split; [exact W2|split; [exact E2|split; [exact F2|split; [|split; [|split]]]]].
    + intros x Hx; inversion Hx; subst; exact Hp.
    + intros x Hx. destruct (ho_head _ _ H0 cls (attr_in_names _ _ _ Hx)) as [t Ht]. rewrite Ht in Ef. rewrite (first_def_head _ _ _ _ Hx) in Ef. congruence.
    + intros e He. apply Hunt.
      * intros ->. specialize (He d Hin). lia.
      * intros x Hx y Hy. pose proof (ho_rank _ _ H0 d x y Hx Hy). specialize (He d Hin). lia.
    + intros x Hx; inversion Hx; subst x. exists d. split; [exact Hin|split; [exact Hsame|]]. intros y a N Hy Eo. eapply Hhold; eassumption.
  - intros H; inversion H; subst.
    split; [exact W|split; [apply wext_refl|split; [intros r _ _; reflexivity|split; [discriminate|split; [|split; [reflexivity|discriminate]]]]]].
    intros x Hx. destruct (ho_head _ _ H0 cls (attr_in_names _ _ _ Hx)) as [t Ht]. rewrite Ht in Ef. rewrite (first_def_head _ _ _ _ Hx) in Ef. discriminate.
Qed.

(* ---------- the statements of Props/C11.v ---------- *)
(* the registry of a method that is NOT marked inherit is never changed by any look-up, on any class, with any fuel *)
Theorem plain_method_registry_unchanged rank fuel w cls w1 res c o r :
  wwf w -> hier_ok w rank -> attr_of w c = Some (AFunc o) -> own_wrapper (w_heap w) o = Some r ->
  getattr_n fuel w cls = Some (w1, res) ->
  get_reg (w_heap w1) r = get_reg (w_heap w) r /\ attr_of w1 c = Some (AFunc o).
Proof.
  intros W H0 Ha Ho Hg. destruct (getattr_ok rank fuel w cls w1 res W H0 Hg) as (W1 & E1 & F1 & _).
  split; [|apply (we_func _ _ E1); exact Ha]. apply F1.
  - apply own_wrapper_spec in Ho. destruct Ho as [Hat _]. eapply hw_attr; [apply W|exact Hat].
  - intros (c' & o' & Ha' & Ho' & Hn). pose proof (own_wrapper_inj _ _ _ _ Ho Ho'). subst o'. apply (Hn c). exact Ha.
Qed.
(* more generally: only registries in Mut -- the own registry of an inherit-marked method that no class holds as a plain
   method -- and registries created by the look-up itself can differ afterwards; this includes the registries of plain functions
   outside any class *)
Theorem lookup_frame rank fuel w cls w1 res r :
  wwf w -> hier_ok w rank -> getattr_n fuel w cls = Some (w1, res) ->
  r < nregs (w_heap w) -> ~ Mut w r -> get_reg (w_heap w1) r = get_reg (w_heap w) r.
Proof. intros W H0 Hg. destruct (getattr_ok rank fuel w cls w1 res W H0 Hg) as (_ & _ & F1 & _). apply F1. Qed.
