(* Thm/C11/HeapPatchers.v -- on the heap-level inherit model (Sem/InheritHeap.v): no operation of the model -- decorating,
   class statements, the class decorator, attribute look-up with lazy patching, Contracts.wrap -- ever changes the marker set
   of a patcher object that already exists. (The defect repaired by a463e5d: wrap extended the target's patcher in place or
   shared the source's patcher object.) *)
From Coq Require Import List Bool String Arith Lia.
Import ListNotations.
Require Import Base Mro Interp ObjModel InheritHeap.

Definition pm_ext (h h' : heap) : Prop := forall p m, nlookup p (h_pmarkers h) = Some m -> nlookup p (h_pmarkers h') = Some m.
Lemma pm_ext_refl h : pm_ext h h. Proof. intros p m H; exact H. Qed.
Lemma pm_ext_trans a b c : pm_ext a b -> pm_ext b c -> pm_ext a c. Proof. intros H1 H2 p m H; auto. Qed.
Lemma pm_ext_same h h' : h_pmarkers h' = h_pmarkers h -> pm_ext h h'. Proof. intros E p m H; rewrite E; exact H. Qed.

Lemma nlookup_nupd_ne {X} (l : list (nat * X)) n k (v : X) : k <> n -> nlookup k (nupd l n v) = nlookup k l.
Proof.
  intros Hne. induction l as [|[a x] t IH]; cbn.
  - destruct (Nat.eqb_spec n k); [congruence|reflexivity].
  - destruct (Nat.eqb_spec a n) as [E|E]; cbn.
    + subst a. destruct (Nat.eqb_spec n k); [congruence|reflexivity].
    + destruct (Nat.eqb_spec a k); [reflexivity|exact IH].
Qed.
Lemma nlookup_in {X} (l : list (nat * X)) k (v : X) : nlookup k l = Some v -> In k (map fst l).
Proof.
  induction l as [|[a x] t IH]; cbn; [discriminate|].
  destruct (Nat.eqb_spec a k); intros H; [left; assumption|right; auto].
Qed.
Lemma list_max_ge l x : In x l -> x <= list_max l.
Proof.
  induction l as [|a t IH]; [intros []|]. intros [E|H]; change (list_max (a :: t)) with (Nat.max a (list_max t)).
  - subst. apply Nat.le_max_l.
  - etransitivity; [exact (IH H)|apply Nat.le_max_r].
Qed.
Lemma fresh_not_bound h p m : nlookup p (h_pmarkers h) = Some m -> p <> fresh_p h.
Proof. intros H. apply nlookup_in in H. apply list_max_ge in H. unfold fresh_p. lia. Qed.

Lemma new_patcher_ext h m : pm_ext h (fst (new_patcher h m)).
Proof.
  intros p x H. unfold new_patcher, set_pmarkers. cbn. rewrite nlookup_nupd_ne; [exact H|]. eapply fresh_not_bound; eassumption.
Qed.
Lemma ensure_wrapped_pm h f : h_pmarkers (fst (ensure_wrapped h f)) = h_pmarkers h.
Proof.
  unfold ensure_wrapped. destruct (o_attr (get_obj h f)) as [r|]; [destruct (Nat.eqb _ _)|]; reflexivity.
Qed.
Lemma wrap_reg_ext h src func : pm_ext h (fst (wrap_reg h src func)).
Proof.
  unfold wrap_reg. cbn [fst].
  set (h1 := fst (ensure_wrapped h func)). set (r := snd (ensure_wrapped h func)).
  set (h2 := upd_reg h1 r _).
  assert (E2 : pm_ext h h2) by (apply pm_ext_same; unfold h2, upd_reg; cbn; apply ensure_wrapped_pm).
  destruct (r_patcher (get_reg h2 src)) as [ps|]; [|exact E2].
  eapply pm_ext_trans; [exact E2|].
  eapply pm_ext_trans; [apply new_patcher_ext|]. apply pm_ext_same. reflexivity.
Qed.
Lemma attach_pm k v h f : h_pmarkers (fst (attach k v h f)) = h_pmarkers h.
Proof. unfold attach. destruct (ensure_wrapped h f) as [h1 r] eqn:E. cbn. change h1 with (fst (h1, r)). rewrite <- E. apply ensure_wrapped_pm. Qed.
Lemma attach_has_pm p h f : h_pmarkers (fst (attach_has p h f)) = h_pmarkers h.
Proof. unfold attach_has. destruct (ensure_wrapped h f) as [h1 r] eqn:E. cbn. change h1 with (fst (h1, r)). rewrite <- E. apply ensure_wrapped_pm. Qed.
Lemma apply_step_pm hf s : h_pmarkers (fst (apply_step hf s)) = h_pmarkers (fst hf).
Proof. destruct s; cbn; [apply attach_pm|apply attach_has_pm|reflexivity|reflexivity]. Qed.
Lemma apply_steps_pm l : forall h f, h_pmarkers (fst (apply_steps h f l)) = h_pmarkers h.
Proof.
  unfold apply_steps. induction l as [|s t IH]; intros h f; cbn; [reflexivity|].
  destruct (apply_step (h, f) s) as [h1 f1] eqn:E. rewrite IH. change h1 with (fst (h1, f1)). rewrite <- E. apply apply_step_pm.
Qed.

(* look-ups: a getter that only extends the patcher table *)
Definition ga_ext (ga : getter) : Prop := forall w c w1 r, ga w c = Some (w1, r) -> pm_ext (w_heap w) (w_heap w1).
Lemma any_is_ext ga : ga_ext ga -> forall bases w o w1 b, any_is ga w bases o = Some (w1, b) -> pm_ext (w_heap w) (w_heap w1).
Proof.
  intros G. induction bases as [|x t IH]; intros w o w1 b; cbn.
  - intros H; inversion H; subst; apply pm_ext_refl.
  - destruct (ga w x) as [[w2 [y|]]|] eqn:E; [|intros H|discriminate].
    + destruct (Nat.eqb y o); intros H.
      * inversion H; subst. eapply G; eassumption.
      * eapply pm_ext_trans; [eapply G; eassumption|eapply IH; eassumption].
    + eapply pm_ext_trans; [eapply G; eassumption|eapply IH; eassumption].
Qed.
Lemma merge_bases_ext ga : ga_ext ga -> forall bases w o p w1 q, merge_bases ga w bases o p = Some (w1, q) -> pm_ext (w_heap w) (w_heap w1).
Proof.
  intros G. induction bases as [|x t IH]; intros w o p w1 q; cbn.
  - intros H; inversion H; subst; apply pm_ext_refl.
  - destruct (ga w x) as [[w2 [y|]]|] eqn:E; [|intros H|discriminate].
    + assert (E2 : pm_ext (w_heap w) (w_heap w2)) by (eapply G; eassumption).
      destruct (Nat.eqb y o); [intros H; eapply pm_ext_trans; [exact E2|eapply IH; eassumption]|].
      destruct (o_attr (get_obj (w_heap w2) y)) as [r|]; intros H.
      * eapply pm_ext_trans; [exact E2|]. eapply pm_ext_trans; [apply (wrap_reg_ext (w_heap w2) r p)|].
        apply IH in H. exact H.
      * eapply pm_ext_trans; [exact E2|eapply IH; eassumption].
    + eapply pm_ext_trans; [eapply G; eassumption|eapply IH; eassumption].
Qed.
Lemma patch_with_ext ga : ga_ext ga -> forall w c o w1 p, patch_with ga w c o = Some (w1, p) -> pm_ext (w_heap w) (w_heap w1).
Proof.
  intros G w c o w1 p. unfold patch_with.
  destruct (any_is ga w (tl (mro_of (hier w) c)) o) as [[w2 inh]|] eqn:E; [|discriminate].
  assert (E2 : pm_ext (w_heap w) (w_heap w2)) by (eapply any_is_ext; eassumption).
  set (start := match (if inh then own_wrapper (w_heap w2) o else None) with Some r => _ | None => (w2, o) end).
  assert (E3 : pm_ext (w_heap w2) (w_heap (fst start))).
  { unfold start. destruct (if inh then own_wrapper (w_heap w2) o else None) as [r|]; cbn; [apply wrap_reg_ext|apply pm_ext_refl]. }
  destruct (merge_bases ga (fst start) _ o (snd start)) as [[w3 q]|] eqn:E4; [|discriminate].
  intros H; inversion H; subst. cbn.
  eapply pm_ext_trans; [exact E2|]. eapply pm_ext_trans; [exact E3|]. eapply merge_bases_ext; eassumption.
Qed.
Lemma getattr_ext fuel : ga_ext (getattr_n fuel).
Proof.
  induction fuel as [|n IH]; intros w c w1 r; cbn; [discriminate|].
  destruct (first_def w (mro_of (hier w) c)) as [[d [o|o]]|].
  - intros H; inversion H; subst; apply pm_ext_refl.
  - destruct (patch_with (getattr_n n) w d o) as [[w2 p]|] eqn:E; [|discriminate].
    intros H; inversion H; subst. eapply patch_with_ext; eassumption.
  - intros H; inversion H; subst; apply pm_ext_refl.
Qed.

Lemma class_inherit_ext fuel w c w1 : class_inherit fuel w c = Some w1 -> pm_ext (w_heap w) (w_heap w1).
Proof.
  unfold class_inherit. destruct (getattr_n fuel w c) as [[w2 [o|]]|] eqn:E; [| |discriminate]; intros H; inversion H; subst; cbn;
    eapply getattr_ext; eassumption.
Qed.
Lemma define_class_ext fuel w c w1 : define_class fuel w c = Some w1 -> pm_ext (w_heap w) (w_heap w1).
Proof.
  unfold define_class.
  set (hm := match cs_method c with None => _ | Some m => _ end).
  assert (Ehm : h_pmarkers (fst hm) = h_pmarkers (w_heap w)).
  { unfold hm. destruct (cs_method c) as [m|]; cbn; [|reflexivity]. rewrite apply_steps_pm. reflexivity. }
  destruct (cs_inherit c); intros H.
  - apply class_inherit_ext in H. cbn in H. eapply pm_ext_trans; [apply pm_ext_same; exact Ehm|exact H].
  - inversion H; subst; cbn. apply pm_ext_same; exact Ehm.
Qed.
Lemma define_all_ext fuel l : forall w w1, define_all fuel w l = Some w1 -> pm_ext (w_heap w) (w_heap w1).
Proof.
  induction l as [|c t IH]; intros w w1; cbn.
  - intros H; inversion H; subst; apply pm_ext_refl.
  - destruct (define_class fuel w c) as [w2|] eqn:E; [|discriminate]. intros H.
    eapply pm_ext_trans; [eapply define_class_ext; eassumption|eapply IH; eassumption].
Qed.

(* the statement in terms of what a has() contract admits *)
Theorem patcher_markers_never_change fuel w cls w1 r p m :
  nlookup p (h_pmarkers (w_heap w)) = Some m -> getattr_n fuel w cls = Some (w1, r) -> markers_of (w_heap w1) p = m.
Proof. intros Hp Hg. unfold markers_of. rewrite (getattr_ext fuel _ _ _ _ Hg p m Hp). reflexivity. Qed.
Theorem patcher_markers_survive_definitions fuel patchers l w p m :
  nlookup p patchers = Some m -> define_all fuel (world0 patchers) l = Some w -> markers_of (w_heap w) p = m.
Proof. intros Hp Hd. unfold markers_of. rewrite (define_all_ext fuel l _ _ Hd p m Hp). reflexivity. Qed.
