(* Thm/C11/HeapClosed.v -- closing the hypotheses: for every list of class statements with distinct names (none called "object")
   whose bases are classes defined earlier, the world it builds satisfies wwf and hier_ok; so the frame theorems hold for it
   outright. *)
From Coq Require Import List Bool String Arith Lia.
Import ListNotations.
Require Import Base Mro Interp ObjModel InheritHeap HeapFrame HeapBuild MroFacts HeapCheck.
Open Scope string_scope.

Record good_specs (specs : list cspec) : Prop := {
  gs_nodup : NoDup (map cs_name specs);
  gs_object : ~ In "object" (map cs_name specs);
  gs_bases : forall l1 c l2, specs = (l1 ++ c :: l2)%list -> forall b, In b (cs_bases c) -> In b (map cs_name l1) }.

(* ---- positions ---- *)
Lemma index_of_notin c l : ~ In c l -> index_of c l = 0.
Proof.
  induction l as [|x t IH]; cbn; [reflexivity|]. intros H. destruct (String.eqb_spec x c) as [->|N]; [exfalso; apply H; left; reflexivity|].
  rewrite IH; [reflexivity|intros Hin; apply H; right; exact Hin].
Qed.
Lemma index_of_in c l : In c l -> 1 <= index_of c l <= List.length l.
Proof.
  induction l as [|x t IH]; cbn; [intros []|]. destruct (String.eqb_spec x c) as [->|N]; [lia|].
  intros [E|H]; [contradiction|]. specialize (IH H). destruct (index_of c t); lia.
Qed.
Lemma index_of_app_l c l1 l2 : In c l1 -> index_of c (l1 ++ l2) = index_of c l1.
Proof.
  induction l1 as [|x t IH]; cbn; [intros []|]. destruct (String.eqb_spec x c) as [->|N]; [reflexivity|].
  intros [E|H]; [contradiction|]. rewrite IH by exact H. reflexivity.
Qed.
Lemma index_of_app_r c l1 l2 : ~ In c l1 -> index_of c (l1 ++ c :: l2) = S (List.length l1).
Proof.
  induction l1 as [|x t IH]; cbn.
  - rewrite String.eqb_refl. reflexivity.
  - intros H. destruct (String.eqb_spec x c) as [->|N]; [exfalso; apply H; left; reflexivity|].
    rewrite IH by (intros Hin; apply H; right; exact Hin). reflexivity.
Qed.

Lemma map_spec_fst l : map fst (map spec_h l) = map cs_name l.
Proof. rewrite map_map. reflexivity. Qed.

Lemma good_ordered specs : good_specs specs -> ordered (map spec_h specs) (spec_rank specs).
Proof.
  intros [Hnd Hobj Hb] l1 n bs l2 E.
  apply map_eq_app in E. destruct E as (s1 & s2' & Es & E1 & E2). apply map_eq_cons in E2. destruct E2 as (c & s2 & Es2 & Ec & E2).
  subst s2' l1 l2 specs. inversion Ec; subst n bs. clear Ec.
  rewrite map_spec_fst. unfold spec_rank. rewrite map_app in *. cbn [map] in *.
  assert (Hc : ~ In (cs_name c) (map cs_name s1)) by (apply NoDup_remove_2 in Hnd; intros H; apply Hnd; apply in_or_app; left; exact H).
  rewrite (index_of_app_r _ _ _ Hc). split; [|split].
  - intros x Hx. rewrite index_of_app_l by exact Hx. pose proof (index_of_in _ _ Hx). lia.
  - rewrite index_of_notin by exact Hobj. lia.
  - intros b Hbin. eapply Hb; [reflexivity|exact Hbin].
Qed.

Lemma ordered_prefix p s rank : ordered (p ++ s) rank -> ordered p rank.
Proof. intros H l1 n bs l2 E. apply (H l1 n bs (l2 ++ s)%list). rewrite E, <- app_assoc. reflexivity. Qed.
Lemma hier_ok_h_ordered hl rank : ordered hl rank -> hier_ok_h hl rank.
Proof. intros H. split; [intros c _; eapply mro_head; exact H|intros c b d; apply mro_rank; exact H]. Qed.

Lemma prefixes_ok_ordered rank specs : forall hl0,
  ordered (hl0 ++ map spec_h specs) rank -> NoDup (map fst (hl0 ++ map spec_h specs)) -> prefixes_ok hl0 specs rank.
Proof.
  induction specs as [|c rest IH]; intros hl0 Hord Hnd; cbn [prefixes_ok]; [exact I|].
  cbn [map] in Hord, Hnd.
  assert (Eq : (hl0 ++ spec_h c :: map spec_h rest)%list = ((hl0 ++ [spec_h c]) ++ map spec_h rest)%list) by (rewrite <- app_assoc; reflexivity).
  split; [|split; [|split]].
  - apply hier_ok_h_ordered. rewrite Eq in Hord. eapply ordered_prefix. exact Hord.
  - destruct (Hord hl0 (cs_name c) (cs_bases c) (map spec_h rest) eq_refl) as (A & _). exact A.
  - rewrite map_app in Hnd. cbn [map fst spec_h] in Hnd. apply NoDup_remove_2 in Hnd. intros H. apply Hnd. apply in_or_app. left. exact H.
  - apply IH; rewrite <- Eq; assumption.
Qed.

Theorem good_prefixes_ok specs : good_specs specs -> prefixes_ok [] specs (spec_rank specs).
Proof.
  intros G. apply prefixes_ok_ordered; cbn [app].
  - apply good_ordered. exact G.
  - rewrite map_spec_fst. exact (gs_nodup _ G).
Qed.

(* the world built by any good list of class statements meets both hypotheses of the frame theorems *)
Theorem good_world fuel patchers specs w :
  good_specs specs -> define_all fuel (world0 patchers) specs = Some w -> wwf w /\ hier_ok w (spec_rank specs).
Proof.
  intros G Hd. pose proof (good_prefixes_ok specs G) as Hp. split.
  - eapply built_world_wwf; eassumption.
  - apply hier_ok_of_h. rewrite (built_world_hier _ _ _ _ _ Hp Hd). apply hier_ok_h_ordered. apply good_ordered. exact G.
Qed.

(* ... and so, with no hypothesis left about the world: *)
Theorem good_plain_method_registry_unchanged fuel0 fuel patchers specs w cls w1 res c o r :
  good_specs specs -> define_all fuel0 (world0 patchers) specs = Some w ->
  attr_of w c = Some (AFunc o) -> own_wrapper (w_heap w) o = Some r ->
  getattr_n fuel w cls = Some (w1, res) ->
  get_reg (w_heap w1) r = get_reg (w_heap w) r /\ attr_of w1 c = Some (AFunc o).
Proof.
  intros G Hd. destruct (good_world fuel0 patchers specs w G Hd) as [W H0]. apply (plain_method_registry_unchanged (spec_rank specs)); assumption.
Qed.
Theorem good_lookup_frame fuel0 fuel patchers specs w cls w1 res r :
  good_specs specs -> define_all fuel0 (world0 patchers) specs = Some w ->
  getattr_n fuel w cls = Some (w1, res) -> r < nregs (w_heap w) -> ~ Mut w r -> get_reg (w_heap w1) r = get_reg (w_heap w) r.
Proof.
  intros G Hd. destruct (good_world fuel0 patchers specs w G Hd) as [W H0]. apply (lookup_frame (spec_rank specs)); assumption.
Qed.

(* ---- good_specs is decidable ---- *)
Fixpoint nodup_b (l : list string) : bool := match l with [] => true | x :: t => negb (existsb (String.eqb x) t) && nodup_b t end.
Lemma nodup_b_sound l : nodup_b l = true -> NoDup l.
Proof.
  induction l as [|x t IH]; cbn; [constructor|]. intros H. apply andb_prop in H. destruct H as [A B]. constructor; [|apply IH; exact B].
  intros Hin. apply negb_true_iff in A. assert (existsb (String.eqb x) t = true); [|congruence].
  apply existsb_exists. exists x. split; [exact Hin|apply String.eqb_refl].
Qed.
Fixpoint bases_earlier_b (seen : list string) (specs : list cspec) : bool :=
  match specs with
  | [] => true
  | c :: rest => forallb (fun b => existsb (String.eqb b) seen) (cs_bases c) && bases_earlier_b (seen ++ [cs_name c]) rest
  end.
Lemma bases_earlier_b_sound specs : forall seen, bases_earlier_b seen specs = true ->
  forall l1 c l2, specs = (l1 ++ c :: l2)%list -> forall b, In b (cs_bases c) -> In b (seen ++ map cs_name l1).
Proof.
  induction specs as [|c0 rest IH]; intros seen H l1 c l2 E b Hb; [destruct l1; discriminate|].
  cbn in H. apply andb_prop in H. destruct H as [A B]. destruct l1 as [|x l1]; cbn in E; inversion E; subst.
  - cbn [map]. rewrite app_nil_r. rewrite forallb_forall in A. specialize (A b Hb). apply existsb_exists in A.
    destruct A as (y & Hy & Ey). apply String.eqb_eq in Ey. subst y. exact Hy.
  - specialize (IH (seen ++ [cs_name x])%list B l1 c l2 eq_refl b Hb). cbn [map]. rewrite <- app_assoc in IH. exact IH.
Qed.
Definition good_specs_b (specs : list cspec) : bool :=
  nodup_b (map cs_name specs) && negb (existsb (String.eqb "object") (map cs_name specs)) && bases_earlier_b [] specs.
Theorem good_specs_b_sound specs : good_specs_b specs = true -> good_specs specs.
Proof.
  unfold good_specs_b. intros H. apply andb_prop in H. destruct H as [H C]. apply andb_prop in H. destruct H as [A B]. constructor.
  - apply nodup_b_sound. exact A.
  - intros Hin. apply negb_true_iff in B. assert (existsb (String.eqb "object") (map cs_name specs) = true); [|congruence].
    apply existsb_exists. exists "object". split; [exact Hin|reflexivity].
  - intros l1 c l2 E b Hb. apply (bases_earlier_b_sound specs [] C l1 c l2 E b Hb).
Qed.

(* used by the C11 family on every generated scenario: is the class list in the domain of the closed theorems (good_specs_b), and --
   redundantly, as a cross-check of those theorems by computation -- do prefixes_ok_b and wwf_b / hier_ok_b hold on every world on the way *)
Definition run_case_wf (patchers : list (nat * list string)) (classes : list cspec) : bool :=
  good_specs_b classes && prefixes_ok_b [] classes (spec_rank classes) && forallb checked (all_worlds 40 (world0 patchers) classes).
