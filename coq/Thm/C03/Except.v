(* Thm/C03/Except.v -- the except-block of the generated wrappers classifies every exception escaping the body.
   For every registry (raises / reasons with arbitrary validators), every exception object over any class table,
   arguments, world and fuel. *)
From Coq Require Import List ZArith Bool String.
Import ListNotations.
Require Import Base Prog Sig Interp InterpFacts StmtFacts Model Validators HasPatcher Contracts Loops PatchFacts.
Set Implicit Arguments.

Section Except.
  Variable ftab : fid -> option fdef.
  Notation I := (interp ftab).
  Notation run_vals := (run_vals ftab).

  (* the reason contracts registered for exactly the type of x *)
  Definition reasons_for (c : contracts) (x : exn) : list validator :=
    filter (fun v => cls_eqb (type_of x) (v_event v)) (c_reasons c).
  Definition unpatch_w (c : contracts) (w : world) : world :=
    match c_patcher c with Some p => on_st (unpatch_st p) w | None => w end.

  Lemma same_exn_refl x : same_exn x x = true.
  Proof. unfold same_exn. apply Nat.eqb_refl. Qed.
  Lemma chain_ctx_self x : chain_ctx x x = x.
  Proof. unfold chain_ctx. rewrite same_exn_refl. reflexivity. Qed.

  Section Sync.
    Import RunSync.
    Variables (lf : nat) (c : contracts).

    Lemma fin4 n e w :
      I n (s_if (R:=value) (fun _ : env => Ret (is_some (c_patcher c))) (s_do (fun _ => with_patcher (c_patcher c) Unpatch.run)) s_skip e) w
      = Done (inl (CNormal, e)) (unpatch_w c w).
    Proof.
      erewrite if_done by apply interp_ret. unfold unpatch_w, with_patcher.
      destruct (c_patcher c) as [p|]; cbn [is_some].
      - apply do_done. apply unpatch_interp.
      - apply interp_ret.
    Qed.

    (* statement 4 = try-block + finaliser; once the try-block is known to end in exception z in world w2: *)
    Ltac finish4 := cbn beta iota;
      erewrite interp_bind_done by (erewrite interp_in_handler_done by apply fin4; reflexivity);
      apply interp_raise.

    Section Raised.
      Variables (n : nat) (e : env) (w : world) (x : exn) (w1 : world).
      Hypothesis Hbody : I n (call_func (c_func c) (l_args e) (l_kwargs e)) w = Done (inr x) w1.

      (* (a) a contract violation coming from a nested contract propagates untouched *)
      Theorem contract_error_untouched :
        isinstance x "ContractError" = true ->
        I n (stmt4 lf c e) w = Done (inr x) (unpatch_w c w1).
      Proof.
        intro Hc. unfold stmt4. eapply eq_trans; [eapply finally_done; unfold s_try|].
        1:{
        erewrite interp_try_except_raise by (apply assign_raise; exact Hbody).
        cbn [pick]. unfold H_ContractError at 1. rewrite Hc.
        erewrite interp_in_handler_done by apply interp_raise. cbn beta iota. rewrite chain_ctx_self. reflexivity.
        }
        finish4.
      Qed.

      (* (b) a BaseException that is not an Exception propagates untouched: no clause matches *)
      Theorem base_exception_untouched :
        isinstance x "ContractError" = false -> isinstance x "Exception" = false ->
        I n (stmt4 lf c e) w = Done (inr x) (unpatch_w c w1).
      Proof.
        intros Hc He. unfold stmt4. eapply eq_trans; [eapply finally_done; unfold s_try|].
        1:{
        erewrite interp_try_except_raise by (apply assign_raise; exact Hbody).
        cbn [pick]. unfold H_ContractError at 1, H_Exception at 1. rewrite Hc, He. reflexivity.
        }
        finish4.
      Qed.

      Let e1 := set_exc x e.
      Let e2 := after_loop set_validator (c_raises c) e1.
      Let e3 := set_exc_type (type_of x) e2.

      Lemma e2_facts : l_args e2 = l_args e /\ l_kwargs e2 = l_kwargs e /\ l_exc e2 = x.
      Proof.
        unfold e2. repeat split.
        - rewrite (@after_loop_proj env set_validator _ l_args (fun _ _ => eq_refl)). reflexivity.
        - rewrite (@after_loop_proj env set_validator _ l_kwargs (fun _ _ => eq_refl)). reflexivity.
        - rewrite (@after_loop_proj env set_validator _ l_exc (fun _ _ => eq_refl)). reflexivity.
      Qed.

      (* (c) an Exception that is not admitted by the raises contracts is replaced by the raises-violation error y
             (built by the validator), chained to the original *)
      Theorem undeclared_replaced y w2 :
        isinstance x "ContractError" = false -> isinstance x "Exception" = true ->
        run_vals n (c_raises c) (l_args e) (l_kwargs e) (Some x) w1 = Done (inr y) w2 ->
        I n (stmt4 lf c e) w = Done (inr (chain_ctx x y)) (unpatch_w c w2).
      Proof.
        intros Hc He Hr. unfold stmt4. eapply eq_trans; [eapply finally_done; unfold s_try|].
        1:{
        erewrite interp_try_except_raise by (apply assign_raise; exact Hbody).
        cbn [pick]. unfold H_ContractError at 1, H_Exception at 1. rewrite Hc, He.
        erewrite interp_in_handler_done; [reflexivity|].
        apply seq_raise. unfold s_for.
        eapply loop_reject with (getv := l_validator) (geta := l_args) (getk := l_kwargs) (gete := fun e => Some (l_exc e)); try reflexivity.
        exact Hr.
        }
        finish4.
      Qed.

      (* (d) admitted by the raises contracts; the reason contracts registered for its type run next *)
      Theorem reason_violation y w2 w3 :
        isinstance x "ContractError" = false -> isinstance x "Exception" = true ->
        run_vals n (c_raises c) (l_args e) (l_kwargs e) (Some x) w1 = Done (inl tt) w2 ->
        run_vals n (reasons_for c x) (l_args e) (l_kwargs e) (Some x) w2 = Done (inr y) w3 ->
        I n (stmt4 lf c e) w = Done (inr (chain_ctx x y)) (unpatch_w c w3).
      Proof.
        intros Hc He Hr Hs. unfold stmt4. eapply eq_trans; [eapply finally_done; unfold s_try|].
        1:{
        erewrite interp_try_except_raise by (apply assign_raise; exact Hbody).
        cbn [pick]. unfold H_ContractError at 1, H_Exception at 1. rewrite Hc, He.
        erewrite interp_in_handler_done; [reflexivity|].
        destruct e2_facts as (Ha & Hk & Hx).
        erewrite seq_normal.
        2:{ unfold s_for. eapply loop_accept with (getv := l_validator) (geta := l_args) (getk := l_kwargs) (gete := fun e => Some (l_exc e)); try reflexivity. exact Hr. }
        fold e1. fold e2.
        erewrite seq_normal by (apply assign_done; apply interp_ret). rewrite Hx. fold e3.
        apply seq_raise. unfold s_for.
        eapply cond_loop_reject with (getv := l_validator) (geta := l_args) (getk := l_kwargs) (gete := fun e => Some (l_exc e))
                                     (sel := fun v e => cls_eqb (l_exc_type e) (v_event v)); try reflexivity.
        cbn [e3 l_args l_kwargs l_exc l_exc_type set_exc_type]. rewrite Ha, Hk, Hx. exact Hs.
        }
        finish4.
      Qed.

      (* (e) declared, and every reason contract registered for its type accepts: the very same object propagates *)
      Theorem declared_same_object w2 w3 :
        isinstance x "ContractError" = false -> isinstance x "Exception" = true ->
        run_vals n (c_raises c) (l_args e) (l_kwargs e) (Some x) w1 = Done (inl tt) w2 ->
        run_vals n (reasons_for c x) (l_args e) (l_kwargs e) (Some x) w2 = Done (inl tt) w3 ->
        I n (stmt4 lf c e) w = Done (inr x) (unpatch_w c w3).
      Proof.
        intros Hc He Hr Hs. unfold stmt4. eapply eq_trans; [eapply finally_done; unfold s_try|].
        1:{
        erewrite interp_try_except_raise by (apply assign_raise; exact Hbody).
        cbn [pick]. unfold H_ContractError at 1, H_Exception at 1. rewrite Hc, He.
        eapply eq_trans; [eapply interp_in_handler_done|].
        destruct e2_facts as (Ha & Hk & Hx).
        erewrite seq_normal.
        2:{ unfold s_for. eapply loop_accept with (getv := l_validator) (geta := l_args) (getk := l_kwargs) (gete := fun e => Some (l_exc e)); try reflexivity. exact Hr. }
        fold e1. fold e2.
        erewrite seq_normal by (apply assign_done; apply interp_ret). rewrite Hx. fold e3.
        erewrite seq_normal.
        2:{ unfold s_for.
            eapply cond_loop_accept with (getv := l_validator) (geta := l_args) (getk := l_kwargs) (gete := fun e => Some (l_exc e))
                                         (sel := fun v e => cls_eqb (l_exc_type e) (v_event v)); try reflexivity.
            cbn [e3 l_args l_kwargs l_exc l_exc_type set_exc_type]. rewrite Ha, Hk, Hx. exact Hs. }
        apply interp_raise.
        cbn beta iota. rewrite chain_ctx_self. reflexivity.
        }
        finish4.
      Qed.
    End Raised.
  End Sync.
  Section Async.
    Import RunAsync.
    Variables (lf : nat) (c : contracts).

    Lemma afin4 n e w :
      I n (s_if (R:=value) (fun _ : env => Ret (is_some (c_patcher c))) (s_do (fun _ => with_patcher (c_patcher c) Unpatch.run)) s_skip e) w
      = Done (inl (CNormal, e)) (unpatch_w c w).
    Proof.
      erewrite if_done by apply interp_ret. unfold unpatch_w, with_patcher.
      destruct (c_patcher c) as [p|]; cbn [is_some].
      - apply do_done. apply unpatch_interp.
      - apply interp_ret.
    Qed.

    (* statement 4 = try-block + finaliser; once the try-block is known to end in exception z in world w2: *)
    Ltac afinish4 := cbn beta iota;
      erewrite interp_bind_done by (erewrite interp_in_handler_done by apply afin4; reflexivity);
      apply interp_raise.

    Section ARaised.
      Variables (n : nat) (e : env) (w : world) (x : exn) (w1 : world).
      Hypothesis Hbody : I n (call_func (c_func c) (l_args e) (l_kwargs e)) w = Done (inr x) w1.

      (* (a) a contract violation coming from a nested contract propagates untouched *)
      Theorem async_contract_error_untouched :
        isinstance x "ContractError" = true ->
        I n (stmt4 lf c e) w = Done (inr x) (unpatch_w c w1).
      Proof.
        intro Hc. unfold stmt4. eapply eq_trans; [eapply finally_done; unfold s_try|].
        1:{
        erewrite interp_try_except_raise by (apply assign_raise; exact Hbody).
        cbn [pick]. unfold H_ContractError at 1. rewrite Hc.
        erewrite interp_in_handler_done by apply interp_raise. cbn beta iota. rewrite chain_ctx_self. reflexivity.
        }
        afinish4.
      Qed.

      (* (b) a BaseException that is not an Exception propagates untouched: no clause matches *)
      Theorem async_base_exception_untouched :
        isinstance x "ContractError" = false -> isinstance x "Exception" = false ->
        I n (stmt4 lf c e) w = Done (inr x) (unpatch_w c w1).
      Proof.
        intros Hc He. unfold stmt4. eapply eq_trans; [eapply finally_done; unfold s_try|].
        1:{
        erewrite interp_try_except_raise by (apply assign_raise; exact Hbody).
        cbn [pick]. unfold H_ContractError at 1, H_Exception at 1. rewrite Hc, He. reflexivity.
        }
        afinish4.
      Qed.

      Let e1 := set_exc x e.
      Let e2 := after_loop set_validator (c_raises c) e1.
      Let e3 := set_exc_type (type_of x) e2.

      Lemma async_e2_facts : l_args e2 = l_args e /\ l_kwargs e2 = l_kwargs e /\ l_exc e2 = x.
      Proof.
        unfold e2. repeat split.
        - rewrite (@after_loop_proj env set_validator _ l_args (fun _ _ => eq_refl)). reflexivity.
        - rewrite (@after_loop_proj env set_validator _ l_kwargs (fun _ _ => eq_refl)). reflexivity.
        - rewrite (@after_loop_proj env set_validator _ l_exc (fun _ _ => eq_refl)). reflexivity.
      Qed.

      (* (c) an Exception that is not admitted by the raises contracts is replaced by the raises-violation error y
             (built by the validator), chained to the original *)
      Theorem async_undeclared_replaced y w2 :
        isinstance x "ContractError" = false -> isinstance x "Exception" = true ->
        run_vals n (c_raises c) (l_args e) (l_kwargs e) (Some x) w1 = Done (inr y) w2 ->
        I n (stmt4 lf c e) w = Done (inr (chain_ctx x y)) (unpatch_w c w2).
      Proof.
        intros Hc He Hr. unfold stmt4. eapply eq_trans; [eapply finally_done; unfold s_try|].
        1:{
        erewrite interp_try_except_raise by (apply assign_raise; exact Hbody).
        cbn [pick]. unfold H_ContractError at 1, H_Exception at 1. rewrite Hc, He.
        erewrite interp_in_handler_done; [reflexivity|].
        apply seq_raise. unfold s_for.
        eapply loop_reject with (getv := l_validator) (geta := l_args) (getk := l_kwargs) (gete := fun e => Some (l_exc e)); try reflexivity.
        exact Hr.
        }
        afinish4.
      Qed.

      (* (d) admitted by the raises contracts; the reason contracts registered for its type run next *)
      Theorem async_reason_violation y w2 w3 :
        isinstance x "ContractError" = false -> isinstance x "Exception" = true ->
        run_vals n (c_raises c) (l_args e) (l_kwargs e) (Some x) w1 = Done (inl tt) w2 ->
        run_vals n (reasons_for c x) (l_args e) (l_kwargs e) (Some x) w2 = Done (inr y) w3 ->
        I n (stmt4 lf c e) w = Done (inr (chain_ctx x y)) (unpatch_w c w3).
      Proof.
        intros Hc He Hr Hs. unfold stmt4. eapply eq_trans; [eapply finally_done; unfold s_try|].
        1:{
        erewrite interp_try_except_raise by (apply assign_raise; exact Hbody).
        cbn [pick]. unfold H_ContractError at 1, H_Exception at 1. rewrite Hc, He.
        erewrite interp_in_handler_done; [reflexivity|].
        destruct async_e2_facts as (Ha & Hk & Hx).
        erewrite seq_normal.
        2:{ unfold s_for. eapply loop_accept with (getv := l_validator) (geta := l_args) (getk := l_kwargs) (gete := fun e => Some (l_exc e)); try reflexivity. exact Hr. }
        fold e1. fold e2.
        erewrite seq_normal by (apply assign_done; apply interp_ret). rewrite Hx. fold e3.
        apply seq_raise. unfold s_for.
        eapply cond_loop_reject with (getv := l_validator) (geta := l_args) (getk := l_kwargs) (gete := fun e => Some (l_exc e))
                                     (sel := fun v e => cls_eqb (l_exc_type e) (v_event v)); try reflexivity.
        cbn [e3 l_args l_kwargs l_exc l_exc_type set_exc_type]. rewrite Ha, Hk, Hx. exact Hs.
        }
        afinish4.
      Qed.

      (* (e) declared, and every reason contract registered for its type accepts: the very same object propagates *)
      Theorem async_declared_same_object w2 w3 :
        isinstance x "ContractError" = false -> isinstance x "Exception" = true ->
        run_vals n (c_raises c) (l_args e) (l_kwargs e) (Some x) w1 = Done (inl tt) w2 ->
        run_vals n (reasons_for c x) (l_args e) (l_kwargs e) (Some x) w2 = Done (inl tt) w3 ->
        I n (stmt4 lf c e) w = Done (inr x) (unpatch_w c w3).
      Proof.
        intros Hc He Hr Hs. unfold stmt4. eapply eq_trans; [eapply finally_done; unfold s_try|].
        1:{
        erewrite interp_try_except_raise by (apply assign_raise; exact Hbody).
        cbn [pick]. unfold H_ContractError at 1, H_Exception at 1. rewrite Hc, He.
        eapply eq_trans; [eapply interp_in_handler_done|].
        destruct async_e2_facts as (Ha & Hk & Hx).
        erewrite seq_normal.
        2:{ unfold s_for. eapply loop_accept with (getv := l_validator) (geta := l_args) (getk := l_kwargs) (gete := fun e => Some (l_exc e)); try reflexivity. exact Hr. }
        fold e1. fold e2.
        erewrite seq_normal by (apply assign_done; apply interp_ret). rewrite Hx. fold e3.
        erewrite seq_normal.
        2:{ unfold s_for.
            eapply cond_loop_accept with (getv := l_validator) (geta := l_args) (getk := l_kwargs) (gete := fun e => Some (l_exc e))
                                         (sel := fun v e => cls_eqb (l_exc_type e) (v_event v)); try reflexivity.
            cbn [e3 l_args l_kwargs l_exc l_exc_type set_exc_type]. rewrite Ha, Hk, Hx. exact Hs. }
        apply interp_raise.
        cbn beta iota. rewrite chain_ctx_self. reflexivity.
        }
        afinish4.
      Qed.
    End ARaised.
  End Async.
  Section Iter.
    Import RunIter.
    Variables (lf : nat) (c : contracts).

    Lemma ifin4 n e w :
      I n (s_if (R:=value) (fun _ : env => Ret (is_some (c_patcher c))) (s_do (fun _ => with_patcher (c_patcher c) Unpatch.run)) s_skip e) w
      = Done (inl (CNormal, e)) (unpatch_w c w).
    Proof.
      erewrite if_done by apply interp_ret. unfold unpatch_w, with_patcher.
      destruct (c_patcher c) as [p|]; cbn [is_some].
      - apply do_done. apply unpatch_interp.
      - apply interp_ret.
    Qed.

    (* statement 4 = try-block + finaliser; once the try-block is known to end in exception z in world w2: *)
    Ltac ifinish4 := cbn beta iota;
      erewrite interp_bind_done by (erewrite interp_in_handler_done by apply ifin4; reflexivity);
      apply interp_raise.

    Section IRaised.
      Variables (n : nat) (e : env) (w : world) (x : exn) (w1 : world).
      Hypothesis Hbody : I n (gen_next (l_generator e)) w = Done (inr x) w1.
      Hypothesis Hstop : isinstance x "StopIteration" = false.

      (* (a) a contract violation coming from a nested contract propagates untouched *)
      Theorem iter_contract_error_untouched :
        isinstance x "ContractError" = true ->
        I n (loop_stmt1 lf c e) w = Done (inr x) (unpatch_w c w1).
      Proof.
        intro Hc. unfold loop_stmt1. eapply eq_trans; [eapply finally_done; unfold s_try|].
        1:{
        erewrite interp_try_except_raise by (apply assign_raise; exact Hbody).
        cbn [pick]. unfold H_StopIteration at 1, H_ContractError at 1. rewrite Hstop, Hc.
        erewrite interp_in_handler_done by apply interp_raise. cbn beta iota. rewrite chain_ctx_self. reflexivity.
        }
        ifinish4.
      Qed.

      (* (b) a BaseException that is not an Exception propagates untouched: no clause matches *)
      Theorem iter_base_exception_untouched :
        isinstance x "ContractError" = false -> isinstance x "Exception" = false ->
        I n (loop_stmt1 lf c e) w = Done (inr x) (unpatch_w c w1).
      Proof.
        intros Hc He. unfold loop_stmt1. eapply eq_trans; [eapply finally_done; unfold s_try|].
        1:{
        erewrite interp_try_except_raise by (apply assign_raise; exact Hbody).
        cbn [pick]. unfold H_StopIteration at 1, H_ContractError at 1, H_Exception at 1. rewrite Hstop, Hc, He. reflexivity.
        }
        ifinish4.
      Qed.

      Let e1 := set_exc x e.
      Let e2 := after_loop set_validator (c_raises c) e1.
      Let e3 := set_exc_type (type_of x) e2.

      Lemma iter_e2_facts : l_args e2 = l_args e /\ l_kwargs e2 = l_kwargs e /\ l_exc e2 = x.
      Proof.
        unfold e2. repeat split.
        - rewrite (@after_loop_proj env set_validator _ l_args (fun _ _ => eq_refl)). reflexivity.
        - rewrite (@after_loop_proj env set_validator _ l_kwargs (fun _ _ => eq_refl)). reflexivity.
        - rewrite (@after_loop_proj env set_validator _ l_exc (fun _ _ => eq_refl)). reflexivity.
      Qed.

      (* (c) an Exception that is not admitted by the raises contracts is replaced by the raises-violation error y
             (built by the validator), chained to the original *)
      Theorem iter_undeclared_replaced y w2 :
        isinstance x "ContractError" = false -> isinstance x "Exception" = true ->
        run_vals n (c_raises c) (l_args e) (l_kwargs e) (Some x) w1 = Done (inr y) w2 ->
        I n (loop_stmt1 lf c e) w = Done (inr (chain_ctx x y)) (unpatch_w c w2).
      Proof.
        intros Hc He Hr. unfold loop_stmt1. eapply eq_trans; [eapply finally_done; unfold s_try|].
        1:{
        erewrite interp_try_except_raise by (apply assign_raise; exact Hbody).
        cbn [pick]. unfold H_StopIteration at 1, H_ContractError at 1, H_Exception at 1. rewrite Hstop, Hc, He.
        erewrite interp_in_handler_done; [reflexivity|].
        apply seq_raise. unfold s_for.
        eapply loop_reject with (getv := l_validator) (geta := l_args) (getk := l_kwargs) (gete := fun e => Some (l_exc e)); try reflexivity.
        exact Hr.
        }
        ifinish4.
      Qed.

      (* (d) admitted by the raises contracts; the reason contracts registered for its type run next *)
      Theorem iter_reason_violation y w2 w3 :
        isinstance x "ContractError" = false -> isinstance x "Exception" = true ->
        run_vals n (c_raises c) (l_args e) (l_kwargs e) (Some x) w1 = Done (inl tt) w2 ->
        run_vals n (reasons_for c x) (l_args e) (l_kwargs e) (Some x) w2 = Done (inr y) w3 ->
        I n (loop_stmt1 lf c e) w = Done (inr (chain_ctx x y)) (unpatch_w c w3).
      Proof.
        intros Hc He Hr Hs. unfold loop_stmt1. eapply eq_trans; [eapply finally_done; unfold s_try|].
        1:{
        erewrite interp_try_except_raise by (apply assign_raise; exact Hbody).
        cbn [pick]. unfold H_StopIteration at 1, H_ContractError at 1, H_Exception at 1. rewrite Hstop, Hc, He.
        erewrite interp_in_handler_done; [reflexivity|].
        destruct iter_e2_facts as (Ha & Hk & Hx).
        erewrite seq_normal.
        2:{ unfold s_for. eapply loop_accept with (getv := l_validator) (geta := l_args) (getk := l_kwargs) (gete := fun e => Some (l_exc e)); try reflexivity. exact Hr. }
        fold e1. fold e2.
        erewrite seq_normal by (apply assign_done; apply interp_ret). rewrite Hx. fold e3.
        apply seq_raise. unfold s_for.
        eapply cond_loop_reject with (getv := l_validator) (geta := l_args) (getk := l_kwargs) (gete := fun e => Some (l_exc e))
                                     (sel := fun v e => cls_eqb (l_exc_type e) (v_event v)); try reflexivity.
        cbn [e3 l_args l_kwargs l_exc l_exc_type set_exc_type]. rewrite Ha, Hk, Hx. exact Hs.
        }
        ifinish4.
      Qed.

      (* (e) declared, and every reason contract registered for its type accepts: the very same object propagates *)
      Theorem iter_declared_same_object w2 w3 :
        isinstance x "ContractError" = false -> isinstance x "Exception" = true ->
        run_vals n (c_raises c) (l_args e) (l_kwargs e) (Some x) w1 = Done (inl tt) w2 ->
        run_vals n (reasons_for c x) (l_args e) (l_kwargs e) (Some x) w2 = Done (inl tt) w3 ->
        I n (loop_stmt1 lf c e) w = Done (inr x) (unpatch_w c w3).
      Proof.
        intros Hc He Hr Hs. unfold loop_stmt1. eapply eq_trans; [eapply finally_done; unfold s_try|].
        1:{
        erewrite interp_try_except_raise by (apply assign_raise; exact Hbody).
        cbn [pick]. unfold H_StopIteration at 1, H_ContractError at 1, H_Exception at 1. rewrite Hstop, Hc, He.
        eapply eq_trans; [eapply interp_in_handler_done|].
        destruct iter_e2_facts as (Ha & Hk & Hx).
        erewrite seq_normal.
        2:{ unfold s_for. eapply loop_accept with (getv := l_validator) (geta := l_args) (getk := l_kwargs) (gete := fun e => Some (l_exc e)); try reflexivity. exact Hr. }
        fold e1. fold e2.
        erewrite seq_normal by (apply assign_done; apply interp_ret). rewrite Hx. fold e3.
        erewrite seq_normal.
        2:{ unfold s_for.
            eapply cond_loop_accept with (getv := l_validator) (geta := l_args) (getk := l_kwargs) (gete := fun e => Some (l_exc e))
                                         (sel := fun v e => cls_eqb (l_exc_type e) (v_event v)); try reflexivity.
            cbn [e3 l_args l_kwargs l_exc l_exc_type set_exc_type]. rewrite Ha, Hk, Hx. exact Hs. }
        apply interp_raise.
        cbn beta iota. rewrite chain_ctx_self. reflexivity.
        }
        ifinish4.
      Qed.
    End IRaised.
  End Iter.
End Except.

(* ---------- what a raises contract admits (generated RaisesValidator._validate) ---------- *)
Section Admits.
  Variable ftab : fid -> option fdef.
  Notation I := (interp ftab).
  Definition admits (declared : list cls) (x : exn) : bool := existsb (fun d => isinstance x (c_name d)) declared.

  Lemma raises_admits n v a k x w :
    admits (v_exceptions v) x = true -> I n (RaisesValidate.run v a k (Some x)) w = Done (inl tt) w.
  Proof.
    intro H. unfold RaisesValidate.run, RaisesValidate.body.
    apply run_body_done with (c := CReturn tt) (e1 := RaisesValidate.set_exc (Some x) (RaisesValidate.set_kwargs k (RaisesValidate.set_args a RaisesValidate.env0))).
    apply seq_return. erewrite if_done by apply interp_ret. cbn [RaisesValidate.l_exc RaisesValidate.set_exc].
    unfold admits in H. rewrite H. apply return_done. apply interp_ret.
  Qed.
  Lemma raises_rejects n v a k x w :
    admits (v_exceptions v) x = false ->
    exists y w', I n (RaisesValidate.run v a k (Some x)) w = Done (inr y) w' /\ e_cause y = Some (e_id x).
  Proof.
    intro H. unfold RaisesValidate.run, RaisesValidate.body.
    set (e := RaisesValidate.set_exc (Some x) (RaisesValidate.set_kwargs k (RaisesValidate.set_args a RaisesValidate.env0))).
    destruct w as [s g].
    destruct (run_simple (VException.run v VNone VNone None) s) as [[[y|y] s']|] eqn:E.
    - exists (with_cause y (Some (e_id x))), {| wst := s'; gens := g |}. split; [|reflexivity].
      apply run_body_raise. erewrite seq_normal.
      2:{ erewrite if_done by apply interp_ret. cbn [RaisesValidate.l_exc RaisesValidate.set_exc e]. unfold admits in H. rewrite H. apply interp_ret. }
      unfold s_raise. erewrite interp_bind_done.
      2:{ erewrite interp_bind_done by (apply run_simple_sound; exact E). apply interp_ret. }
      apply interp_raise.
    - exfalso. revert E. unfold VException.run, VException.body, run_body.
      destruct (v_exception v) as [cl|cl ar]; cbn;
        repeat match goal with |- context [if ?b then _ else _] => destruct b; cbn end; discriminate.
    - exfalso. revert E. unfold VException.run, VException.body, run_body.
      destruct (v_exception v) as [cl|cl ar]; cbn;
        repeat match goal with |- context [if ?b then _ else _] => destruct b; cbn end; discriminate.
  Qed.
End Admits.
