(* Thm/C14/Introspect.v -- on the object-graph model: enumerating the contracts of a function decorated by any sequence of deal
   decorators yields exactly one record per applied contract (kinds in the fixed order pre, post, ensure, raises, reason, example,
   each in application order, then the patcher); unwrap returns the original function; a registry reachable several times along
   the __wrapped__ chain (functools.wraps copies the attribute) is reported once. *)
From Coq Require Import List ZArith Bool String Lia.
Import ListNotations.
Require Import Base Prog Sig Interp Model Scenario ObjModel ScnObj Compose.

Definition plain_function (h : heap) (o : nat) : Prop :=
  o < List.length (h_objs h) /\ o_attr (get_obj h o) = None /\ o_wrapped (get_obj h o) = None.
Lemma plain_not_wrapper h o : plain_function h o -> not_wrapper h o.
Proof. intros (_ & A & _). unfold not_wrapper. rewrite A. exact I. Qed.

Theorem introspection_exact s l h o n :
  plain_function h o -> is_deal_step s = true -> forallb is_deal_step l = true ->
  let w := List.length (h_objs h) in
  exists h', apply_steps h o (s :: l) = (h', w) /\
             get_contracts (S (S n)) h' w [] =
             (order_records (vals_of (s :: l)) ++ match last_has (s :: l) None with Some p => [RHas p] | None => [] end)%list /\
             unwrap h' w = o.
Proof.
  intros Hp Hs Hl w. pose proof Hp as (Hlt & Ha & Hw).
  destruct (union_fresh s l h o (plain_not_wrapper h o Hp) Hs Hl) as (h' & E & W & F & V & P & O).
  exists h'. split; [exact E|]. destruct W as (W1 & W2 & W3 & W4). fold w in W1, W3, W4, E |- *.
  assert (Eo : get_obj h' o = get_obj h o).
  { unfold get_obj. rewrite O. apply nth_app_lt. exact Hlt. }
  assert (Ew : o_wrapped (get_obj h' w) = Some o).
  { unfold get_obj. rewrite O. unfold w. rewrite nth_app_len. reflexivity. }
  split.
  - cbn [get_contracts]. rewrite W3. cbn [existsb]. rewrite V, P, Ew.
    cbn [get_contracts]. rewrite Eo, Ha, Hw. rewrite app_nil_r. destruct n; reflexivity.
  - unfold unwrap. rewrite W3. exact F.
Qed.

(* the same registry seen again along the chain adds nothing *)
Theorem seen_registry_skipped n h o r seen :
  o_attr (get_obj h o) = Some r -> existsb (Nat.eqb r) seen = true ->
  get_contracts (S n) h o seen = match o_wrapped (get_obj h o) with Some w => get_contracts n h w seen | None => [] end.
Proof. intros Ha Hs. cbn [get_contracts]. rewrite Ha, Hs. reflexivity. Qed.

(* whatever put the validators into the registry -- decorating, deal.chain, the merge of ancestor registries done by deal.inherit
   (Sem/InheritHeap.v: the registry of the method a class resolves to after lazy patching) -- the records reported for a wrapper
   over a plain function are exactly that registry's validators, kind by kind in list order, and its patcher: what is reported is
   what the wrapper consults when called *)
Theorem introspection_reports_registry n h p t f :
  o_attr (get_obj h p) = Some t -> o_wrapped (get_obj h p) = Some f ->
  o_attr (get_obj h f) = None -> o_wrapped (get_obj h f) = None ->
  get_contracts (S (S n)) h p [] =
  (order_records (r_vals (get_reg h t)) ++ match r_patcher (get_reg h t) with Some q => [RHas q] | None => [] end)%list.
Proof.
  intros Ha Hw Hfa Hfw. cbn [get_contracts]. rewrite Ha. cbn [existsb]. rewrite Hw. cbn [get_contracts]. rewrite Hfa, Hfw.
  rewrite app_nil_r. destruct n; reflexivity.
Qed.
