(* Thm/C14/ExtractRefine.v -- the instruction lists regenerated from deal/introspection/_extractor.py (Gen/Extractor.v), run by the
   semantics of Sem/ExtractCode.v, ARE ObjModel.get_contracts and ObjModel.unwrap: for every heap, function object, seen-set and fuel. *)
From Coq Require Import List ZArith Bool String.
Import ListNotations.
Require Import Base Prog Sig Interp Model ObjModel ExtractCode Extractor.

Definition has_part (h : heap) (r : nat) : list record := match r_patcher (get_reg h r) with Some p => [RHas p] | None => [] end.
Lemma exec_reg_generated h r seen body :
  x_loop code = [LIfInheritPatch; LGetRegistry; LIfNewRegistry body; LFollowWrappedElseReturn] ->
  exec_reg body h r seen = ((order_records (r_vals (get_reg h r)) ++ has_part h r)%list, r :: seen).
Proof.
  intro H. inversion H; subst body. cbn [exec_reg]. unfold order_records, pick, has_part.
  rewrite app_nil_r. repeat rewrite <- app_assoc. reflexivity.
Qed.
Lemma loop_shape : exists body, x_loop code = [LIfInheritPatch; LGetRegistry; LIfNewRegistry body; LFollowWrappedElseReturn].
Proof. eexists. reflexivity. Qed.

Theorem exec_get_contracts_is_get_contracts fuel : forall h func seen,
  exec_get_contracts fuel (x_loop code) h func seen = get_contracts fuel h func seen.
Proof.
  destruct loop_shape as [body Hb]. rewrite Hb.
  induction fuel as [|n IH]; intros h func seen; [reflexivity|].
  cbn [exec_get_contracts get_contracts exec_iter].
  destruct (o_attr (get_obj h func)) as [r|].
  - destruct (existsb (Nat.eqb r) seen).
    + destruct (o_wrapped (get_obj h func)) as [w|]; cbn [app]; [rewrite IH|]; reflexivity.
    + rewrite (exec_reg_generated h r seen body Hb). fold (has_part h r).
      destruct (o_wrapped (get_obj h func)) as [w|]; cbn [app]; rewrite ?app_nil_r; [rewrite IH|]; reflexivity.
  - destruct (o_wrapped (get_obj h func)) as [w|]; cbn [app]; [rewrite IH|]; reflexivity.
Qed.

Theorem exec_unwrap_is_unwrap h func : exec_unwrap (x_unwrap code) h func None = Some (unwrap h func).
Proof. cbn [x_unwrap code exec_unwrap]. unfold unwrap. destruct (o_attr (get_obj h func)); reflexivity. Qed.

(* the attribute the extractor reads is the one the runtime writes *)
Lemma attr_name : x_attr code = "__deal_contract"%string.
Proof. reflexivity. Qed.

(* ---- the fuel of the model is not a truncation: for a __wrapped__ chain of length n (acyclic: it ends), S n steps report everything
   and more fuel changes nothing. (On a cyclic chain -- f.__wrapped__ = f -- the real loop does not terminate; the model then returns a
   prefix. See DESIGN 9.7.) ---- *)
Inductive chain_len (h : heap) : nat -> nat -> Prop :=
| chain_end f : o_wrapped (get_obj h f) = None -> chain_len h f 0
| chain_step f w n : o_wrapped (get_obj h f) = Some w -> chain_len h w n -> chain_len h f (S n).
Theorem fuel_adequate h f n : chain_len h f n -> forall k seen, get_contracts (S n + k) h f seen = get_contracts (S n) h f seen.
Proof.
  induction 1 as [f Hw|f w n Hw Hc IH]; intros k seen.
  - cbn [plus get_contracts]. rewrite Hw. reflexivity.
  - change (S (S n) + k) with (S (S n + k)). cbn [get_contracts]. rewrite Hw.
    destruct (o_attr (get_obj h f)) as [r|]; [destruct (existsb (Nat.eqb r) seen)|]; rewrite IH; reflexivity.
Qed.
Corollary code_fuel_adequate h f n : chain_len h f n -> forall k seen,
  exec_get_contracts (S n + k) (x_loop code) h f seen = exec_get_contracts (S n) (x_loop code) h f seen.
Proof. intros Hc k seen. rewrite !exec_get_contracts_is_get_contracts. apply fuel_adequate. exact Hc. Qed.
