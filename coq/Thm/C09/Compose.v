(* Thm/C09/Compose.v -- composition on the object-graph model (Sem/ObjModel.v): whatever the grouping of decoration steps,
   a function ends up with ONE registry holding exactly the contracts applied to it, in application order; a wraps-style foreign
   layer starts a new registry whose original function is the foreign layer itself (it stays in the call chain). *)
From Coq Require Import List ZArith Bool String Lia.
Import ListNotations.
Require Import Base Prog Sig Interp Model Scenario ObjModel ScnObj.

(* nth / list_upd algebra *)
Lemma nth_app_len {X} (l : list X) x d : nth (List.length l) (l ++ [x]) d = x.
Proof. induction l; cbn; auto. Qed.
Lemma nth_app_lt {X} (l : list X) x d n : n < List.length l -> nth n (l ++ [x]) d = nth n l d.
Proof. revert n. induction l as [|a t IH]; intros n H; cbn in *; [lia|]. destruct n; [reflexivity|]. apply IH. lia. Qed.
Lemma nth_list_upd_same {X} (l : list X) n f d : n < List.length l -> nth n (list_upd l n f) d = f (nth n l d).
Proof. revert n. induction l as [|a t IH]; intros n H; cbn in *; [lia|]. destruct n; [reflexivity|]. apply IH. lia. Qed.
Lemma length_list_upd {X} (l : list X) n f : List.length (list_upd l n f) = List.length l.
Proof. revert n. induction l as [|a t IH]; intro n; destruct n; cbn; auto. Qed.

(* "w is the deal wrapper of registry r in heap h" *)
Definition wrapper_of (h : heap) (w r : nat) : Prop :=
  w < List.length (h_objs h) /\ r < List.length (h_regs h) /\
  o_attr (get_obj h w) = Some r /\ r_wrapped (get_reg h r) = w.

(* a deal step on an existing wrapper reuses its registry and returns the same wrapper *)
Lemma ensure_on_wrapper h w r : wrapper_of h w r -> ensure_wrapped h w = (h, r).
Proof. intros (_ & _ & Ha & Hw). unfold ensure_wrapped. rewrite Ha, Hw, Nat.eqb_refl. reflexivity. Qed.

Lemma attach_on_wrapper k v h w r :
  wrapper_of h w r ->
  exists h', attach k v h w = (h', w) /\ wrapper_of h' w r /\
             r_vals (get_reg h' r) = (r_vals (get_reg h r) ++ [(k, v)])%list /\
             r_func (get_reg h' r) = r_func (get_reg h r) /\ r_patcher (get_reg h' r) = r_patcher (get_reg h r) /\
             h_objs h' = h_objs h /\ List.length (h_regs h') = List.length (h_regs h).
Proof.
  intros Hw. pose proof Hw as (Hlo & Hlr & Ha & Hww).
  unfold attach. rewrite (ensure_on_wrapper _ _ _ Hw).
  eexists. split.
  - f_equal. unfold get_reg, upd_reg, set_vfun. cbn. rewrite nth_list_upd_same by exact Hlr. cbn. exact Hww.
  - unfold get_reg, upd_reg, set_vfun, get_obj, wrapper_of. cbn. rewrite length_list_upd.
    rewrite !nth_list_upd_same by exact Hlr. cbn. repeat split; auto.
Qed.
Lemma attach_has_on_wrapper p h w r :
  wrapper_of h w r ->
  exists h', attach_has p h w = (h', w) /\ wrapper_of h' w r /\
             r_vals (get_reg h' r) = r_vals (get_reg h r) /\
             r_func (get_reg h' r) = r_func (get_reg h r) /\ r_patcher (get_reg h' r) = Some p /\
             h_objs h' = h_objs h /\ List.length (h_regs h') = List.length (h_regs h).
Proof.
  intros Hw. pose proof Hw as (Hlo & Hlr & Ha & Hww).
  unfold attach_has. rewrite (ensure_on_wrapper _ _ _ Hw).
  eexists. split.
  - f_equal. unfold get_reg, upd_reg. cbn. rewrite nth_list_upd_same by exact Hlr. cbn. exact Hww.
  - unfold get_reg, upd_reg, get_obj, wrapper_of. cbn. rewrite length_list_upd.
    rewrite !nth_list_upd_same by exact Hlr. cbn. repeat split; auto.
Qed.

(* a deal step on an object that is not (any more) the wrapper of the registry it carries -- a fresh function, or a foreign
   layer -- builds a new registry whose original function is that object *)
Definition not_wrapper (h : heap) (o : nat) : Prop :=
  match o_attr (get_obj h o) with Some r => r_wrapped (get_reg h r) <> o | None => True end.
Lemma ensure_new h o : not_wrapper h o ->
  let w := List.length (h_objs h) in let r := List.length (h_regs h) in
  exists h', ensure_wrapped h o = (h', r) /\ wrapper_of h' w r /\
             r_func (get_reg h' r) = o /\ r_vals (get_reg h' r) = [] /\ r_patcher (get_reg h' r) = None /\
             o_kind (get_obj h' w) = ODeal r /\ o_wrapped (get_obj h' w) = Some o /\
             h_objs h' = (h_objs h ++ [{| o_kind := ODeal r; o_attr := Some r; o_wrapped := Some o; o_fkind := o_fkind (get_obj h o) |}])%list.
Proof.
  intros Hn w r. unfold ensure_wrapped.
  assert (E : match o_attr (get_obj h o) with
              | Some r0 => if Nat.eqb (r_wrapped (get_reg h r0)) o then Some r0 else None
              | None => None end = None).
  { unfold not_wrapper in Hn. destruct (o_attr (get_obj h o)) as [r0|]; [|reflexivity].
    destruct (Nat.eqb (r_wrapped (get_reg h r0)) o) eqn:Eq; [apply Nat.eqb_eq in Eq; contradiction|reflexivity]. }
  rewrite E. eexists. split; [reflexivity|].
  unfold wrapper_of, get_obj, get_reg. cbn [h_objs h_regs]. rewrite !app_length. cbn [List.length].
  fold w r. unfold w, r. rewrite !nth_app_len. cbn. repeat split; auto; lia.
Qed.

(* ---------- the union theorem ---------- *)
Definition is_deal_step (s : step) := match s with SVal _ _ | SHas _ => true | _ => false end.
Definition vals_of (l : list step) : list (ckind * nat) :=
  List.concat (map (fun s => match s with SVal k v => [(k, v)] | _ => [] end) l).
Definition last_has (l : list step) (d : option nat) : option nat :=
  fold_left (fun acc s => match s with SHas p => Some p | _ => acc end) l d.

Lemma steps_on_wrapper l : forall h w r,
  forallb is_deal_step l = true -> wrapper_of h w r ->
  exists h', apply_steps h w l = (h', w) /\ wrapper_of h' w r /\
             r_vals (get_reg h' r) = (r_vals (get_reg h r) ++ vals_of l)%list /\
             r_func (get_reg h' r) = r_func (get_reg h r) /\
             r_patcher (get_reg h' r) = last_has l (r_patcher (get_reg h r)) /\ h_objs h' = h_objs h.
Proof.
  induction l as [|s t IH]; intros h w r Hd Hw.
  - exists h. cbn. rewrite app_nil_r. split; [reflexivity|]. split; [exact Hw|]. repeat split; reflexivity.
  - cbn [forallb] in Hd. apply andb_true_iff in Hd. destruct Hd as [Hs Ht].
    unfold apply_steps. cbn [fold_left]. destruct s as [k v|p|?|?]; try discriminate; cbn [apply_step fst snd].
    + destruct (attach_on_wrapper k v h w r Hw) as (h1 & E1 & W1 & V1 & F1 & P1 & O1 & _).
      rewrite E1. destruct (IH h1 w r Ht W1) as (h' & E & W' & V' & F' & P' & O').
      exists h'. split; [exact E|]. split; [exact W'|]. rewrite V', V1, F', F1, P', P1, O', O1.
      unfold vals_of. cbn. rewrite <- app_assoc. auto.
    + destruct (attach_has_on_wrapper p h w r Hw) as (h1 & E1 & W1 & V1 & F1 & P1 & O1 & _).
      rewrite E1. destruct (IH h1 w r Ht W1) as (h' & E & W' & V' & F' & P' & O').
      exists h'. split; [exact E|]. split; [exact W'|]. rewrite V', V1, F', F1, P', P1, O', O1. auto.
Qed.

(* any non-empty sequence of deal decorators applied to a function object that is not a deal wrapper: one new registry, whose
   original function is that object, holding exactly the applied validators in application order and the last has() *)
Theorem union_fresh s l h o :
  not_wrapper h o -> is_deal_step s = true -> forallb is_deal_step l = true ->
  let w := List.length (h_objs h) in let r := List.length (h_regs h) in
  exists h', apply_steps h o (s :: l) = (h', w) /\ wrapper_of h' w r /\
             r_func (get_reg h' r) = o /\
             r_vals (get_reg h' r) = vals_of (s :: l) /\
             r_patcher (get_reg h' r) = last_has (s :: l) None /\
             h_objs h' = (h_objs h ++ [{| o_kind := ODeal r; o_attr := Some r; o_wrapped := Some o; o_fkind := o_fkind (get_obj h o) |}])%list.
Proof.
  intros Hn Hs Hl w r.
  destruct (ensure_new h o Hn) as (h0 & E0 & W0 & F0 & V0 & P0 & _ & _ & O0). fold w r in E0, W0, F0, V0, P0, O0.
  unfold apply_steps. cbn [fold_left]. destruct s as [k v|p|?|?]; try discriminate; cbn [apply_step fst snd].
  - unfold attach. rewrite E0.
    set (h1 := upd_reg (set_vfun h0 v (r_func (get_reg h0 r))) r _).
    assert (W1 : wrapper_of h1 w r).
    { destruct W0 as (A & B & C & D). unfold h1, wrapper_of, get_obj, get_reg, upd_reg, set_vfun. cbn.
      rewrite length_list_upd. rewrite nth_list_upd_same by exact B. cbn. repeat split; auto. }
    assert (V1 : r_vals (get_reg h1 r) = [(k, v)]).
    { destruct W0 as (A & B & C & D). unfold h1, get_reg, upd_reg, set_vfun. cbn. rewrite nth_list_upd_same by exact B. cbn.
      unfold get_reg in V0. rewrite V0. reflexivity. }
    assert (F1 : r_func (get_reg h1 r) = o).
    { destruct W0 as (A & B & C & D). unfold h1, get_reg, upd_reg, set_vfun. cbn. rewrite nth_list_upd_same by exact B. cbn. exact F0. }
    assert (P1 : r_patcher (get_reg h1 r) = None).
    { destruct W0 as (A & B & C & D). unfold h1, get_reg, upd_reg, set_vfun. cbn. rewrite nth_list_upd_same by exact B. cbn. exact P0. }
    assert (Ew : r_wrapped (get_reg h1 r) = w) by (destruct W1 as (_ & _ & _ & D); exact D).
    rewrite Ew.
    destruct (steps_on_wrapper l h1 w r Hl W1) as (h' & E & W' & V' & F' & P' & O').
    exists h'. unfold apply_steps in E. split; [exact E|]. split; [exact W'|]. rewrite V', V1, F', F1, P', P1, O'. repeat split; auto.
  - unfold attach_has. rewrite E0.
    set (h1 := upd_reg h0 r _).
    assert (W1 : wrapper_of h1 w r).
    { destruct W0 as (A & B & C & D). unfold h1, wrapper_of, get_obj, get_reg, upd_reg. cbn.
      rewrite length_list_upd. rewrite nth_list_upd_same by exact B. cbn. repeat split; auto. }
    assert (V1 : r_vals (get_reg h1 r) = []).
    { destruct W0 as (A & B & C & D). unfold h1, get_reg, upd_reg. cbn. rewrite nth_list_upd_same by exact B. cbn. exact V0. }
    assert (F1 : r_func (get_reg h1 r) = o).
    { destruct W0 as (A & B & C & D). unfold h1, get_reg, upd_reg. cbn. rewrite nth_list_upd_same by exact B. cbn. exact F0. }
    assert (P1 : r_patcher (get_reg h1 r) = Some p).
    { destruct W0 as (A & B & C & D). unfold h1, get_reg, upd_reg. cbn. rewrite nth_list_upd_same by exact B. reflexivity. }
    assert (Ew : r_wrapped (get_reg h1 r) = w) by (destruct W1 as (_ & _ & _ & D); exact D).
    rewrite Ew.
    destruct (steps_on_wrapper l h1 w r Hl W1) as (h' & E & W' & V' & F' & P' & O').
    exists h'. unfold apply_steps in E. split; [exact E|]. split; [exact W'|]. rewrite V', V1, F', F1, P', P1, O'. repeat split; auto.
Qed.

(* grouping is irrelevant: chain(c1..cn) is c1 then ... then cn, so only the flattened sequence of steps matters *)
Theorem chain_is_stacking cs l : steps_of cs (BChain l) = List.concat (map (fun c => steps_of cs (BUse c)) l).
Proof. reflexivity. Qed.
Theorem apply_steps_app h o l1 l2 : apply_steps h o (l1 ++ l2) = apply_steps (fst (apply_steps h o l1)) (snd (apply_steps h o l1)) l2.
Proof. unfold apply_steps. rewrite fold_left_app. destruct (fold_left apply_step l1 (h, o)); reflexivity. Qed.

(* a wraps-style foreign decorator applied to a deal wrapper is not the wrapper of the registry it inherits through __dict__:
   the next deal decorator therefore opens a new registry whose original function is the foreign layer *)
Theorem foreign_wraps_kept tag h w r :
  wrapper_of h w r ->
  let fo := List.length (h_objs h) in
  exists h', foreign_wraps tag h w = (h', fo) /\ not_wrapper h' fo /\ o_kind (get_obj h' fo) = OForeign tag w.
Proof.
  intros (A & B & C & D) fo. eexists. split; [reflexivity|]. unfold fo.
  unfold not_wrapper, get_obj, get_reg. cbn [h_objs h_regs]. rewrite nth_app_len. cbn [o_attr o_kind]. unfold get_obj in C. rewrite C.
  split; [|reflexivity]. unfold get_reg in D. rewrite D. lia.
Qed.
