(* Thm/C09/AttachRefine.v -- the instruction lists regenerated from Contracts.attach / attach_has (Gen/Attach.v), run by Sem/AttachCode.v,
   are ObjModel.attach / ObjModel.attach_has: for every heap, contract kind, validator / patcher object and function object. *)
From Coq Require Import List ZArith Bool String.
Import ListNotations.
Require Import Base Prog Sig Interp Model ObjModel AttachCode Attach.

Theorem exec_attach_is_attach k v h func :
  exec_attach (a_attach code) false k v h func None = Some (attach k v h func).
Proof.
  cbn [a_attach code exec_attach]. unfold attach.
  destruct (ensure_wrapped h func) as [h1 r]. cbn [exec_attach]. reflexivity.
Qed.
Theorem exec_attach_has_is_attach_has k p h func :
  exec_attach (a_attach_has code) false k p h func None = Some (attach_has p h func).
Proof.
  cbn [a_attach_has code exec_attach]. unfold attach_has.
  destruct (ensure_wrapped h func) as [h1 r]. cbn [exec_attach]. reflexivity.
Qed.
(* permanently removed: the decorators hand back their argument and change nothing *)
Theorem exec_attach_removed k v h func :
  exec_attach (a_attach code) true k v h func None = Some (h, func) /\ exec_attach (a_attach_has code) true k v h func None = Some (h, func).
Proof. split; reflexivity. Qed.
