(* Thm/C09/AttachRefine.v -- the instruction lists regenerated from Contracts.attach / attach_has (Gen/Attach.v), run by Sem/AttachCode.v,
   are ObjModel.attach / ObjModel.attach_has: for every heap, contract kind, validator / patcher object and function object. *)
From Coq Require Import List ZArith Bool String.
Import ListNotations.
Require Import Base Prog Sig Interp Model ObjModel AttachCode Attach PatchBracket.

Theorem exec_attach_is_attach k v h func :
  exec_attach (a_attach code) false k v h func None = Some (attach k v h func).
Proof.
  cbn [a_attach code exec_attach]. unfold attach.
  destruct (ensure_wrapped h func) as [h1 r]. cbn [exec_attach]. reflexivity.
Qed.
Theorem exec_attach_has_is_attach_has k p h func :
  exec_attach (a_attach_has code) false k p h func None = Some (attach_has p h func).
Proof.
  cbn [a_attach_has code exec_attach]. unfold attach_has.
  destruct (ensure_wrapped h func) as [h1 r]. cbn [exec_attach]. reflexivity.
Qed.
(* permanently removed: the decorators hand back their argument and change nothing *)
Theorem exec_attach_removed k v h func :
  exec_attach (a_attach code) true k v h func None = Some (h, func) /\ exec_attach (a_attach_has code) true k v h func None = Some (h, func).
Proof. split; reflexivity. Qed.

(* finding C09-F1 (and C12-F1, its consequence for dispatch) on the model, for EVERY heap: a validator object attached to a second
   function names that second function -- whatever it was attached to before *)
Theorem shared_validator_function_overwritten k v h g :
  nlookup v (h_vfun (fst (attach k v h g))) = Some (r_func (get_reg (fst (ensure_wrapped h g)) (snd (ensure_wrapped h g)))).
Proof.
  unfold attach. destruct (ensure_wrapped h g) as [h1 r]. cbn [fst snd]. unfold upd_reg, set_vfun. cbn [h_vfun].
  apply nlookup_nupd_same.
Qed.
Corollary second_attach_forgets_the_first k v h f g :
  nlookup v (h_vfun (fst (attach k v (fst (attach k v h f)) g)))
  = Some (r_func (get_reg (fst (ensure_wrapped (fst (attach k v h f)) g)) (snd (ensure_wrapped (fst (attach k v h f)) g)))).
Proof. apply shared_validator_function_overwritten. Qed.
