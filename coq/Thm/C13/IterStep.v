(* Thm/C13/IterStep.v -- one iteration of the generated generator wrapper (RunIter loop): from resumption to the next
   suspension (or to the error that ends it), the switch and the streams are handed back as they were found. Hence, whatever
   the interleaving of the steps of several live contracted generators, whenever control is at the consumer the globals are
   original. *)
From Coq Require Import List ZArith Bool String.
Import ListNotations.
Require Import Base Prog Sig Interp InterpFacts StmtFacts Model Validators HasPatcher Contracts Loops PatchFacts PatchBracket FrameCore Post Transparent.
Set Implicit Arguments.
Import RunIter.

Section Step.
  Variable ftab : fid -> option fdef.
  Notation I := (interp ftab).
  Variables (lf : nat) (c : contracts).

  Lemma ipatch_stmt n e w : I n (loop_stmt0 lf c e) w = Done (inl (CNormal, e)) (patch_w c w).
  Proof.
    unfold loop_stmt0, patch_w. erewrite if_done by apply interp_ret. unfold with_patcher.
    destruct (c_patcher c) as [p|]; cbn [is_some]; [apply do_done, patch_interp|apply interp_ret].
  Qed.
  Lemma iunpatch_fin n e w :
    I n (s_if (R:=value) (fun _ : env => Ret (is_some (c_patcher c))) (s_do (fun _ => with_patcher (c_patcher c) Unpatch.run)) s_skip e) w
    = Done (inl (CNormal, e)) (unpatch_w c w).
  Proof.
    unfold unpatch_w. erewrite if_done by apply interp_ret. unfold with_patcher.
    destruct (c_patcher c) as [p|]; cbn [is_some]; [apply do_done, unpatch_interp|apply interp_ret].
  Qed.
  Lemma bracket_patch_w w w2 : inv_rel (wst (patch_w c w)) (wst w2) -> inv_rel (wst w) (wst (unpatch_w c w2)).
  Proof. unfold patch_w, unpatch_w. destruct (c_patcher c) as [p|]; [apply bracket_patch|auto]. Qed.

  (* the inner generator yields v and every post / ensure accepts it: the wrapper suspends with exactly v *)
  Theorem iteration_yields n e w v w2 w3 :
    debug (wst w) = true ->
    I n (gen_next (l_generator e)) (patch_w c w) = Done (inl v) w2 -> inv_rel (wst (patch_w c w)) (wst w2) ->
    run_posts ftab n c (l_args e) (l_kwargs e) v (dbg false (unpatch_w c w2)) = Done (inl tt) w3 ->
    inv_rel (wst (dbg false (unpatch_w c w2))) (wst w3) ->
    exists K, I n (loop_tail0 lf c e) w = Susp v K (dbg true w3) /\ inv_rel (wst w) (wst (dbg true w3)).
  Proof.
    intros Hd Hnext Hinv1 Hposts Hinv2.
    assert (Hstep1 : I n (loop_stmt1 lf c e) (patch_w c w) = Done (inl (CNormal, set_result v e)) (unpatch_w c w2)).
    { unfold loop_stmt1. erewrite finally_done.
      2:{ unfold s_try. apply interp_try_except_ret. apply assign_done. exact Hnext. }
      cbn beta iota. erewrite interp_bind_done by apply iunpatch_fin. apply interp_ret. }
    destruct (post_iter_accept ftab lf c n (set_result v e) (unpatch_w c w2) (w1 := w3)) as (K & HK).
    { cbn [l_args l_kwargs l_result set_result]. exact Hposts. }
    exists K. split.
    - unfold loop_tail0. erewrite seq_normal by apply ipatch_stmt.
      unfold loop_tail1. erewrite seq_normal by exact Hstep1. exact HK.
    - pose proof (bracket_patch_w w w2 Hinv1) as B1.
      assert (Hd2 : debug (wst (unpatch_w c w2)) = true) by (destruct B1 as [D _]; congruence).
      eapply inv_trans; [exact B1|]. cbn [wst on_st dbg] in *. apply bracket_debug; assumption.
  Qed.

  (* ... or a post / ensure rejects it: the iteration ends with that error (the loop ends: StmtFacts.while_iter_raise) *)
  Theorem iteration_rejects n e w v w2 x w3 :
    debug (wst w) = true ->
    I n (gen_next (l_generator e)) (patch_w c w) = Done (inl v) w2 -> inv_rel (wst (patch_w c w)) (wst w2) ->
    run_posts ftab n c (l_args e) (l_kwargs e) v (dbg false (unpatch_w c w2)) = Done (inr x) w3 ->
    inv_rel (wst (dbg false (unpatch_w c w2))) (wst w3) ->
    I n (loop_tail0 lf c e) w = Done (inr x) (dbg true w3) /\ inv_rel (wst w) (wst (dbg true w3)).
  Proof.
    intros Hd Hnext Hinv1 Hposts Hinv2.
    assert (Hstep1 : I n (loop_stmt1 lf c e) (patch_w c w) = Done (inl (CNormal, set_result v e)) (unpatch_w c w2)).
    { unfold loop_stmt1. erewrite finally_done.
      2:{ unfold s_try. apply interp_try_except_ret. apply assign_done. exact Hnext. }
      cbn beta iota. erewrite interp_bind_done by apply iunpatch_fin. apply interp_ret. }
    split.
    - unfold loop_tail0. erewrite seq_normal by apply ipatch_stmt.
      unfold loop_tail1. erewrite seq_normal by exact Hstep1.
      apply (post_iter_reject ftab lf c n (set_result v e) (unpatch_w c w2) (x := x) (w1 := w3)).
      cbn [l_args l_kwargs l_result set_result]. exact Hposts.
    - pose proof (bracket_patch_w w w2 Hinv1) as B1.
      assert (Hd2 : debug (wst (unpatch_w c w2)) = true) by (destruct B1 as [D _]; congruence).
      eapply inv_trans; [exact B1|]. cbn [wst on_st dbg] in *. apply bracket_debug; assumption.
  Qed.
End Step.
