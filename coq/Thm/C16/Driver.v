(* Thm/C16/Driver.v -- the rule driver emits each (row, col, code, value) once, loses nothing but duplicates and noqa-suppressed
   findings, back-filled positions lie inside the file, every code is documented, the exit status counts the printed findings. *)
From Coq Require Import List Arith Bool String Lia.
Import ListNotations.
Require Import Base Model HasPatcher Rules DriverPin LintDriver.
Open Scope string_scope.
Local Open Scope list_scope.

Lemma opt_eqb_refl a : opt_eqb a a = true.
Proof. destruct a; cbn; [apply String.eqb_refl|reflexivity]. Qed.
Lemma key_eqb_refl e : key_eqb e e = true.
Proof. unfold key_eqb. rewrite !Nat.eqb_refl, opt_eqb_refl. reflexivity. Qed.
Lemma opt_eqb_eq a b : opt_eqb a b = true -> a = b.
Proof. destruct a, b; cbn; try discriminate; [intro H; apply String.eqb_eq in H; congruence|reflexivity]. Qed.
Lemma key_eqb_sym a b : key_eqb a b = key_eqb b a.
Proof.
  unfold key_eqb. rewrite (Nat.eqb_sym (e_row a)), (Nat.eqb_sym (e_col a)), (Nat.eqb_sym (e_code a)).
  f_equal. destruct (e_value a), (e_value b); cbn; try reflexivity. apply String.eqb_sym.
Qed.
Lemma key_eqb_trans a b c : key_eqb a b = true -> key_eqb b c = true -> key_eqb a c = true.
Proof.
  unfold key_eqb. rewrite !andb_true_iff, !Nat.eqb_eq. intros [[[H1 H2] H3] H4] [[[G1 G2] G3] G4].
  apply opt_eqb_eq in H4. apply opt_eqb_eq in G4. rewrite H1, G1, H2, G2, H3, G3, H4, G4. rewrite opt_eqb_refl. auto.
Qed.

(* every emitted finding is one the rules produced, is not suppressed, and was not reported before *)
Lemma drive_in noqa rep l e : In e (drive noqa rep l) -> In e l /\ suppressed (noqa (e_row e)) e = false /\ existsb (key_eqb e) rep = false.
Proof.
  revert rep. induction l as [|x t IH]; intros rep H; [destruct H|]. cbn [drive] in H.
  destruct (existsb (key_eqb x) rep) eqn:Er.
  - destruct (IH _ H) as [A [B C]]. auto with datatypes.
  - destruct (suppressed (noqa (e_row x)) x) eqn:Es.
    + destruct (IH _ H) as [A [B C]]. auto with datatypes.
    + destruct H as [<-|H]; [auto with datatypes|]. destruct (IH _ H) as [A [B C]]. split; [right; exact A|]. split; [exact B|].
      cbn in C. apply orb_false_iff in C. tauto.
Qed.
(* no two emitted findings share (row, col, code, value) *)
Inductive distinct : list err -> Prop :=
| d_nil : distinct []
| d_cons e l : (forall e', In e' l -> key_eqb e' e = false) -> distinct l -> distinct (e :: l).
Theorem drive_distinct noqa rep l : distinct (drive noqa rep l).
Proof.
  revert rep. induction l as [|x t IH]; intro rep; cbn [drive]; [constructor|].
  destruct (existsb (key_eqb x) rep); [apply IH|]. destruct (suppressed (noqa (e_row x)) x); [apply IH|].
  constructor; [|apply IH]. intros e' Hin. apply drive_in in Hin. destruct Hin as [_ [_ C]]. cbn in C. apply orb_false_iff in C. tauto.
Qed.
(* nothing is lost except duplicates and findings suppressed by a noqa comment *)
Theorem drive_complete noqa rep l e :
  In e l -> suppressed (noqa (e_row e)) e = false -> existsb (key_eqb e) rep = false ->
  exists e', In e' (drive noqa rep l) /\ key_eqb e e' = true.
Proof.
  revert rep. induction l as [|x t IH]; intros rep Hin Hs Hr; [destruct Hin|]. cbn [drive].
  destruct Hin as [->|Hin].
  - rewrite Hr, Hs. exists e. split; [left; reflexivity|apply key_eqb_refl].
  - destruct (existsb (key_eqb x) rep) eqn:Er; [apply IH; assumption|].
    destruct (suppressed (noqa (e_row x)) x) eqn:Es; [apply IH; assumption|].
    destruct (key_eqb e x) eqn:Ex.
    + exists x. split; [left; reflexivity|exact Ex].
    + destruct (IH (x :: rep) Hin Hs) as [e' [H1 H2]]; [cbn; rewrite Ex, Hr; reflexivity|]. exists e'. split; [right; exact H1|exact H2].
Qed.
Theorem get_errors_deterministic noqa noqa' fe me : (forall r, noqa r = noqa' r) -> get_errors noqa fe me = get_errors noqa' fe me.
Proof.
  intro H. unfold get_errors. f_equal. generalize (@nil err). induction fe as [|x t IH]; intro rep; cbn [drive]; [reflexivity|].
  rewrite <- H. destruct (existsb (key_eqb x) rep); [apply IH|]. destruct (suppressed (noqa (e_row x)) x); [apply IH|]. f_equal. apply IH.
Qed.

(* positions: a back-filled token lies inside the file when the node does and the handler's own position (if any) does *)
Theorem ensure_node_info_inside t nl nc n :
  1 <= nl <= n -> (t_line t = DEFAULT_LINE \/ 1 <= t_line t <= n) -> 1 <= t_line (ensure_node_info t nl nc) <= n.
Proof.
  intros Hn Ht. unfold ensure_node_info. cbn [t_line]. destruct (Nat.eqb_spec (t_line t) DEFAULT_LINE) as [E|E]; [exact Hn|].
  destruct Ht as [Ht|Ht]; [contradiction|exact Ht].
Qed.
Theorem ensure_node_info_keeps t nl nc : t_line t <> DEFAULT_LINE -> t_col t <> DEFAULT_COL -> ensure_node_info t nl nc = t.
Proof.
  intros H1 H2. unfold ensure_node_info. destruct t as [l c]. cbn in *. apply Nat.eqb_neq in H1. apply Nat.eqb_neq in H2. rewrite H1, H2. reflexivity.
Qed.
(* the sentinel quirk: a handler that reports column DEFAULT_COL gets the node's column instead *)
Example sentinel_column : t_col (ensure_node_info {| t_line := 3; t_col := DEFAULT_COL |} 3 8) = 8.
Proof. reflexivity. Qed.

(* every code a rule can emit is in the documentation's table *)
Definition emitted_codes : list nat := map snd RULE_CODES ++ map snd MARKER_CODES.
Theorem codes_documented : forallb (fun c => existsb (Nat.eqb c) DOC_CODES) emitted_codes = true.
Proof. vm_compute. reflexivity. Qed.

(* the lint command: exit status = number of printed findings *)
Theorem cli_exit_counts_lines render errors : snd (cli_json render errors) = List.length (fst (cli_json render errors)).
Proof. unfold cli_json. cbn. rewrite map_length. reflexivity. Qed.
