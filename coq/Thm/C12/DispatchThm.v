(* Thm/C12/DispatchThm.v -- Dispatch.__call__ as generated from deal/_runtime/_dispatch.py runs the first implementation whose
   own precondition does not reject the call. For every registry of implementations, every function table, arguments, fuel. *)
From Coq Require Import List ZArith Bool String.
Import ListNotations.
Require Import Base Prog Sig Interp InterpFacts StmtFacts Model Dispatch.
Set Implicit Arguments.
Import DispatchCall.

Section D.
  Variable ftab : fid -> option fdef.
  Variable co : fid -> option fid.      (* getattr(func, ATTR, None).func: the original function of a contracted implementation *)
  Notation I := (interp ftab).

  (* "this failure is a mismatch of implementation f": a PreContractError whose origin is f's own original function *)
  Definition mismatch (f : fid) (x : exn) : bool :=
    H_PreContractError x && negb (opt_is_none (co f)) && origin_is x (co f).

  Inductive dres := DFound (r : value + exn) (w : world) | DNone (acc : list exn) (w : world) | DStuck.
  (* reference: try the implementations in registration order *)
  Fixpoint disp_ref (n : nat) (fs : list fid) (a : pargs) (k : pkwargs) (acc : list exn) (w : world) : dres :=
    match fs with
    | [] => DNone acc w
    | f :: t => match I n (call_decorated f a k) w with
                | Done (inl v) w1 => DFound (inl v) w1
                | Done (inr x) w1 => if mismatch f x then disp_ref n t a k (acc ++ [x])%list w1 else DFound (inr x) w1
                | _ => DStuck
                end
    end.

  (* what one iteration of the generated loop must do (proved for the generated body below) *)
  Definition step_ok (n : nat) (body : stmt env value) : Prop :=
    forall f e w,
      match I n (call_decorated f (l_args e) (l_kwargs e)) w with
      | Done (inl v) w1 => I n (body (set_func f e)) w = Done (inl (CReturn v, set_func f e)) w1
      | Done (inr x) w1 =>
          if mismatch f x
          then I n (body (set_func f e)) w =
               Done (inl (CNormal, set_exceptions (l_exceptions e ++ [x])%list (set_contracts (co f) (set_exc x (set_func f e))))) w1
          else I n (body (set_func f e)) w = Done (inr x) w1
      | _ => True
      end.

  Lemma loop_found n body fs : step_ok n body -> forall e w r w1,
    disp_ref n fs (l_args e) (l_kwargs e) (l_exceptions e) w = DFound r w1 ->
    match r with
    | inl v => exists e', I n (s_for_list set_func fs body e) w = Done (inl (CReturn v, e')) w1 /\ l_old_state e' = l_old_state e
    | inr x => I n (s_for_list set_func fs body e) w = Done (inr x) w1
    end.
  Proof.
    intro Hs. induction fs as [|f t IH]; intros e w r w1 H; [discriminate|].
    cbn [disp_ref] in H. specialize (Hs f e w).
    destruct (I n (call_decorated f (l_args e) (l_kwargs e)) w) as [[v|x] w2|? ? ?|] eqn:E; try discriminate.
    - inversion H; subst. exists (set_func f e). split; [|reflexivity].
      cbn [s_for_list]. erewrite interp_bind_done by exact Hs. apply interp_ret.
    - destruct (mismatch f x) eqn:Em.
      + cbn [s_for_list]. 
        set (e2 := set_exceptions (l_exceptions e ++ [x])%list (set_contracts (co f) (set_exc x (set_func f e)))) in *.
        specialize (IH e2 w2 r w1 H).
        destruct r as [v|y].
        * destruct IH as (e' & H1 & H2). exists e'. split; [|exact H2].
          erewrite interp_bind_done by exact Hs. exact H1.
        * erewrite interp_bind_done by exact Hs. exact IH.
      + inversion H; subst. cbn [s_for_list]. erewrite interp_bind_raise by exact Hs. reflexivity.
  Qed.
  Lemma loop_none n body fs : step_ok n body -> forall e w acc w1,
    disp_ref n fs (l_args e) (l_kwargs e) (l_exceptions e) w = DNone acc w1 ->
    exists e', I n (s_for_list set_func fs body e) w = Done (inl (CNormal, e')) w1 /\ l_exceptions e' = acc /\ l_old_state e' = l_old_state e.
  Proof.
    intro Hs. induction fs as [|f t IH]; intros e w acc w1 H.
    - cbn in H. inversion H; subst. exists e. rewrite for_nil. auto.
    - cbn [disp_ref] in H. specialize (Hs f e w).
      destruct (I n (call_decorated f (l_args e) (l_kwargs e)) w) as [[v|x] w2|? ? ?|] eqn:E; try discriminate.
      destruct (mismatch f x) eqn:Em; [|discriminate].
      set (e2 := set_exceptions (l_exceptions e ++ [x])%list (set_contracts (co f) (set_exc x (set_func f e)))) in *.
      destruct (IH e2 w2 acc w1 H) as (e' & H1 & H2 & H3).
      exists e'. split; [|split; [exact H2|exact H3]].
      cbn [s_for_list]. erewrite interp_bind_done by exact Hs. exact H1.
  Qed.

  Definition dbg (b : bool) (w : world) : world := on_st (set_debug b) w.

  Section Main.
    Variables (n : nat) (d : dispatch) (a : pargs) (k : pkwargs) (w : world).
    Let e0 := set_kwargs k (set_args a env0).
    Let e2 := set_old_state (debug (wst w)) (set_exceptions [] e0).

    Lemma head : I n (run co d a k) w = I n (run_body (tail3 co d) e2 VNone) (dbg true w).
    Proof.
      unfold run, body, tail0. fold e0.
      erewrite run_body_seq_normal by (unfold stmt0; apply assign_done; apply interp_ret).
      unfold tail1. erewrite run_body_seq_normal by (unfold stmt1; apply assign_done; apply interp_get).
      unfold tail2. erewrite run_body_seq_normal.
      2:{ unfold stmt2. apply do_done. erewrite interp_bind_done by apply interp_ret. apply interp_modify. }
      reflexivity.
    Qed.
    Lemma fin e w1 : I n (s_do (R:=value) (fun env : env => x__ <- Ret (l_old_state env) ;; modify (set_debug x__)) e) w1
                     = Done (inl (CNormal, e)) (dbg (l_old_state e) w1).
    Proof. apply do_done. erewrite interp_bind_done by apply interp_ret. apply interp_modify. Qed.

    Lemma generated_step : forall body,
      body = s_try (s_return (fun env : env => call_decorated (l_func env) (l_args env) (l_kwargs env)))
               [(H_PreContractError, Some set_exc, fun cur0 : exn =>
                   s_seq (s_assign set_contracts (fun env => Ret (co (l_func env))))
                   (s_seq (s_if (fun env => Ret (opt_is_none (l_contracts env))) (s_raise_exn cur0) s_skip)
                   (s_seq (s_if (fun env => Ret (negb (origin_is (l_exc env) (l_contracts env)))) (s_raise_exn cur0) s_skip)
                          (s_assign set_exceptions (fun env => Ret (l_exceptions env ++ [l_exc env])%list)))))] ->
      step_ok n body.
    Proof.
      intros body ->. intros f e w0.
      destruct (I n (call_decorated f (l_args e) (l_kwargs e)) w0) as [[v|x] w1|? ? ?|] eqn:E; try (exact Logic.I).
      - unfold s_try. apply interp_try_except_ret. apply return_done. exact E.
      - unfold s_try. erewrite interp_try_except_raise by (apply return_raise; exact E).
        cbn [pick]. unfold mismatch. destruct (H_PreContractError x) eqn:Hp; cbn [andb]; [|reflexivity].
        set (e1 := set_exc x (set_func f e)).
        destruct (opt_is_none (co f)) eqn:Hn; cbn [negb andb].
        + erewrite interp_in_handler_done.
          2:{ erewrite seq_normal by (apply assign_done; apply interp_ret).
              apply seq_raise. erewrite if_done by apply interp_ret. cbn [l_contracts set_contracts]. cbn [l_func e1 set_exc set_func]. rewrite Hn. apply interp_raise. }
          cbn beta iota. unfold chain_ctx, same_exn. rewrite Nat.eqb_refl. reflexivity.
        + destruct (origin_is x (co f)) eqn:Ho.
          * erewrite interp_in_handler_done.
            2:{ erewrite seq_normal by (apply assign_done; apply interp_ret).
                erewrite seq_normal.
                2:{ erewrite if_done by apply interp_ret. cbn [l_contracts set_contracts l_func e1 set_exc set_func]. rewrite Hn. apply interp_ret. }
                erewrite seq_normal.
                2:{ erewrite if_done by apply interp_ret. cbn [l_contracts set_contracts l_exc l_func e1 set_exc set_func]. rewrite Ho. apply interp_ret. }
                apply assign_done. apply interp_ret. }
            reflexivity.
          * erewrite interp_in_handler_done.
            2:{ erewrite seq_normal by (apply assign_done; apply interp_ret).
                erewrite seq_normal.
                2:{ erewrite if_done by apply interp_ret. cbn [l_contracts set_contracts l_func e1 set_exc set_func]. rewrite Hn. apply interp_ret. }
                apply seq_raise. erewrite if_done by apply interp_ret. cbn [l_contracts set_contracts l_exc l_func e1 set_exc set_func]. rewrite Ho. apply interp_raise. }
            cbn beta iota. unfold chain_ctx, same_exn. rewrite Nat.eqb_refl. reflexivity.
    Qed.

    Theorem dispatch_found r w1 :
      disp_ref n (d_functions d) a k [] (dbg true w) = DFound r w1 ->
      I n (run co d a k) w = Done r (dbg (debug (wst w)) w1).
    Proof.
      intro H. rewrite head. unfold tail3, stmt3.
      pose proof (@loop_found n _ (d_functions d) (generated_step eq_refl) e2 (dbg true w) r w1 H) as L.
      destruct r as [v|x].
      - destruct L as (e' & L & Hos).
        apply run_body_seq_return with (e1 := e'). 
        erewrite finally_done by (unfold s_for; exact L). cbn beta iota.
        erewrite interp_bind_done by apply fin. rewrite Hos. apply interp_ret.
      - apply run_body_seq_raise.
        erewrite finally_done by (unfold s_for; exact L). cbn beta iota.
        erewrite interp_bind_done.
        2:{ erewrite interp_in_handler_done by apply fin. reflexivity. }
        apply interp_raise.
    Qed.

    Theorem dispatch_no_match acc w1 :
      disp_ref n (d_functions d) a k [] (dbg true w) = DNone acc w1 ->
      exists x w', I n (run co d a k) w = Done (inr x) w' /\
                   cls_eqb (e_cls x) NoMatchErrorC = true /\
                   e_args x = [VTuple (map (fun y => match e_deal y with Some dd => match d_origin dd with Some f => VStr f | None => VNone end | None => VNone end) acc)] /\
                   debug (wst w') = debug (wst w).
    Proof.
      intro H. rewrite head. unfold tail3, stmt3.
      destruct (@loop_none n _ (d_functions d) (generated_step eq_refl) e2 (dbg true w) acc w1 H) as (e' & L & Hacc & Hos).
      eexists; eexists. split.
      - erewrite run_body_seq_normal.
        2:{ erewrite finally_done by (unfold s_for; exact L). cbn beta iota.
            erewrite interp_bind_done by apply fin. apply interp_ret. }
        unfold tail4. apply run_body_seq_raise. unfold stmt4, s_raise.
        erewrite interp_bind_done by (unfold new_no_match; apply interp_act). apply interp_raise.
      - cbn. rewrite Hacc, Hos. repeat split; reflexivity.
    Qed.
  End Main.
End D.
