(* Thm/C04/Effects.v -- what an effect does on a real / patched stream (the user-level model of print, sys.stderr.write,
   socket.socket()) *)
From Coq Require Import List ZArith Bool String.
Import ListNotations.
Require Import Base Prog Sig Interp InterpFacts Model HasPatcher Scenario.
Open Scope string_scope.

Section Effects.
  Variable ftab : fid -> option fdef.
  Notation I := (interp ftab).
  Theorem effect_allowed n k w :
    stream_of k (wst w) = Real -> I n (do_effect k) w = Done (inl tt) (on_st (emit (EvEffect k)) w).
  Proof.
    intro H. unfold do_effect. erewrite interp_bind_done by apply interp_get. rewrite H. apply interp_log.
  Qed.
  Theorem effect_blocked n k w id x :
    stream_of k (wst w) = Patched id x ->
    exists e w', I n (do_effect k) w = Done (inr e) w' /\ cls_eqb (e_cls e) (exc_class x) = true.
  Proof.
    intro H. unfold do_effect. erewrite interp_bind_done by apply interp_get. rewrite H.
    erewrite interp_bind_done by apply interp_log. unfold raise_spec.
    destruct x as [c|c a].
    - destruct (subclass_of c "ContractError") eqn:Ec.
      + eexists; eexists. split.
        * erewrite interp_bind_done by (unfold new_contract_error; apply interp_act). apply interp_raise.
        * cbn. apply String.eqb_refl.
      + eexists; eexists. split.
        * erewrite interp_bind_done by (unfold new_exception; apply interp_act). apply interp_raise.
        * cbn. apply String.eqb_refl.
    - eexists; eexists. split; [apply interp_raise|]. destruct (subclass_of c "ContractError"); cbn; apply String.eqb_refl.
  Qed.
End Effects.
