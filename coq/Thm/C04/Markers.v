(* Thm/C04/Markers.v -- the marker implication table is the same at runtime (has_* predicates generated from
   _has_patcher.py), in the linter (CheckMarkers.get_undeclared, generated from _rules.py) and in the documentation (table and
   runtime bullets parsed from docs/basic/side-effects.md), for every marker set, custom markers included; and what patching does
   to the three streams, as a function of the marker set. *)
From Coq Require Import List ZArith Bool String Lia.
Import ListNotations.
Require Import Base Prog Sig Interp InterpFacts Model HasPatcher Rules PatchFacts PatchBracket.
Open Scope string_scope.

(* the reference table of the property: a marker is covered by itself, by io if it is an I/O sub-marker (the "--" rows of the
   documented table), and by its alias *)
Definition ALIASES : list (string * string) := [("stdin", "input"); ("stdout", "print"); ("network", "socket"); ("global", "nonlocal")].
Definition doc_is_io_child (m : string) : bool :=
  existsb (fun r => String.eqb (fst (fst r)) m && snd r) DOC_MARKERS.
Definition spec_covers (M : list string) (m : string) : bool :=
  has_marker m M || (doc_is_io_child m && has_marker "io" M) ||
  existsb (fun al => String.eqb (fst al) m && has_marker (snd al) M) ALIASES.
Definition doc_markers : list string := map (fun r => fst (fst r)) DOC_MARKERS.

Ltac atoms M :=
  repeat match goal with
         | |- context [has_marker ?x M] => is_var M; let b := fresh "b" in destruct (has_marker x M) eqn:b
         end.

(* linter = reference, for every documented marker except the pseudo-marker io *)
Theorem linter_table M m : In m doc_markers -> m <> "io" -> linter_covers M m = spec_covers M m.
Proof.
  intros Hin Hio. unfold doc_markers in Hin. cbn in Hin.
  repeat (destruct Hin as [<-|Hin]; [try (exfalso; apply Hio; reflexivity);
    unfold linter_covers, spec_covers, doc_is_io_child; cbn;
    unfold has_network, has_stdout, has_stderr, has_global, has_read, has_stdin, has_syscall, has_write;
    atoms M; reflexivity|]).
  destruct Hin.
Qed.

(* runtime predicates = reference *)
Theorem runtime_table M :
  has_stdout M = spec_covers M "stdout" /\ has_stderr M = spec_covers M "stderr" /\ has_network M = spec_covers M "network".
Proof.
  unfold has_stdout, has_stderr, has_network, spec_covers, doc_is_io_child. cbn. atoms M; repeat split; reflexivity.
Qed.

(* the "Runtime" bullets of the documentation = runtime predicates *)
Definition doc_allows (M : list string) (what : string) : bool :=
  match lookup what DOC_RUNTIME with Some l => existsb (fun a => has_marker a M) l | None => false end.
Theorem doc_runtime_bullets M :
  doc_allows M "stdout" = has_stdout M /\ doc_allows M "stderr" = has_stderr M /\ doc_allows M "network" = has_network M.
Proof.
  unfold doc_allows, has_stdout, has_stderr, has_network. cbn. atoms M; repeat split; reflexivity.
Qed.

(* every marker the linter has a code for is documented with that code, and conversely *)
Theorem codes_documented :
  map (fun r => (fst (fst r), snd (fst r))) DOC_MARKERS = MARKER_CODES.
Proof. reflexivity. Qed.

(* ---------- what patching does, as a function of the marker set (outermost use) ---------- *)
Theorem patched_iff p s :
  depth (p_id p) s = 0 -> s_out s = Real -> s_err s = Real -> s_sock s = Real ->
  is_real (s_out (patch_st p s)) = has_stdout (p_markers p) /\
  is_real (s_err (patch_st p s)) = has_stderr (p_markers p) /\
  is_real (s_sock (patch_st p s)) = has_network (p_markers p).
Proof.
  intros Hd Ho He Hs. unfold depth in Hd. unfold patch_st. cbv zeta. unfold bump_depth. rewrite !get_put_same. rewrite Hd.
  cbn [Nat.ltb Nat.leb slot_depth sv_depth].
  destruct (has_network (p_markers p)), (has_stdout (p_markers p)), (has_stderr (p_markers p)); cbn; rewrite ?Ho, ?He, ?Hs; repeat split; reflexivity.
Qed.
(* and which error a blocked effect raises: the documented default, the default with the configured message, or the
   configured exception *)
Theorem patched_error p s :
  depth (p_id p) s = 0 ->
  (has_stdout (p_markers p) = false -> s_out (patch_st p s) = Patched (p_id p) (get_exception_spec p SilentContractErrorC)) /\
  (has_stderr (p_markers p) = false -> s_err (patch_st p s) = Patched (p_id p) (get_exception_spec p SilentContractErrorC)) /\
  (has_network (p_markers p) = false -> s_sock (patch_st p s) = Patched (p_id p) (get_exception_spec p OfflineContractErrorC)).
Proof.
  intros Hd. unfold depth in Hd. unfold patch_st. cbv zeta. unfold bump_depth. rewrite !get_put_same. rewrite Hd.
  cbn [Nat.ltb Nat.leb slot_depth sv_depth].
  destruct (has_network (p_markers p)), (has_stdout (p_markers p)), (has_stderr (p_markers p)); cbn; repeat split; intro; try discriminate; reflexivity.
Qed.
