(* Thm/C01/Gate.v -- the pre-validation block of the generated wrappers gates the body.
   Stated for every registry, every list of validators (arbitrary user code), all arguments, every world and fuel. *)
From Coq Require Import List ZArith Bool String.
Import ListNotations.
Require Import Base Prog Sig Interp InterpFacts StmtFacts Model Validators HasPatcher Contracts Loops.
Set Implicit Arguments.

Section Gate.
  Variable ftab : fid -> option fdef.
  Notation I := (interp ftab).
  Notation run_pres := (run_vals ftab).


  (* ---------------- _run_sync ---------------- *)
  Section Sync.
    Import RunSync.
    Variables (lf : nat) (c : contracts).

    (* statements 0-1: the switch test and `state.debug = False` *)
    Lemma sync_head n a k w :
      debug (wst w) = true ->
      I n (run lf c a k) w = I n (run_body (tail2 lf c) (set_kwargs k (set_args a env0)) VNone) (dbg false w).
    Proof.
      intro Hd. unfold run, body, tail0, tail1.
      set (e := set_kwargs k (set_args a env0)).
      assert (H0 : I n (stmt0 lf c e) w = Done (inl (CNormal, e)) w).
      { unfold stmt0. erewrite if_done.
        2:{ unfold fmap. erewrite interp_bind_done by apply interp_get. rewrite Hd. apply interp_ret. }
        apply interp_ret. }
      assert (H1 : I n (stmt1 lf c e) w = Done (inl (CNormal, e)) (dbg false w)).
      { unfold stmt1. apply do_done. erewrite interp_bind_done by apply interp_ret. apply interp_modify. }
      erewrite run_body_seq_normal by exact H0. erewrite run_body_seq_normal by exact H1. reflexivity.
    Qed.

    (* the finaliser of the pre block: `state.debug = True` *)
    Lemma sync_fin n e w : I n (s_do (R:=value) (fun _ : env => x__ <- Ret true ;; modify (set_debug x__)) e) w = Done (inl (CNormal, e)) (dbg true w).
    Proof. apply do_done. erewrite interp_bind_done by apply interp_ret. apply interp_modify. Qed.

    Theorem gate_sync_reject n a k w x w1 :
      debug (wst w) = true ->
      run_pres n (c_pres c) a k None (dbg false w) = Done (inr x) w1 ->
      I n (run lf c a k) w = Done (inr x) (dbg true w1).
    Proof.
      intros Hd Hp. rewrite sync_head by exact Hd. unfold tail2.
      apply run_body_seq_raise. unfold stmt2.
      erewrite finally_done.
      2:{ unfold s_for. eapply loop_reject with (getv := l_validator) (geta := l_args) (getk := l_kwargs) (gete := fun _ => None); try reflexivity. exact Hp. }
      cbn beta iota.
      erewrite interp_bind_done.
      2:{ erewrite interp_in_handler_done by apply sync_fin. reflexivity. }
      cbn [fst snd]. apply interp_raise.
    Qed.

    Theorem gate_sync_accept n a k w w1 :
      debug (wst w) = true ->
      run_pres n (c_pres c) a k None (dbg false w) = Done (inl tt) w1 ->
      exists e1, l_args e1 = a /\ l_kwargs e1 = k /\
        I n (run lf c a k) w = I n (run_body (tail3 lf c) e1 VNone) (dbg true w1).
    Proof.
      intros Hd Hp. rewrite sync_head by exact Hd. unfold tail2.
      pose proof (@loop_accept ftab env value set_validator l_validator l_args l_kwargs (fun _ => None)
                  (fun _ _ => eq_refl) (fun _ _ => eq_refl) (fun _ _ => eq_refl) (fun _ _ => eq_refl) n (c_pres c)
                  (set_kwargs k (set_args a env0)) (dbg false w) w1 Hp) as H1.
      exists (after_loop set_validator (c_pres c) (set_kwargs k (set_args a env0))). repeat split.
      { rewrite (after_loop_a set_validator l_args (fun _ _ => eq_refl)). reflexivity. }
      { rewrite (after_loop_k set_validator l_kwargs (fun _ _ => eq_refl)). reflexivity. }
      erewrite run_body_seq_normal; [reflexivity|].
      unfold stmt2. erewrite finally_done by (unfold s_for; exact H1). cbn beta iota.
      erewrite interp_bind_done by apply sync_fin. apply interp_ret.
    Qed.

    Theorem gate_sync_oof n a k w :
      debug (wst w) = true ->
      run_pres n (c_pres c) a k None (dbg false w) = OutOfFuel -> I n (run lf c a k) w = OutOfFuel.
    Proof.
      intros Hd Hp. rewrite sync_head by exact Hd. unfold tail2. apply run_body_seq_oof. unfold stmt2.
      apply finally_oof. unfold s_for.
      eapply loop_oof with (getv := l_validator) (geta := l_args) (getk := l_kwargs) (gete := fun _ => None); try reflexivity. exact Hp.
    Qed.

    (* contracts disabled: the wrapper is exactly the original call; no validator, no patch event *)
    Theorem disabled_sync n a k w r w1 :
      debug (wst w) = false ->
      I n (call_func (c_func c) a k) w = Done r w1 -> I n (run lf c a k) w = Done r w1.
    Proof.
      intros Hd E. unfold run, body, tail0.
      set (e := set_kwargs k (set_args a env0)).
      assert (Hc : I n (fmap negb (get debug)) w = Done (inl true) w).
      { unfold fmap. erewrite interp_bind_done by apply interp_get. rewrite Hd. apply interp_ret. }
      destruct r as [v|x].
      - apply run_body_seq_return with (e1 := e). unfold stmt0. erewrite if_done by exact Hc.
        apply return_done. exact E.
      - apply run_body_seq_raise. unfold stmt0. erewrite if_done by exact Hc.
        apply return_raise. exact E.
    Qed.
  End Sync.
  (* ---------------- _run_async ---------------- *)
  Section Async.
    Import RunAsync.
    Variables (lf : nat) (c : contracts).

    (* statements 0-1: the switch test and `state.debug = False` *)
    Lemma async_head n a k w :
      debug (wst w) = true ->
      I n (run lf c a k) w = I n (run_body (tail2 lf c) (set_kwargs k (set_args a env0)) VNone) (dbg false w).
    Proof.
      intro Hd. unfold run, body, tail0, tail1.
      set (e := set_kwargs k (set_args a env0)).
      assert (H0 : I n (stmt0 lf c e) w = Done (inl (CNormal, e)) w).
      { unfold stmt0. erewrite if_done.
        2:{ unfold fmap. erewrite interp_bind_done by apply interp_get. rewrite Hd. apply interp_ret. }
        apply interp_ret. }
      assert (H1 : I n (stmt1 lf c e) w = Done (inl (CNormal, e)) (dbg false w)).
      { unfold stmt1. apply do_done. erewrite interp_bind_done by apply interp_ret. apply interp_modify. }
      erewrite run_body_seq_normal by exact H0. erewrite run_body_seq_normal by exact H1. reflexivity.
    Qed.

    (* the finaliser of the pre block: `state.debug = True` *)
    Lemma async_fin n e w : I n (s_do (R:=value) (fun _ : env => x__ <- Ret true ;; modify (set_debug x__)) e) w = Done (inl (CNormal, e)) (dbg true w).
    Proof. apply do_done. erewrite interp_bind_done by apply interp_ret. apply interp_modify. Qed.

    Theorem gate_async_reject n a k w x w1 :
      debug (wst w) = true ->
      run_pres n (c_pres c) a k None (dbg false w) = Done (inr x) w1 ->
      I n (run lf c a k) w = Done (inr x) (dbg true w1).
    Proof.
      intros Hd Hp. rewrite async_head by exact Hd. unfold tail2.
      apply run_body_seq_raise. unfold stmt2.
      erewrite finally_done.
      2:{ unfold s_for. eapply loop_reject with (getv := l_validator) (geta := l_args) (getk := l_kwargs) (gete := fun _ => None); try reflexivity. exact Hp. }
      cbn beta iota.
      erewrite interp_bind_done.
      2:{ erewrite interp_in_handler_done by apply async_fin. reflexivity. }
      cbn [fst snd]. apply interp_raise.
    Qed.

    Theorem gate_async_accept n a k w w1 :
      debug (wst w) = true ->
      run_pres n (c_pres c) a k None (dbg false w) = Done (inl tt) w1 ->
      exists e1, l_args e1 = a /\ l_kwargs e1 = k /\
        I n (run lf c a k) w = I n (run_body (tail3 lf c) e1 VNone) (dbg true w1).
    Proof.
      intros Hd Hp. rewrite async_head by exact Hd. unfold tail2.
      pose proof (@loop_accept ftab env value set_validator l_validator l_args l_kwargs (fun _ => None)
                  (fun _ _ => eq_refl) (fun _ _ => eq_refl) (fun _ _ => eq_refl) (fun _ _ => eq_refl) n (c_pres c)
                  (set_kwargs k (set_args a env0)) (dbg false w) w1 Hp) as H1.
      exists (after_loop set_validator (c_pres c) (set_kwargs k (set_args a env0))). repeat split.
      { rewrite (after_loop_a set_validator l_args (fun _ _ => eq_refl)). reflexivity. }
      { rewrite (after_loop_k set_validator l_kwargs (fun _ _ => eq_refl)). reflexivity. }
      erewrite run_body_seq_normal; [reflexivity|].
      unfold stmt2. erewrite finally_done by (unfold s_for; exact H1). cbn beta iota.
      erewrite interp_bind_done by apply async_fin. apply interp_ret.
    Qed.

    Theorem gate_async_oof n a k w :
      debug (wst w) = true ->
      run_pres n (c_pres c) a k None (dbg false w) = OutOfFuel -> I n (run lf c a k) w = OutOfFuel.
    Proof.
      intros Hd Hp. rewrite async_head by exact Hd. unfold tail2. apply run_body_seq_oof. unfold stmt2.
      apply finally_oof. unfold s_for.
      eapply loop_oof with (getv := l_validator) (geta := l_args) (getk := l_kwargs) (gete := fun _ => None); try reflexivity. exact Hp.
    Qed.

    (* contracts disabled: the wrapper is exactly the original call; no validator, no patch event *)
    Theorem disabled_async n a k w r w1 :
      debug (wst w) = false ->
      I n (call_func (c_func c) a k) w = Done r w1 -> I n (run lf c a k) w = Done r w1.
    Proof.
      intros Hd E. unfold run, body, tail0.
      set (e := set_kwargs k (set_args a env0)).
      assert (Hc : I n (fmap negb (get debug)) w = Done (inl true) w).
      { unfold fmap. erewrite interp_bind_done by apply interp_get. rewrite Hd. apply interp_ret. }
      destruct r as [v|x].
      - apply run_body_seq_return with (e1 := e). unfold stmt0. erewrite if_done by exact Hc.
        apply return_done. exact E.
      - apply run_body_seq_raise. unfold stmt0. erewrite if_done by exact Hc.
        apply return_raise. exact E.
    Qed.
  End Async.
  (* ---------------- _run_iter ---------------- *)
  Section Iter.
    Import RunIter.
    Variables (lf : nat) (c : contracts).

    (* statements 0-1: the switch test and `state.debug = False` *)
    Lemma iter_head n a k w :
      debug (wst w) = true ->
      I n (run lf c a k) w = I n (run_body (tail2 lf c) (set_kwargs k (set_args a env0)) VNone) (dbg false w).
    Proof.
      intro Hd. unfold run, body, tail0, tail1.
      set (e := set_kwargs k (set_args a env0)).
      assert (H0 : I n (stmt0 lf c e) w = Done (inl (CNormal, e)) w).
      { unfold stmt0. erewrite if_done.
        2:{ unfold fmap. erewrite interp_bind_done by apply interp_get. rewrite Hd. apply interp_ret. }
        apply interp_ret. }
      assert (H1 : I n (stmt1 lf c e) w = Done (inl (CNormal, e)) (dbg false w)).
      { unfold stmt1. apply do_done. erewrite interp_bind_done by apply interp_ret. apply interp_modify. }
      erewrite run_body_seq_normal by exact H0. erewrite run_body_seq_normal by exact H1. reflexivity.
    Qed.

    (* the finaliser of the pre block: `state.debug = True` *)
    Lemma iter_fin n e w : I n (s_do (R:=value) (fun _ : env => x__ <- Ret true ;; modify (set_debug x__)) e) w = Done (inl (CNormal, e)) (dbg true w).
    Proof. apply do_done. erewrite interp_bind_done by apply interp_ret. apply interp_modify. Qed.

    Theorem gate_iter_reject n a k w x w1 :
      debug (wst w) = true ->
      run_pres n (c_pres c) a k None (dbg false w) = Done (inr x) w1 ->
      I n (run lf c a k) w = Done (inr x) (dbg true w1).
    Proof.
      intros Hd Hp. rewrite iter_head by exact Hd. unfold tail2.
      apply run_body_seq_raise. unfold stmt2.
      erewrite finally_done.
      2:{ unfold s_for. eapply loop_reject with (getv := l_validator) (geta := l_args) (getk := l_kwargs) (gete := fun _ => None); try reflexivity. exact Hp. }
      cbn beta iota.
      erewrite interp_bind_done.
      2:{ erewrite interp_in_handler_done by apply iter_fin. reflexivity. }
      cbn [fst snd]. apply interp_raise.
    Qed.

    Theorem gate_iter_accept n a k w w1 :
      debug (wst w) = true ->
      run_pres n (c_pres c) a k None (dbg false w) = Done (inl tt) w1 ->
      exists e1, l_args e1 = a /\ l_kwargs e1 = k /\
        I n (run lf c a k) w = I n (run_body (tail3 lf c) e1 VNone) (dbg true w1).
    Proof.
      intros Hd Hp. rewrite iter_head by exact Hd. unfold tail2.
      pose proof (@loop_accept ftab env value set_validator l_validator l_args l_kwargs (fun _ => None)
                  (fun _ _ => eq_refl) (fun _ _ => eq_refl) (fun _ _ => eq_refl) (fun _ _ => eq_refl) n (c_pres c)
                  (set_kwargs k (set_args a env0)) (dbg false w) w1 Hp) as H1.
      exists (after_loop set_validator (c_pres c) (set_kwargs k (set_args a env0))). repeat split.
      { rewrite (after_loop_a set_validator l_args (fun _ _ => eq_refl)). reflexivity. }
      { rewrite (after_loop_k set_validator l_kwargs (fun _ _ => eq_refl)). reflexivity. }
      erewrite run_body_seq_normal; [reflexivity|].
      unfold stmt2. erewrite finally_done by (unfold s_for; exact H1). cbn beta iota.
      erewrite interp_bind_done by apply iter_fin. apply interp_ret.
    Qed.

    Theorem gate_iter_oof n a k w :
      debug (wst w) = true ->
      run_pres n (c_pres c) a k None (dbg false w) = OutOfFuel -> I n (run lf c a k) w = OutOfFuel.
    Proof.
      intros Hd Hp. rewrite iter_head by exact Hd. unfold tail2. apply run_body_seq_oof. unfold stmt2.
      apply finally_oof. unfold s_for.
      eapply loop_oof with (getv := l_validator) (geta := l_args) (getk := l_kwargs) (gete := fun _ => None); try reflexivity. exact Hp.
    Qed.

  End Iter.
End Gate.
