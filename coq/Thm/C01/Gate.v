(* Thm/C01/Gate.v -- the pre-validation block of the generated wrappers gates the body.
   Stated for every registry, every list of validators (arbitrary user code), all arguments, every world and fuel. *)
From Coq Require Import List ZArith Bool String.
Import ListNotations.
Require Import Base Prog Sig Interp InterpFacts StmtFacts Model Validators HasPatcher Contracts.
Set Implicit Arguments.

Section Gate.
  Variable ftab : fid -> option fdef.
  Notation I := (interp ftab).

  (* reference semantics of "run the preconditions in application order, stop at the first that does not accept" *)
  Fixpoint run_pres (n : nat) (l : list validator) (a : pargs) (k : pkwargs) (w : world) : res unit :=
    match l with
    | [] => Done (inl tt) w
    | v :: t => match I n (validate v a k None) w with
                | Done (inl _) w1 => run_pres n t a k w1
                | Done (inr e) w1 => Done (inr e) w1
                | Susp x kk w1 => Susp x kk w1
                | OutOfFuel => OutOfFuel
                end
    end.

  (* the generated loop `for validator in self.pres: validator.validate(args, kwargs)`, for any locals record *)
  Section Loop.
    Variables (env R : Type) (setv : validator -> env -> env) (getv : env -> validator) (geta : env -> pargs) (getk : env -> pkwargs).
    Hypothesis getv_set : forall v e, getv (setv v e) = v.
    Hypothesis geta_set : forall v e, geta (setv v e) = geta e.
    Hypothesis getk_set : forall v e, getk (setv v e) = getk e.
    Let body : stmt env R := s_do (fun e => validate (getv e) (geta e) (getk e) None).

    Lemma loop_accept n l : forall e w w1,
      run_pres n l (geta e) (getk e) w = Done (inl tt) w1 ->
      exists e1, I n (s_for_list setv l body e) w = Done (inl (CNormal, e1)) w1 /\ geta e1 = geta e /\ getk e1 = getk e.
    Proof.
      induction l as [|v t IH]; intros e w w1 H.
      - cbn in H. inversion H; subst. exists e. rewrite for_nil. auto.
      - cbn [run_pres] in H.
        destruct (I n (validate v (geta e) (getk e) None) w) as [[[]|x] w2|? ? w2|] eqn:E; try discriminate.
        assert (Hb : I n (body (setv v e)) w = Done (inl (CNormal, setv v e)) w2).
        { unfold body. apply do_done. rewrite getv_set, geta_set, getk_set. exact E. }
        erewrite for_cons_normal by exact Hb.
        destruct (IH (setv v e) w2 w1) as (e1 & H1 & H2 & H3).
        { rewrite geta_set, getk_set. exact H. }
        exists e1. rewrite H2, H3, geta_set, getk_set. auto.
    Qed.
    Lemma loop_reject n l : forall e w x w1,
      run_pres n l (geta e) (getk e) w = Done (inr x) w1 ->
      I n (s_for_list setv l body e) w = Done (inr x) w1.
    Proof.
      induction l as [|v t IH]; intros e w x w1 H.
      - cbn in H. discriminate.
      - cbn [run_pres] in H.
        destruct (I n (validate v (geta e) (getk e) None) w) as [[[]|y] w2|? ? w2|] eqn:E; try discriminate.
        + assert (Hb : I n (body (setv v e)) w = Done (inl (CNormal, setv v e)) w2).
          { unfold body. apply do_done. rewrite getv_set, geta_set, getk_set. exact E. }
          erewrite for_cons_normal by exact Hb. apply IH. rewrite geta_set, getk_set. exact H.
        + inversion H; subst. apply for_cons_raise. unfold body. apply do_raise.
          rewrite getv_set, geta_set, getk_set. exact E.
    Qed.
    Lemma loop_oof n l : forall e w,
      run_pres n l (geta e) (getk e) w = OutOfFuel ->
      I n (s_for_list setv l body e) w = OutOfFuel.
    Proof.
      induction l as [|v t IH]; intros e w H.
      - cbn in H. discriminate.
      - cbn [run_pres] in H.
        destruct (I n (validate v (geta e) (getk e) None) w) as [[[]|y] w2|? ? w2|] eqn:E; try discriminate.
        + assert (Hb : I n (body (setv v e)) w = Done (inl (CNormal, setv v e)) w2).
          { unfold body. apply do_done. rewrite getv_set, geta_set, getk_set. exact E. }
          erewrite for_cons_normal by exact Hb. apply IH. rewrite geta_set, getk_set. exact H.
        + apply for_cons_oof. unfold body. apply do_oof. rewrite getv_set, geta_set, getk_set. exact E.
    Qed.
  End Loop.

  Definition dbg (b : bool) (w : world) : world := on_st (set_debug b) w.

  (* ---------------- _run_sync ---------------- *)
  Section Sync.
    Import RunSync.
    Variables (lf : nat) (c : contracts).

    (* statements 0-1: the switch test and `state.debug = False` *)
    Lemma sync_head n a k w :
      debug (wst w) = true ->
      I n (run lf c a k) w = I n (run_body (tail2 lf c) (set_kwargs k (set_args a env0)) VNone) (dbg false w).
    Proof.
      intro Hd. unfold run, body, tail0, tail1.
      set (e := set_kwargs k (set_args a env0)).
      assert (H0 : I n (stmt0 lf c e) w = Done (inl (CNormal, e)) w).
      { unfold stmt0. erewrite if_done.
        2:{ unfold fmap. erewrite interp_bind_done by apply interp_get. rewrite Hd. apply interp_ret. }
        apply interp_ret. }
      assert (H1 : I n (stmt1 lf c e) w = Done (inl (CNormal, e)) (dbg false w)).
      { unfold stmt1. apply do_done. erewrite interp_bind_done by apply interp_ret. apply interp_modify. }
      erewrite run_body_seq_normal by exact H0. erewrite run_body_seq_normal by exact H1. reflexivity.
    Qed.

    (* the finaliser of the pre block: `state.debug = True` *)
    Lemma sync_fin n e w : I n (s_do (R:=value) (fun _ : env => x__ <- Ret true ;; modify (set_debug x__)) e) w = Done (inl (CNormal, e)) (dbg true w).
    Proof. apply do_done. erewrite interp_bind_done by apply interp_ret. apply interp_modify. Qed.

    Theorem gate_sync_reject n a k w x w1 :
      debug (wst w) = true ->
      run_pres n (c_pres c) a k (dbg false w) = Done (inr x) w1 ->
      I n (run lf c a k) w = Done (inr x) (dbg true w1).
    Proof.
      intros Hd Hp. rewrite sync_head by exact Hd. unfold tail2.
      apply run_body_seq_raise. unfold stmt2.
      erewrite finally_done.
      2:{ unfold s_for. eapply loop_reject with (getv := l_validator) (geta := l_args) (getk := l_kwargs); try reflexivity. exact Hp. }
      cbn beta iota.
      erewrite interp_bind_done.
      2:{ erewrite interp_in_handler_done by apply sync_fin. reflexivity. }
      cbn [fst snd]. apply interp_raise.
    Qed.

    Theorem gate_sync_accept n a k w w1 :
      debug (wst w) = true ->
      run_pres n (c_pres c) a k (dbg false w) = Done (inl tt) w1 ->
      exists e1, l_args e1 = a /\ l_kwargs e1 = k /\
        I n (run lf c a k) w = I n (run_body (tail3 lf c) e1 VNone) (dbg true w1).
    Proof.
      intros Hd Hp. rewrite sync_head by exact Hd. unfold tail2.
      destruct (@loop_accept env value set_validator l_validator l_args l_kwargs
                  (fun _ _ => eq_refl) (fun _ _ => eq_refl) (fun _ _ => eq_refl) n (c_pres c)
                  (set_kwargs k (set_args a env0)) (dbg false w) w1 Hp) as (e1 & H1 & Ha & Hk).
      exists e1. repeat split; [exact Ha|exact Hk|].
      erewrite run_body_seq_normal; [reflexivity|].
      unfold stmt2. erewrite finally_done by (unfold s_for; exact H1). cbn beta iota.
      erewrite interp_bind_done by apply sync_fin. apply interp_ret.
    Qed.

    Theorem gate_sync_oof n a k w :
      debug (wst w) = true ->
      run_pres n (c_pres c) a k (dbg false w) = OutOfFuel -> I n (run lf c a k) w = OutOfFuel.
    Proof.
      intros Hd Hp. rewrite sync_head by exact Hd. unfold tail2. apply run_body_seq_oof. unfold stmt2.
      apply finally_oof. unfold s_for.
      eapply loop_oof with (getv := l_validator) (geta := l_args) (getk := l_kwargs); try reflexivity. exact Hp.
    Qed.

    (* contracts disabled: the wrapper is exactly the original call; no validator, no patch event *)
    Theorem disabled_sync n a k w r w1 :
      debug (wst w) = false ->
      I n (call_func (c_func c) a k) w = Done r w1 -> I n (run lf c a k) w = Done r w1.
    Proof.
      intros Hd E. unfold run, body, tail0.
      set (e := set_kwargs k (set_args a env0)).
      assert (Hc : I n (fmap negb (get debug)) w = Done (inl true) w).
      { unfold fmap. erewrite interp_bind_done by apply interp_get. rewrite Hd. apply interp_ret. }
      destruct r as [v|x].
      - apply run_body_seq_return with (e1 := e). unfold stmt0. erewrite if_done by exact Hc.
        apply return_done. exact E.
      - apply run_body_seq_raise. unfold stmt0. erewrite if_done by exact Hc.
        apply return_raise. exact E.
    Qed.
  End Sync.
  (* ---------------- _run_async ---------------- *)
  Section Async.
    Import RunAsync.
    Variables (lf : nat) (c : contracts).

    (* statements 0-1: the switch test and `state.debug = False` *)
    Lemma async_head n a k w :
      debug (wst w) = true ->
      I n (run lf c a k) w = I n (run_body (tail2 lf c) (set_kwargs k (set_args a env0)) VNone) (dbg false w).
    Proof.
      intro Hd. unfold run, body, tail0, tail1.
      set (e := set_kwargs k (set_args a env0)).
      assert (H0 : I n (stmt0 lf c e) w = Done (inl (CNormal, e)) w).
      { unfold stmt0. erewrite if_done.
        2:{ unfold fmap. erewrite interp_bind_done by apply interp_get. rewrite Hd. apply interp_ret. }
        apply interp_ret. }
      assert (H1 : I n (stmt1 lf c e) w = Done (inl (CNormal, e)) (dbg false w)).
      { unfold stmt1. apply do_done. erewrite interp_bind_done by apply interp_ret. apply interp_modify. }
      erewrite run_body_seq_normal by exact H0. erewrite run_body_seq_normal by exact H1. reflexivity.
    Qed.

    (* the finaliser of the pre block: `state.debug = True` *)
    Lemma async_fin n e w : I n (s_do (R:=value) (fun _ : env => x__ <- Ret true ;; modify (set_debug x__)) e) w = Done (inl (CNormal, e)) (dbg true w).
    Proof. apply do_done. erewrite interp_bind_done by apply interp_ret. apply interp_modify. Qed.

    Theorem gate_async_reject n a k w x w1 :
      debug (wst w) = true ->
      run_pres n (c_pres c) a k (dbg false w) = Done (inr x) w1 ->
      I n (run lf c a k) w = Done (inr x) (dbg true w1).
    Proof.
      intros Hd Hp. rewrite async_head by exact Hd. unfold tail2.
      apply run_body_seq_raise. unfold stmt2.
      erewrite finally_done.
      2:{ unfold s_for. eapply loop_reject with (getv := l_validator) (geta := l_args) (getk := l_kwargs); try reflexivity. exact Hp. }
      cbn beta iota.
      erewrite interp_bind_done.
      2:{ erewrite interp_in_handler_done by apply async_fin. reflexivity. }
      cbn [fst snd]. apply interp_raise.
    Qed.

    Theorem gate_async_accept n a k w w1 :
      debug (wst w) = true ->
      run_pres n (c_pres c) a k (dbg false w) = Done (inl tt) w1 ->
      exists e1, l_args e1 = a /\ l_kwargs e1 = k /\
        I n (run lf c a k) w = I n (run_body (tail3 lf c) e1 VNone) (dbg true w1).
    Proof.
      intros Hd Hp. rewrite async_head by exact Hd. unfold tail2.
      destruct (@loop_accept env value set_validator l_validator l_args l_kwargs
                  (fun _ _ => eq_refl) (fun _ _ => eq_refl) (fun _ _ => eq_refl) n (c_pres c)
                  (set_kwargs k (set_args a env0)) (dbg false w) w1 Hp) as (e1 & H1 & Ha & Hk).
      exists e1. repeat split; [exact Ha|exact Hk|].
      erewrite run_body_seq_normal; [reflexivity|].
      unfold stmt2. erewrite finally_done by (unfold s_for; exact H1). cbn beta iota.
      erewrite interp_bind_done by apply async_fin. apply interp_ret.
    Qed.

    Theorem gate_async_oof n a k w :
      debug (wst w) = true ->
      run_pres n (c_pres c) a k (dbg false w) = OutOfFuel -> I n (run lf c a k) w = OutOfFuel.
    Proof.
      intros Hd Hp. rewrite async_head by exact Hd. unfold tail2. apply run_body_seq_oof. unfold stmt2.
      apply finally_oof. unfold s_for.
      eapply loop_oof with (getv := l_validator) (geta := l_args) (getk := l_kwargs); try reflexivity. exact Hp.
    Qed.

    (* contracts disabled: the wrapper is exactly the original call; no validator, no patch event *)
    Theorem disabled_async n a k w r w1 :
      debug (wst w) = false ->
      I n (call_func (c_func c) a k) w = Done r w1 -> I n (run lf c a k) w = Done r w1.
    Proof.
      intros Hd E. unfold run, body, tail0.
      set (e := set_kwargs k (set_args a env0)).
      assert (Hc : I n (fmap negb (get debug)) w = Done (inl true) w).
      { unfold fmap. erewrite interp_bind_done by apply interp_get. rewrite Hd. apply interp_ret. }
      destruct r as [v|x].
      - apply run_body_seq_return with (e1 := e). unfold stmt0. erewrite if_done by exact Hc.
        apply return_done. exact E.
      - apply run_body_seq_raise. unfold stmt0. erewrite if_done by exact Hc.
        apply return_raise. exact E.
    Qed.
  End Async.
  (* ---------------- _run_iter ---------------- *)
  Section Iter.
    Import RunIter.
    Variables (lf : nat) (c : contracts).

    (* statements 0-1: the switch test and `state.debug = False` *)
    Lemma iter_head n a k w :
      debug (wst w) = true ->
      I n (run lf c a k) w = I n (run_body (tail2 lf c) (set_kwargs k (set_args a env0)) VNone) (dbg false w).
    Proof.
      intro Hd. unfold run, body, tail0, tail1.
      set (e := set_kwargs k (set_args a env0)).
      assert (H0 : I n (stmt0 lf c e) w = Done (inl (CNormal, e)) w).
      { unfold stmt0. erewrite if_done.
        2:{ unfold fmap. erewrite interp_bind_done by apply interp_get. rewrite Hd. apply interp_ret. }
        apply interp_ret. }
      assert (H1 : I n (stmt1 lf c e) w = Done (inl (CNormal, e)) (dbg false w)).
      { unfold stmt1. apply do_done. erewrite interp_bind_done by apply interp_ret. apply interp_modify. }
      erewrite run_body_seq_normal by exact H0. erewrite run_body_seq_normal by exact H1. reflexivity.
    Qed.

    (* the finaliser of the pre block: `state.debug = True` *)
    Lemma iter_fin n e w : I n (s_do (R:=value) (fun _ : env => x__ <- Ret true ;; modify (set_debug x__)) e) w = Done (inl (CNormal, e)) (dbg true w).
    Proof. apply do_done. erewrite interp_bind_done by apply interp_ret. apply interp_modify. Qed.

    Theorem gate_iter_reject n a k w x w1 :
      debug (wst w) = true ->
      run_pres n (c_pres c) a k (dbg false w) = Done (inr x) w1 ->
      I n (run lf c a k) w = Done (inr x) (dbg true w1).
    Proof.
      intros Hd Hp. rewrite iter_head by exact Hd. unfold tail2.
      apply run_body_seq_raise. unfold stmt2.
      erewrite finally_done.
      2:{ unfold s_for. eapply loop_reject with (getv := l_validator) (geta := l_args) (getk := l_kwargs); try reflexivity. exact Hp. }
      cbn beta iota.
      erewrite interp_bind_done.
      2:{ erewrite interp_in_handler_done by apply iter_fin. reflexivity. }
      cbn [fst snd]. apply interp_raise.
    Qed.

    Theorem gate_iter_accept n a k w w1 :
      debug (wst w) = true ->
      run_pres n (c_pres c) a k (dbg false w) = Done (inl tt) w1 ->
      exists e1, l_args e1 = a /\ l_kwargs e1 = k /\
        I n (run lf c a k) w = I n (run_body (tail3 lf c) e1 VNone) (dbg true w1).
    Proof.
      intros Hd Hp. rewrite iter_head by exact Hd. unfold tail2.
      destruct (@loop_accept env value set_validator l_validator l_args l_kwargs
                  (fun _ _ => eq_refl) (fun _ _ => eq_refl) (fun _ _ => eq_refl) n (c_pres c)
                  (set_kwargs k (set_args a env0)) (dbg false w) w1 Hp) as (e1 & H1 & Ha & Hk).
      exists e1. repeat split; [exact Ha|exact Hk|].
      erewrite run_body_seq_normal; [reflexivity|].
      unfold stmt2. erewrite finally_done by (unfold s_for; exact H1). cbn beta iota.
      erewrite interp_bind_done by apply iter_fin. apply interp_ret.
    Qed.

    Theorem gate_iter_oof n a k w :
      debug (wst w) = true ->
      run_pres n (c_pres c) a k (dbg false w) = OutOfFuel -> I n (run lf c a k) w = OutOfFuel.
    Proof.
      intros Hd Hp. rewrite iter_head by exact Hd. unfold tail2. apply run_body_seq_oof. unfold stmt2.
      apply finally_oof. unfold s_for.
      eapply loop_oof with (getv := l_validator) (geta := l_args) (getk := l_kwargs); try reflexivity. exact Hp.
    Qed.

  End Iter.
End Gate.
