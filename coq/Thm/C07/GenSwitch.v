(* Thm/C07/GenSwitch.v -- finding C07-F1 on the model regenerated from Contracts._run_iter: a contracted generator that got going while
   contracts were enabled ignores deal.disable(): the next step still evaluates the post validator (event V 1), raises its violation
   and leaves the switch ON (snapshot S 1....) although the last effective switch call was disable (snapshot S 0.... just before).
   The same scenario runs against the real code in the C07 family (probe check_generator_across_switch). *)
From Coq Require Import List ZArith String.
Import ListNotations.
From Deal Require Import Base Prog Sig Interp Model Show ScnSwitch Scenario.
Open Scope string_scope. Open Scope Z_scope.

Definition g_post : sfun :=
  {| sf_name := "g"; sf_kind := KGen; sf_sig := [];
     sf_stack := [(CPost {| sv_id := 1%nat; sv_sig := [{| p_name := "r"; p_kind := PosOrKw; p_default := None |}];
                            sv_expr := (EBin OGt (EConst (VInt (100))) (EVar "r")); sv_msg := VNone; sv_exc := None |})];
     sf_body := [(BYield (EConst (VInt (1)))); (BYield (EConst (VInt (500)))); (BReturn (EConst (VInt (0))))] |}.
Definition across_disable : scenario :=
  {| sc_funs := [g_post]; sc_dispatch := [];
     sc_driver := [(AGenNew 0%nat "g" [] []); (ANext 0%nat); (ASwitch ODisable); (ANext 0%nat)] |}.
Lemma running_generator_ignores_disable :
  show_scenario across_disable =
  "R g|S 10111|B g {}|V 1 {r:i1}|Y i1|S 10111|R N|S 00111|V 1 {r:i500}|X PostContractError tag=- msg=<> params={r:i500} origin=g cause=- ctx=-|S 10111".
Proof. vm_compute. reflexivity. Qed.
