(* Thm/C07/Switch.v -- the global switch as generated from deal/_state.py refines a two-boolean machine,
   for every history of enable / disable / reset / disable(permament=True) and either value of __debug__. *)
From Coq Require Import List ZArith Bool String Lia.
Import ListNotations.
Require Import Base Prog Interp InterpFacts State ScnSwitch.
Set Implicit Arguments.

(* everything but the two switch booleans *)
Definition rest (w : st) := (s_out w, s_err w, s_sock w, slots w, trace w, next_id w).

Section Switch.
  Variable py_debug : bool.
  Variable ftab : fid -> option fdef.
  Notation I := (interp ftab).

  Notation run_op := (run_op py_debug).
  Notation hist_prog := (hist_prog py_debug).

  (* ----- abstract machine: a pair (debug, removed) ----- *)
  Definition raises (r : bool) (o : op) : bool := match o with ODisable => false | _ => r end.
  Definition next_debug (o : op) : bool :=
    match o with OEnable => true | OReset => py_debug | ODisable | ODisablePerm => false end.
  Definition next_removed (r : bool) (o : op) : bool := match o with ODisablePerm => true | _ => r end.

  Definition step_spec (s : st) (o : op) : (unit + exn) * st :=
    if raises (removed s) o then (inr PERMAMENT_ERROR, s)
    else (inl tt, let s1 := set_debug (next_debug o) s in
                  match o with ODisablePerm => set_removed true s1 | _ => s1 end).

  (* one step: the generated code does exactly what the abstract machine says and touches nothing else *)
  Lemma step_refines_simple warn o s : run_simple (run_op warn o) s = Some (step_spec s o).
  Proof.
    unfold step_spec. destruct o; cbn; destruct (removed s) eqn:Hr; cbn; try rewrite Hr; try reflexivity;
      destruct warn; cbn; try rewrite Hr; try reflexivity; destruct py_debug; reflexivity.
  Qed.

  (* ----- histories ----- *)
  Fixpoint hist_spec (s : st) (h : list op) : list (unit + exn) * st :=
    match h with
    | [] => ([], s)
    | o :: t => let (r, s1) := step_spec s o in let (rs, s2) := hist_spec s1 t in (r :: rs, s2)
    end.
  Lemma hist_refines_simple h s :
    run_simple (hist_prog h) s = Some (inl (fst (hist_spec s (map snd h))), snd (hist_spec s (map snd h))).
  Proof.
    revert s. induction h as [|[wn o] t IH]; intro s; [reflexivity|].
    cbn [hist_prog map snd hist_spec]. rewrite run_simple_bind, run_simple_catch, step_refines_simple.
    destruct (step_spec s o) as [r s1]. rewrite run_simple_bind, IH.
    destruct (hist_spec s1 (map snd t)) as [rs s2]. reflexivity.
  Qed.
  Theorem hist_refines n h s g :
    I n (hist_prog h) {| wst := s; gens := g |} =
    Done (inl (fst (hist_spec s (map snd h)))) {| wst := snd (hist_spec s (map snd h)); gens := g |}.
  Proof. apply run_simple_sound, hist_refines_simple. Qed.

  (* nothing but the two switch booleans ever changes *)
  Lemma step_rest s o : rest (snd (step_spec s o)) = rest s.
  Proof. unfold step_spec. destruct (raises (removed s) o); [reflexivity|]. destruct o; reflexivity. Qed.
  Lemma hist_rest h s : rest (snd (hist_spec s h)) = rest s.
  Proof.
    revert s. induction h as [|o t IH]; intro s; [reflexivity|]. cbn [hist_spec].
    pose proof (step_rest s o) as E. destruct (step_spec s o) as [r s1]. cbn [snd] in E.
    specialize (IH s1). destruct (hist_spec s1 t) as [rs s2]. cbn [snd] in *. congruence.
  Qed.

  Definition is_perm (o : op) := match o with ODisablePerm => true | _ => false end.
  Definition ok (r : unit + exn) := match r with inl _ => true | inr _ => false end.

  (* (a) while no permanent disable has happened, the last switch wins and nothing raises *)
  Lemma last_wins_aux h o s :
    removed s = false -> forallb (fun x => negb (is_perm x)) (h ++ [o]) = true ->
    let (rs, s') := hist_spec s (h ++ [o]) in
    debug s' = next_debug o /\ removed s' = false /\ forallb ok rs = true.
  Proof.
    revert s. induction h as [|x t IH]; intros s Hr Hp.
    - cbn in Hp. destruct o; try discriminate; cbn; unfold step_spec; cbn; rewrite Hr; cbn; auto.
    - cbn [app forallb] in Hp. apply andb_true_iff in Hp. destruct Hp as [Hx Hp].
      cbn [app hist_spec]. unfold step_spec at 1.
      assert (raises (removed s) x = false) as -> by (rewrite Hr; destruct x; reflexivity).
      set (s1 := match x with ODisablePerm => _ | _ => _ end).
      assert (Hr1 : removed s1 = false) by (subst s1; destruct x; try discriminate; exact Hr).
      specialize (IH s1 Hr1 Hp). destruct (hist_spec s1 (t ++ [o])) as [rs s2].
      destruct IH as (A & B & C). cbn [forallb ok]. auto.
  Qed.

  (* (b) once permanently disabled: enable / reset / a second permanent disable raise, forever;
         contracts stay disabled and removed *)
  Lemma permanent_aux h s :
    removed s = true -> debug s = false ->
    let (rs, s') := hist_spec s h in
    debug s' = false /\ removed s' = true /\
    map ok rs = map (fun o => match o with ODisable => true | _ => false end) h /\
    (forall r, In r rs -> ok r = false -> r = inr PERMAMENT_ERROR).
  Proof.
    revert s. induction h as [|x t IH]; intros s Hr Hd; [cbn; repeat split; auto; intros ? []|].
    cbn [hist_spec]. unfold step_spec at 1. rewrite Hr.
    destruct x; cbn [raises].
    - specialize (IH s Hr Hd). destruct (hist_spec s t) as [rs s2]. destruct IH as (A & B & C & D).
      repeat split; auto. { cbn. f_equal. exact C. } intros r [<-|Hin] Hk; auto.
    - assert (Hr1 : removed (set_debug (next_debug ODisable) s) = true) by exact Hr.
      specialize (IH _ Hr1 eq_refl). destruct (hist_spec _ t) as [rs s2]. destruct IH as (A & B & C & D).
      repeat split; auto. { cbn. f_equal. exact C. } intros r [<-|Hin] Hk; [discriminate|auto].
    - specialize (IH s Hr Hd). destruct (hist_spec s t) as [rs s2]. destruct IH as (A & B & C & D).
      repeat split; auto. { cbn. f_equal. exact C. } intros r [<-|Hin] Hk; auto.
    - specialize (IH s Hr Hd). destruct (hist_spec s t) as [rs s2]. destruct IH as (A & B & C & D).
      repeat split; auto. { cbn. f_equal. exact C. } intros r [<-|Hin] Hk; auto.
  Qed.

  (* the permanent disable itself, from any state that is not yet removed *)
  Lemma perm_step s : removed s = false ->
    let (r, s') := step_spec s ODisablePerm in r = inl tt /\ debug s' = false /\ removed s' = true.
  Proof. intro Hr. unfold step_spec. cbn. rewrite Hr. auto. Qed.

  (* the default: a fresh state is enabled iff python does not run optimised *)
  Lemma init_default s :
    exists s', run_simple (run_unit (state_init py_debug) senv0) s = Some (inl tt, s') /\
               debug s' = py_debug /\ removed s' = false /\ rest s' = rest s.
  Proof. eexists. split; [reflexivity|]. cbn. auto. Qed.
End Switch.
