(* Thm/C10/Errors.v -- Validator._exception and Validator.__init__ as generated from _validators.py, in closed form over the
   whole configuration space (class / instance, ContractError subclass or not, returned message or not, errors or not). *)
From Coq Require Import List ZArith Bool String.
Import ListNotations.
Require Import Base Prog Sig Interp InterpFacts Model Validators.
Open Scope string_scope.

(* the message that ends up in the error: the validator-returned text if truthy, else the first argument of a configured
   exception *instance* (the configured `message=` was folded into such an instance by Validator.__init__) *)
Definition effective_message (x : excspec) (returned : value) : value :=
  if truthy returned then returned
  else match x with
       | EInst _ (a :: _) => a
       | _ => returned
       end.

Definition vexception_spec (v : validator) (message errors : value) (params : option pkwargs) (id : nat) : exn :=
  let c := exc_class (v_exception v) in
  let m := effective_message (v_exception v) message in
  if subclass_of c "ContractError" then
    {| e_cls := c; e_id := id;
       e_args := ((if truthy m then [m] else []) ++ (if truthy errors then [errors] else []))%list;
       e_cause := None; e_ctx := None;
       e_deal := Some {| d_message := match (if truthy m then m else VStr "") with VStr s => s | _ => "" end;
                         d_has_errors := truthy errors;
                         d_params := match params with Some p => p | None => [] end;
                         d_origin := v_function v; d_validator := Some (v_id v) |} |}
  else with_id (mk_exn c ((if truthy m then [m] else []) ++ (if truthy errors then [errors] else []))%list) id.

Lemma vexception_simple v message errors params s :
  run_simple (VException.run v message errors params) s = Some (inl (vexception_spec v message errors params (next_id s)), bump s).
Proof.
  unfold vexception_spec, effective_message, VException.run, VException.body, run_body, new_contract_error, new_exception, fresh_exn.
  destruct (v_exception v) as [c|c [|a0 al]]; cbn [exc_class exc_is_instance exc_args first_arg Sig.is_nil];
    destruct (truthy message) eqn:Em; cbn; rewrite ?Em; cbn;
    try (destruct (truthy a0) eqn:Ea; cbn; rewrite ?Ea, ?Em; cbn);
    destruct (subclass_of c "ContractError"); cbn; rewrite ?Em; cbn;
    try rewrite Ea; cbn;
    destruct (truthy errors); cbn; try reflexivity.
Qed.

(* Validator.__init__: a configured message turns an exception *class* into an instance carrying it; an explicitly given
   instance is kept as it is *)
Lemma validator_init_simple message exception s :
  run_simple (ValidatorInit.run message exception) s =
  Some (inl (message, if truthy message && negb (exc_is_instance exception) then EInst (exc_class exception) [message] else exception), s).
Proof.
  unfold ValidatorInit.run, ValidatorInit.body, run_body.
  destruct (truthy message) eqn:Em; destruct (exc_is_instance exception) eqn:Ei; cbn; rewrite ?Em, ?Ei; cbn; rewrite ?Ei; reflexivity.
Qed.

(* ---------- properties of the closed form ---------- *)
Require Import Decorators.
Lemma spec_type v m e p id : e_cls (vexception_spec v m e p id) = exc_class (v_exception v).
Proof. unfold vexception_spec. destruct (subclass_of _ _); reflexivity. Qed.
Lemma spec_identity v m e p id : e_id (vexception_spec v m e p id) = id.
Proof. unfold vexception_spec. destruct (subclass_of _ _); reflexivity. Qed.
(* message precedence *)
Lemma msg_returned x r : truthy r = true -> effective_message x r = r.
Proof. intro H. unfold effective_message. rewrite H. reflexivity. Qed.
Lemma msg_instance c a al r : truthy r = false -> effective_message (EInst c (a :: al)) r = a.
Proof. intro H. unfold effective_message. rewrite H. reflexivity. Qed.
Lemma msg_none c r : truthy r = false -> effective_message (EClass c) r = r.
Proof. intro H. unfold effective_message. rewrite H. reflexivity. Qed.
(* a ContractError subclass carries message, params, origin and validator *)
Lemma spec_deal v m e p id :
  subclass_of (exc_class (v_exception v)) "ContractError" = true ->
  exists d, e_deal (vexception_spec v m e p id) = Some d /\
            d_params d = match p with Some x => x | None => [] end /\ d_origin d = v_function v /\
            d_message d = match effective_message (v_exception v) m with VStr s => s | _ => "" end.
Proof.
  intro H. unfold vexception_spec. rewrite H. eexists. split; [reflexivity|]. cbn. repeat split.
  destruct (truthy (effective_message (v_exception v) m)) eqn:E; [reflexivity|].
  destruct (effective_message (v_exception v) m); try reflexivity. cbn in E.
  destruct (String.eqb s "") eqn:Es; [apply String.eqb_eq in Es; subst; reflexivity|discriminate].
Qed.
(* any other class is built from (message, errors) *)
Lemma spec_plain v m e p id :
  subclass_of (exc_class (v_exception v)) "ContractError" = false ->
  e_args (vexception_spec v m e p id) =
  ((if truthy (effective_message (v_exception v) m) then [effective_message (v_exception v) m] else []) ++ (if truthy e then [e] else []))%list
  /\ e_deal (vexception_spec v m e p id) = None.
Proof. intro H. unfold vexception_spec. rewrite H. split; reflexivity. Qed.

(* the documented default classes are ContractError subclasses, and ContractError is an AssertionError *)
Fixpoint ancestors (fuel : nat) (n : string) : list string :=
  match fuel with
  | O => []
  | S f => match lookup n DEAL_EXCEPTIONS with
           | Some bs => (bs ++ List.concat (map (ancestors f) bs))%list
           | None => []
           end
  end.
Lemma defaults_are_contract_errors :
  forallb (fun r => let d := snd r in String.eqb d "ContractError" || existsb (String.eqb "ContractError") (ancestors 4 d)) DECORATORS = true
  /\ existsb (String.eqb "AssertionError") (ancestors 4 "ContractError") = true.
Proof. split; vm_compute; reflexivity. Qed.
