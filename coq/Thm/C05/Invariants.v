(* Thm/C05/Invariants.v -- on the invariant state machine Sem/InvModel.v, for every class (class-level attributes), every
   stack of invariants, every instance state and every operation. *)
From Coq Require Import List ZArith Bool String.
Import ListNotations.
Require Import Base Show InvModel.

Definition all_hold (cls : attrs) (invs : list inv) (s : istate) : Prop := validate_all cls (s_inst s) invs = VTrue.
Definition completed (o : outcome) : bool := match o with Ok _ => true | _ => false end.

Lemma check_none cls invs s : s_enabled s = true -> check cls invs s = None -> all_hold cls invs s.
Proof.
  intros He H. unfold check in H. rewrite He in H. unfold all_hold.
  destruct (validate_all cls (s_inst s) invs); [reflexivity|discriminate|discriminate].
Qed.
Lemma check_not_ok cls invs s e : check cls invs s = Some e -> completed e = false.
Proof.
  unfold check. destruct (s_enabled s); [|discriminate]. destruct (validate_all cls (s_inst s) invs); cbn; intro H; inversion H; reflexivity.
Qed.
Lemma run_sets_err cls invs l : forall s s1 e, run_sets cls invs s l = (s1, Some e) -> completed e = false.
Proof.
  induction l as [|[n v] t IH]; intros s s1 e H; cbn in H; [discriminate|].
  destruct (check cls invs (set_attr s n v)) eqn:E; [inversion H; subst; eapply check_not_ok; exact E|eapply IH; exact H].
Qed.
Lemma run_sets_enabled cls invs l : forall s s1 r, run_sets cls invs s l = (s1, r) -> s_enabled s1 = s_enabled s.
Proof.
  induction l as [|[n v] t IH]; intros s s1 r H; cbn in H.
  - inversion H; reflexivity.
  - destruct (check cls invs (set_attr s n v)); [inversion H; reflexivity|]. apply IH in H. exact H.
Qed.
Lemma run_sets_ok cls invs l : forall s s1, s_enabled s = true -> all_hold cls invs s ->
  run_sets cls invs s l = (s1, None) -> all_hold cls invs s1.
Proof.
  induction l as [|[n v] t IH]; intros s s1 He Hh H; cbn in H.
  - inversion H; subst. exact Hh.
  - destruct (check cls invs (set_attr s n v)) eqn:E; [discriminate|].
    apply (IH (set_attr s n v)); [exact He|apply check_none; [exact He|exact E]|exact H].
Qed.

(* (1) an assignment or instance-method call that completes without an error leaves every invariant true *)
Theorem completed_implies_inv cls invs s o s1 r :
  s_enabled s = true -> step cls invs s o = (s1, r) -> completed r = true ->
  match o with OSet _ _ | OCall _ _ _ => all_hold cls invs s1 | _ => True end.
Proof.
  intros He H Hc. destruct o as [n v|sets raises ret|ret|b|body raises ret]; try exact I; cbn in H.
  - inversion H; subst. destruct (check cls invs (set_attr s n v)) eqn:E; [rewrite (check_not_ok _ _ _ _ E) in Hc; discriminate|].
    apply check_none; [exact He|exact E].
  - destruct (check cls invs s) eqn:E0; [inversion H; subst; rewrite (check_not_ok _ _ _ _ E0) in Hc; discriminate|].
    destruct (run_sets cls invs s sets) as [s2 [e|]] eqn:Er; [inversion H; subst; rewrite (run_sets_err _ _ _ _ _ _ Er) in Hc; discriminate|].
    destruct raises; [inversion H; subst; discriminate|].
    inversion H; subst. destruct (check cls invs s1) eqn:E1; [rewrite (check_not_ok _ _ _ _ E1) in Hc; discriminate|].
    apply check_none; [rewrite (run_sets_enabled _ _ _ _ _ _ Er); exact He|exact E1].
Qed.

(* (2) a method is not entered when an invariant is already false: the state is untouched and the error is raised *)
Theorem not_entered_when_broken cls invs s sets raises ret e :
  check cls invs s = Some e -> step cls invs s (OCall sets raises ret) = (s, e).
Proof. intro H. cbn. rewrite H. reflexivity. Qed.

(* (3) no roll-back: whatever the verdict, the assigned value is in the instance dictionary afterwards *)
Theorem assignment_not_rolled_back cls invs s n v s1 r :
  step cls invs s (OSet n v) = (s1, r) -> lookup n (s_inst s1) = Some v.
Proof.
  intro H. cbn in H. inversion H; subst. cbn.
  induction (s_inst s) as [|[k x] t IH]; cbn; [rewrite String.eqb_refl; reflexivity|].
  destruct (String.eqb k n) eqn:E; cbn; rewrite E; [reflexivity|exact IH].
Qed.

(* (4) static methods, properties, plain reads: no check, state untouched *)
Theorem static_transparent cls invs s ret : step cls invs s (OStatic ret) = (s, Ok (VInt ret)).
Proof. reflexivity. Qed.

(* (5) while contracts are disabled nothing is validated: every operation completes *)
Theorem disabled_inert cls invs s o s1 r :
  s_enabled s = false -> step cls invs s o = (s1, r) ->
  match o with OCall _ true _ => r = Exc "ValueError" | OCallB _ _ _ => r = Exc "ValueError" \/ completed r = true | _ => completed r = true end.
Proof.
  intros He H. assert (Hc : forall t, s_enabled t = false -> check cls invs t = None) by (intros t Ht; unfold check; rewrite Ht; reflexivity).
  destruct o as [n v|sets raises ret|ret|b|body raises ret]; cbn in H.
  - rewrite (Hc (set_attr s n v) He) in H. inversion H; reflexivity.
  - rewrite (Hc s He) in H.
    assert (Hs : forall l t, s_enabled t = false -> exists t', run_sets cls invs t l = (t', None) /\ s_enabled t' = false).
    { induction l as [|[n v] l IH]; intros t Ht; cbn; [eexists; split; [reflexivity|exact Ht]|].
      rewrite (Hc (set_attr t n v) Ht). apply IH. exact Ht. }
    destruct (Hs sets s He) as (t' & Et & Ht'). rewrite Et in H.
    destruct raises; [inversion H; reflexivity|]. rewrite (Hc t' Ht') in H. inversion H; reflexivity.
  - inversion H; reflexivity.
  - inversion H; reflexivity.
  - rewrite (Hc s He) in H.
    assert (Hi : forall l t, s_enabled t = false -> exists t', run_inner_items cls invs t l = (t', None) /\ s_enabled t' = false).
    { induction l as [|[raw [n v]] l IH]; intros t Ht; cbn [run_inner_items]; [eexists; split; [reflexivity|exact Ht]|].
      destruct raw; [apply IH; exact Ht|]. rewrite (Hc (set_attr t n v) Ht). apply IH. exact Ht. }
    assert (Hb : forall l t, s_enabled t = false -> exists t' e, run_body cls invs t l = (t', e) /\ s_enabled t' = false /\ (e = None \/ e = Some (Exc "ValueError"))).
    { induction l as [|[n v|n v|items rs] l IH]; intros t Ht; cbn [run_body].
      - exists t, None. auto.
      - rewrite (Hc (set_attr t n v) Ht). apply IH. exact Ht.
      - apply IH. exact Ht.
      - unfold inner_call. rewrite (Hc t Ht). destruct (Hi items t Ht) as (t' & Et & Ht'). rewrite Et.
        destruct rs; [exists t', (Some (Exc "ValueError")); auto|]. rewrite (Hc t' Ht'). apply IH. exact Ht'. }
    destruct (Hb body s He) as (t' & e & Eb & Ht' & [->| ->]); rewrite Eb in H.
    + destruct raises; [inversion H; left; reflexivity|]. rewrite (Hc t' Ht') in H. inversion H; right; reflexivity.
    + inversion H; left; reflexivity.
Qed.

(* ---- nested calls through self and stores that no __setattr__ sees ---- *)
Lemma run_inner_items_enabled cls invs l : forall s s1 r, run_inner_items cls invs s l = (s1, r) -> s_enabled s1 = s_enabled s.
Proof.
  induction l as [|[raw [n v]] t IH]; intros s s1 r H; cbn [run_inner_items] in H; [inversion H; reflexivity|].
  destruct raw; [apply IH in H; exact H|].
  destruct (check cls invs (set_attr s n v)); [inversion H; reflexivity|apply IH in H; exact H].
Qed.
Lemma inner_call_enabled cls invs s items rs s1 r : inner_call cls invs s items rs = (s1, r) -> s_enabled s1 = s_enabled s.
Proof.
  unfold inner_call. destruct (check cls invs s); [intro H; inversion H; reflexivity|].
  destruct (run_inner_items cls invs s items) as [s2 [e|]] eqn:E; intro H.
  - inversion H; subst. eapply run_inner_items_enabled; exact E.
  - destruct rs; inversion H; subst; eapply run_inner_items_enabled; exact E.
Qed.
Lemma run_body_enabled cls invs l : forall s s1 r, run_body cls invs s l = (s1, r) -> s_enabled s1 = s_enabled s.
Proof.
  induction l as [|[n v|n v|items rs] t IH]; intros s s1 r H; cbn [run_body] in H.
  - inversion H; reflexivity.
  - destruct (check cls invs (set_attr s n v)); [inversion H; reflexivity|apply IH in H; exact H].
  - apply IH in H; exact H.
  - destruct (inner_call cls invs s items rs) as [s2 [e|]] eqn:E.
    + inversion H; subst. eapply inner_call_enabled; exact E.
    + apply IH in H. rewrite H. eapply inner_call_enabled; exact E.
Qed.
Lemma run_inner_items_err cls invs l : forall s s1 e, run_inner_items cls invs s l = (s1, Some e) -> completed e = false.
Proof.
  induction l as [|[raw [n v]] t IH]; intros s s1 e H; cbn [run_inner_items] in H; [discriminate|].
  destruct raw; [eapply IH; exact H|].
  destruct (check cls invs (set_attr s n v)) eqn:E; [inversion H; subst; eapply check_not_ok; exact E|eapply IH; exact H].
Qed.
Lemma inner_call_err cls invs s items rs s1 e : inner_call cls invs s items rs = (s1, Some e) -> completed e = false.
Proof.
  unfold inner_call. destruct (check cls invs s) eqn:E0; [intro H; inversion H; subst; eapply check_not_ok; exact E0|].
  destruct (run_inner_items cls invs s items) as [s2 [x|]] eqn:E; intro H.
  - inversion H; subst. eapply run_inner_items_err; exact E.
  - destruct rs; [inversion H; reflexivity|]. inversion H as [[Hs Hc]]. eapply check_not_ok; exact Hc.
Qed.
Lemma run_body_err cls invs l : forall s s1 e, run_body cls invs s l = (s1, Some e) -> completed e = false.
Proof.
  induction l as [|[n v|n v|items rs] t IH]; intros s s1 e H; cbn [run_body] in H; [discriminate| | |].
  - destruct (check cls invs (set_attr s n v)) eqn:E; [inversion H; subst; eapply check_not_ok; exact E|eapply IH; exact H].
  - eapply IH; exact H.
  - destruct (inner_call cls invs s items rs) as [s2 [x|]] eqn:E; [inversion H; subst; eapply inner_call_err; exact E|eapply IH; exact H].
Qed.

(* (1b) a method call with nested calls and unseen stores that completes leaves every invariant true *)
Theorem callb_completed_implies_inv cls invs s body raises ret s1 r :
  s_enabled s = true -> step cls invs s (OCallB body raises ret) = (s1, r) -> completed r = true -> all_hold cls invs s1.
Proof.
  intros He H Hc. cbn [step] in H.
  destruct (check cls invs s) eqn:E0; [inversion H; subst; rewrite (check_not_ok _ _ _ _ E0) in Hc; discriminate|].
  destruct (run_body cls invs s body) as [s2 [e|]] eqn:Er; [inversion H; subst; rewrite (run_body_err _ _ _ _ _ _ Er) in Hc; discriminate|].
  destruct raises; [inversion H; subst; discriminate|].
  inversion H; subst. destruct (check cls invs s1) eqn:E1; [rewrite (check_not_ok _ _ _ _ E1) in Hc; discriminate|].
  apply check_none; [rewrite (run_body_enabled _ _ _ _ _ _ Er); exact He|exact E1].
Qed.
(* (1c) the same for every nested call made through self: when it returns, every invariant is true -- whatever the outer method does
   afterwards (an outer method that repairs the state later does not make the inner call acceptable) *)
Theorem inner_completed_implies_inv cls invs s items s1 :
  s_enabled s = true -> inner_call cls invs s items false = (s1, None) -> all_hold cls invs s1.
Proof.
  intros He H. pose proof (inner_call_enabled _ _ _ _ _ _ _ H) as Hen. unfold inner_call in H.
  destruct (check cls invs s); [discriminate|].
  destruct (run_inner_items cls invs s items) as [s2 [e|]] eqn:E; [discriminate|].
  inversion H as [[Hs Hc]]. subst s2. apply check_none; [rewrite Hen; exact He|exact Hc].
Qed.
(* (2b) a nested call is not entered when an invariant is already false, and its failure ends the outer method at that point *)
Theorem inner_not_entered_when_broken cls invs s items rs e t :
  check cls invs s = Some e -> run_body cls invs s (BInner items rs :: t) = (s, Some e).
Proof. intro H. cbn [run_body]. unfold inner_call. rewrite H. reflexivity. Qed.
Theorem callb_not_entered_when_broken cls invs s body raises ret e :
  check cls invs s = Some e -> step cls invs s (OCallB body raises ret) = (s, e).
Proof. intro H. cbn [step]. rewrite H. reflexivity. Qed.
(* a store that no __setattr__ sees is judged at the next validation point: here, the exit of the method *)
Example raw_store_caught_at_exit :
  step [] [{| i_form := IExplicit; i_pred := PGe "x" 0 |}] {| s_inst := [("x", VInt 1)]; s_enabled := true |} (OCallB [BRaw "x" (VInt (-1))] false 7)
  = ({| s_inst := [("x", VInt (-1))]; s_enabled := true |}, InvError).
Proof. reflexivity. Qed.
Example inner_violation_not_repairable :
  snd (step [] [{| i_form := IExplicit; i_pred := PGe "x" 0 |}] {| s_inst := [("x", VInt 1)]; s_enabled := true |}
            (OCallB [BInner [(true, ("x", VInt (-1)))] false; BRaw "x" (VInt 1)] false 7)) = InvError.
Proof. reflexivity. Qed.

(* ---- every state reached by a history ---- *)
Definition guarded (o : iop) : bool := match o with OSet _ _ | OCall _ _ _ | OCallB _ _ _ => true | _ => false end.
Fixpoint history_ok (cls : attrs) (invs : list inv) (s : istate) (h : list iop) : Prop :=
  match h with
  | [] => True
  | o :: t => (s_enabled s = true -> guarded o = true -> completed (snd (step cls invs s o)) = true -> all_hold cls invs (fst (step cls invs s o)))
              /\ history_ok cls invs (fst (step cls invs s o)) t
  end.
Theorem every_history_ok cls invs h : forall s, history_ok cls invs s h.
Proof.
  induction h as [|o t IH]; intro s; cbn [history_ok]; [exact I|]. split; [|apply IH].
  intros He Hg Hc. destruct (step cls invs s o) as [s1 r] eqn:E. cbn [fst snd] in *.
  destruct o as [n v|sets raises ret|ret|b|body raises ret]; try discriminate.
  - exact (completed_implies_inv cls invs s (OSet n v) s1 r He E Hc).
  - exact (completed_implies_inv cls invs s (OCall sets raises ret) s1 r He E Hc).
  - exact (callb_completed_implies_inv cls invs s body raises ret s1 r He E Hc).
Qed.
