(* Thm/C05/Refine.v -- the instruction lists regenerated from deal/_runtime/_invariant.py (Gen/Invariant.v), run by the semantics of
   Sem/InvCode.v, ARE the hand-written state machine Sem/InvModel.v the C05 theorems are about: for every class, every stack of
   invariants, every instance state and every operation. A statement dropped, duplicated or moved in the source changes a list and
   breaks one of these proofs. *)
From Coq Require Import List ZArith Bool String.
Import ListNotations.
Require Import Base Show InvModel InvCode Invariant Invariants.

Lemma enabled_eta s : s_enabled s = true -> set_enabled (set_enabled s false) true = s.
Proof. destruct s as [i e]; cbn. intro H; subst. reflexivity. Qed.
(* _deal_validate leaves the state (the switch included) as it found it and gives the verdict of InvModel.check *)
Lemma validate_is_check cls invs s : validate code cls invs s = (s, check cls invs s).
Proof.
  unfold validate, check. cbn [c_validate code exec_validate].
  destruct (s_enabled s) eqn:E; [|reflexivity].
  cbn [s_inst set_enabled]. destruct (of_vres (validate_all cls (s_inst s) invs)); rewrite (enabled_eta s E); reflexivity.
Qed.
Lemma setattr_is_store_then_check cls invs s n v :
  setattr code cls invs s n v = (set_attr s n v, check cls invs (set_attr s n v)).
Proof.
  unfold setattr. cbn [c_setattr code exec_setattr]. rewrite validate_is_check.
  destruct (check cls invs (set_attr s n v)); reflexivity.
Qed.
Lemma body_sets_is_run_sets cls invs l : forall s, body_sets code cls invs s l = run_sets cls invs s l.
Proof.
  induction l as [|[n v] t IH]; intro s; cbn [body_sets run_sets]; [reflexivity|].
  rewrite setattr_is_store_then_check. destruct (check cls invs (set_attr s n v)); [reflexivity|apply IH].
Qed.
Lemma getattribute_method : getattribute code KMethod = Some true.
Proof. reflexivity. Qed.
Lemma getattribute_other : getattribute code KOther = Some false.
Proof. reflexivity. Qed.
(* the three names of deal's own machinery are handed out raw (no recursion into _deal_patched_method); any other name is judged by
   the kind of the attribute alone *)
Lemma getattribute_deal_attrs :
  forallb (fun n => match getattribute code (KDeal n) with Some false => true | _ => false end)
          ["_deal_validate"; "_deal_patched_method"; ATTR] = true.
Proof. reflexivity. Qed.

Lemma call_through_patched cls invs method s :
  call_through code cls invs method s =
  Some (match check cls invs s with
        | Some e => (s, e)
        | None => match method s with
                  | (s1, inr e) => (s1, e)
                  | (s1, inl v) => match check cls invs s1 with Some e => (s1, e) | None => (s1, Ok v) end
                  end
        end).
Proof.
  unfold call_through. rewrite getattribute_method. cbn [c_patched code exec_patched]. rewrite validate_is_check.
  destruct (check cls invs s) as [e|]; [reflexivity|].
  destruct (method s) as [s1 [v|e]]; [|reflexivity]. rewrite validate_is_check. destruct (check cls invs s1); reflexivity.
Qed.
Lemma inner_items_is_run_inner_items cls invs l : forall s, inner_items code cls invs s l = run_inner_items cls invs s l.
Proof.
  induction l as [|[raw [n v]] t IH]; intro s; cbn [inner_items run_inner_items]; [reflexivity|].
  destruct raw; [apply IH|]. rewrite setattr_is_store_then_check. destruct (check cls invs (set_attr s n v)); [reflexivity|apply IH].
Qed.
Lemma inner_through_is_inner_call cls invs items rs s :
  call_through code cls invs (inner_method code cls invs items rs) s =
  Some (fst (inner_call cls invs s items rs), match snd (inner_call cls invs s items rs) with Some e => e | None => Ok VNone end).
Proof.
  rewrite call_through_patched. unfold inner_call, inner_method. rewrite inner_items_is_run_inner_items.
  destruct (check cls invs s) as [e|]; [reflexivity|].
  destruct (run_inner_items cls invs s items) as [s1 [e|]]; [reflexivity|].
  destruct rs; [reflexivity|]. cbn [fst snd]. destruct (check cls invs s1); reflexivity.
Qed.
Lemma inner_call_not_ok cls invs s items rs s1 v : inner_call cls invs s items rs = (s1, Some (Ok v)) -> False.
Proof. intro H. apply inner_call_err in H. discriminate. Qed.
Lemma body_items_is_run_body cls invs l : forall s, body_items code cls invs s l = Some (run_body cls invs s l).
Proof.
  induction l as [|[n v|n v|items rs] t IH]; intro s; cbn [body_items run_body]; [reflexivity| | |].
  - rewrite setattr_is_store_then_check. destruct (check cls invs (set_attr s n v)); [reflexivity|apply IH].
  - apply IH.
  - rewrite inner_through_is_inner_call. destruct (inner_call cls invs s items rs) as [s1 [e|]] eqn:E; cbn [fst snd]; [|apply IH].
    destruct e; [exfalso; eapply inner_call_not_ok; exact E|reflexivity|reflexivity].
Qed.

Theorem step_code_is_step cls invs s o : step_code code cls invs s o = Some (step cls invs s o).
Proof.
  destruct o as [n v|sets raises ret|ret|b|body raises ret]; cbn [step_code step].
  - rewrite setattr_is_store_then_check. destruct (check cls invs (set_attr s n v)); reflexivity.
  - rewrite call_through_patched.
    destruct (check cls invs s) as [e|]; [reflexivity|].
    unfold call_method. rewrite body_sets_is_run_sets.
    destruct (run_sets cls invs s sets) as [s1 [e|]]; [reflexivity|].
    destruct raises; [reflexivity|]. destruct (check cls invs s1); reflexivity.
  - rewrite getattribute_other. reflexivity.
  - reflexivity.
  - rewrite getattribute_method. rewrite call_through_patched.
    destruct (check cls invs s) as [e|]; [reflexivity|].
    unfold body_method. rewrite body_items_is_run_body.
    destruct (run_body cls invs s body) as [s1 [e|]]; [reflexivity|].
    destruct raises; [reflexivity|]. destruct (check cls invs s1); reflexivity.
Qed.

(* a whole history *)
Fixpoint run_history_code (cls : attrs) (invs : list inv) (s : istate) (h : list iop) : option (list (outcome * attrs)) :=
  match h with
  | [] => Some []
  | o :: t => match step_code code cls invs s o with
              | Some (s1, r) => match run_history_code cls invs s1 t with Some l => Some ((r, s_inst s1) :: l) | None => None end
              | None => None
              end
  end.
Theorem history_code_is_history cls invs h : forall s, run_history_code cls invs s h = Some (run_history cls invs s h).
Proof.
  induction h as [|o t IH]; intro s; cbn [run_history_code run_history]; [reflexivity|].
  rewrite step_code_is_step. destruct (step cls invs s o) as [s1 r]. rewrite IH. reflexivity.
Qed.

(* disabled: _deal_validate evaluates nothing *)
Theorem validate_inert cls invs s : s_enabled s = false -> validate code cls invs s = (s, None).
Proof. intro H. unfold validate. cbn [c_validate code exec_validate]. rewrite H. reflexivity. Qed.
(* whatever the verdict, _deal_validate leaves the switch as it found it *)
Theorem validate_restores_switch cls invs s : fst (validate code cls invs s) = s.
Proof. rewrite validate_is_check. reflexivity. Qed.

(* invariant(): stacking deal.inv decorators gives the validators in decoration order (innermost first), and nothing once contracts
   are permanently removed *)
Lemma decorate_some (A : Type) (vs : list A) : forall l0, decorate_all (c_invariant code) false (Some l0) vs = Some (Some (l0 ++ vs)%list).
Proof.
  induction vs as [|v t IH]; intro l0; cbn [decorate_all]; [rewrite app_nil_r; reflexivity|].
  cbn [c_invariant code exec_invariant andb]. rewrite IH. rewrite <- app_assoc. reflexivity.
Qed.
Theorem decorate_order (A : Type) (v : A) (vs : list A) : decorate_all (c_invariant code) false None (v :: vs) = Some (Some (v :: vs)).
Proof. cbn [decorate_all c_invariant code exec_invariant andb]. rewrite decorate_some. reflexivity. Qed.
Theorem decorate_removed (A : Type) (vs : list A) invs : decorate_all (c_invariant code) true invs vs = Some invs.
Proof. induction vs as [|v t IH]; cbn [decorate_all]; [reflexivity|]. cbn [c_invariant code exec_invariant]. exact IH. Qed.
