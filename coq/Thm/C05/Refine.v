(* Thm/C05/Refine.v -- the instruction lists regenerated from deal/_runtime/_invariant.py (Gen/Invariant.v), run by the semantics of
   Sem/InvCode.v, ARE the hand-written state machine Sem/InvModel.v the C05 theorems are about: for every class, every stack of
   invariants, every instance state and every operation. A statement dropped, duplicated or moved in the source changes a list and
   breaks one of these proofs. *)
From Coq Require Import List ZArith Bool String.
Import ListNotations.
Require Import Base Show InvModel InvCode Invariant.

Lemma validate_is_check cls invs s : validate code cls invs s = check cls invs s.
Proof.
  unfold validate, check. cbn [c_validate code exec_validate].
  destruct (s_enabled s); [|reflexivity]. destruct (of_vres (validate_all cls (s_inst s) invs)); reflexivity.
Qed.
Lemma setattr_is_store_then_check cls invs s n v :
  setattr code cls invs s n v = (set_attr s n v, check cls invs (set_attr s n v)).
Proof.
  unfold setattr. cbn [c_setattr code exec_setattr]. rewrite validate_is_check.
  destruct (check cls invs (set_attr s n v)); reflexivity.
Qed.
Lemma body_sets_is_run_sets cls invs l : forall s, body_sets code cls invs s l = run_sets cls invs s l.
Proof.
  induction l as [|[n v] t IH]; intro s; cbn [body_sets run_sets]; [reflexivity|].
  rewrite setattr_is_store_then_check. destruct (check cls invs (set_attr s n v)); [reflexivity|apply IH].
Qed.
Lemma getattribute_method : getattribute code KMethod = Some true.
Proof. reflexivity. Qed.
Lemma getattribute_other : getattribute code KOther = Some false.
Proof. reflexivity. Qed.
(* the three names of deal's own machinery are handed out raw (no recursion into _deal_patched_method); any other name is judged by
   the kind of the attribute alone *)
Lemma getattribute_deal_attrs :
  forallb (fun n => match getattribute code (KDeal n) with Some false => true | _ => false end)
          ["_deal_validate"; "_deal_patched_method"; ATTR] = true.
Proof. reflexivity. Qed.

Theorem step_code_is_step cls invs s o : step_code code cls invs s o = Some (step cls invs s o).
Proof.
  destruct o as [n v|sets raises ret|ret|b]; cbn [step_code step].
  - rewrite setattr_is_store_then_check. destruct (check cls invs (set_attr s n v)); reflexivity.
  - rewrite getattribute_method. cbn [c_patched code exec_patched]. rewrite validate_is_check.
    destruct (check cls invs s) as [e|]; [reflexivity|].
    unfold call_method. rewrite body_sets_is_run_sets.
    destruct (run_sets cls invs s sets) as [s1 [e|]]; [reflexivity|].
    destruct raises; [reflexivity|]. rewrite validate_is_check. destruct (check cls invs s1); reflexivity.
  - rewrite getattribute_other. reflexivity.
  - reflexivity.
Qed.

(* a whole history *)
Fixpoint run_history_code (cls : attrs) (invs : list inv) (s : istate) (h : list iop) : option (list (outcome * attrs)) :=
  match h with
  | [] => Some []
  | o :: t => match step_code code cls invs s o with
              | Some (s1, r) => match run_history_code cls invs s1 t with Some l => Some ((r, s_inst s1) :: l) | None => None end
              | None => None
              end
  end.
Theorem history_code_is_history cls invs h : forall s, run_history_code cls invs s h = Some (run_history cls invs s h).
Proof.
  induction h as [|o t IH]; intro s; cbn [run_history_code run_history]; [reflexivity|].
  rewrite step_code_is_step. destruct (step cls invs s o) as [s1 r]. rewrite IH. reflexivity.
Qed.

(* disabled: _deal_validate evaluates nothing *)
Theorem validate_inert cls invs s : s_enabled s = false -> validate code cls invs s = None.
Proof. intro H. unfold validate. cbn [c_validate code exec_validate]. rewrite H. reflexivity. Qed.

(* invariant(): stacking deal.inv decorators gives the validators in decoration order (innermost first), and nothing once contracts
   are permanently removed *)
Lemma decorate_some (A : Type) (vs : list A) : forall l0, decorate_all (c_invariant code) false (Some l0) vs = Some (Some (l0 ++ vs)%list).
Proof.
  induction vs as [|v t IH]; intro l0; cbn [decorate_all]; [rewrite app_nil_r; reflexivity|].
  cbn [c_invariant code exec_invariant andb]. rewrite IH. rewrite <- app_assoc. reflexivity.
Qed.
Theorem decorate_order (A : Type) (v : A) (vs : list A) : decorate_all (c_invariant code) false None (v :: vs) = Some (Some (v :: vs)).
Proof. cbn [decorate_all c_invariant code exec_invariant andb]. rewrite decorate_some. reflexivity. Qed.
Theorem decorate_removed (A : Type) (vs : list A) invs : decorate_all (c_invariant code) true invs vs = Some invs.
Proof. induction vs as [|v t IH]; cbn [decorate_all]; [reflexivity|]. cbn [c_invariant code exec_invariant]. exact IH. Qed.
