(* Thm/C19/Lines.v -- the line algebra of the decorate transformation (mutations and their sort keys regenerated from
   deal/linter/_transformer.py): applying the sorted mutations one after the other equals the "per line, nested suffix" reading: a
   mutation addressed to line l only ever sees (original line l) :: (already transformed rest) -- no mutation shifts a line that
   another one addresses. *)
From Coq Require Import List Arith Lia String Bool.
Import ListNotations.
Require Import Transformer.
Local Open Scope list_scope.

Definition apply_all (ms : list mut) (ls : list string) : list string := fold_left (fun acc m => apply1 m acc) ms ls.

(* specification: process lines from the bottom; mutations of one line act, in list order, on the line followed by the processed rest *)
Definition at_line (l : nat) (ms : list mut) := filter (fun m => Nat.eqb (line m) l) ms.
Definition acts (ms : list mut) (suf : list string) := fold_left (fun s m => act m s) ms suf.
Fixpoint spec (ms : list mut) (l : nat) (ls : list string) : list string :=
  match ls with
  | [] => acts (at_line l ms) []
  | x :: xs => acts (at_line l ms) (x :: spec ms (S l) xs)
  end.

Inductive sorted_desc : list mut -> Prop :=
| sd_nil : sorted_desc []
| sd_cons m ms : (forall m', In m' ms -> line m' <= line m) -> sorted_desc ms -> sorted_desc (m :: ms).

(* --- lemmas --- *)
Lemma apply1_prefix m pre suf : List.length pre = line m - 1 -> apply1 m (pre ++ suf) = pre ++ act m suf.
Proof.
  intro H. unfold apply1. rewrite <- H.
  rewrite firstn_app, Nat.sub_diag, firstn_all, firstn_O, app_nil_r.
  rewrite skipn_app, Nat.sub_diag, skipn_all. reflexivity.
Qed.

Lemma apply_all_same_line ms l pre suf :
  (forall m, In m ms -> line m = l) -> List.length pre = l - 1 ->
  apply_all ms (pre ++ suf) = pre ++ acts ms suf.
Proof.
  revert suf. induction ms as [|m ms IH]; intros suf Hl Hp; [reflexivity|].
  cbn [apply_all acts fold_left].
  rewrite apply1_prefix by (rewrite (Hl m (or_introl eq_refl)); exact Hp).
  apply IH; [intros m' Hin; apply Hl; right; exact Hin|exact Hp].
Qed.

Lemma at_line_above ms l : (forall m, In m ms -> l < line m) -> at_line l ms = [].
Proof.
  induction ms as [|m ms IH]; intro H; [reflexivity|]. cbn.
  destruct (Nat.eqb_spec (line m) l) as [E|E].
  - specialize (H m (or_introl eq_refl)). lia.
  - apply IH. intros m' Hin. apply H. right. exact Hin.
Qed.

Lemma at_line_app l a b : at_line l (a ++ b) = at_line l a ++ at_line l b.
Proof. apply filter_app. Qed.

Lemma at_line_all ms l : (forall m, In m ms -> line m = l) -> at_line l ms = ms.
Proof.
  induction ms as [|m ms IH]; intro H; [reflexivity|]. cbn.
  rewrite (proj2 (Nat.eqb_eq _ _) (H m (or_introl eq_refl))). f_equal. apply IH. intros m' Hin. apply H. right. exact Hin.
Qed.

Lemma at_line_other ms l k : (forall m, In m ms -> line m = k) -> k <> l -> at_line l ms = [].
Proof.
  induction ms as [|m ms IH]; intros H Hn; [reflexivity|]. cbn.
  destruct (Nat.eqb_spec (line m) l) as [E|E].
  - rewrite (H m (or_introl eq_refl)) in E. contradiction.
  - apply IH; [intros m' Hin; apply H; right; exact Hin|exact Hn].
Qed.

(* spec from line S l upward ignores mutations addressed to line l *)
Lemma spec_ignore hi lo l ls :
  (forall m, In m lo -> line m = l) ->
  spec (hi ++ lo) (S l) ls = spec hi (S l) ls.
Proof.
  intro Hlo. remember (S l) as k eqn:Hk. assert (Hgt : l < k) by lia. clear Hk.
  revert k Hgt. induction ls as [|x xs IH]; intros k Hgt; cbn [spec]; rewrite at_line_app.
  - rewrite (at_line_other lo k l Hlo) by lia. rewrite app_nil_r. reflexivity.
  - rewrite (at_line_other lo k l Hlo) by lia. rewrite app_nil_r. rewrite IH by lia. reflexivity.
Qed.

(* split a descending list at line l: everything strictly above l comes first *)
Lemma split_desc ms l :
  sorted_desc ms -> (forall m, In m ms -> l <= line m) ->
  exists hi lo, ms = hi ++ lo /\ (forall m, In m hi -> l < line m) /\ (forall m, In m lo -> line m = l) /\ sorted_desc hi.
Proof.
  induction 1 as [|m ms Hle Hs IH]; intro Hge.
  - exists [], []. repeat split; try constructor; intros m [].
  - destruct IH as [hi [lo [E [Hhi [Hlo Shi]]]]]; [intros m' Hin; apply Hge; right; exact Hin|].
    destruct (Nat.eq_dec (line m) l) as [Em|Em].
    + (* m is at line l: then all of ms is at line l, hi = [] *)
      exists [], (m :: ms). repeat split; try constructor.
      * intros m' [].
      * intros m' [<-|Hin]; [exact Em|].
        specialize (Hle m' Hin). specialize (Hge m' (or_intror Hin)). lia.
    + exists (m :: hi), lo. subst ms. repeat split.
      * intros m' [<-|Hin]; [specialize (Hge m (or_introl eq_refl)); lia|apply Hhi; exact Hin].
      * exact Hlo.
      * constructor; [intros m' Hin; apply Hle; apply in_or_app; left; exact Hin|exact Shi].
Qed.

Theorem bottom_up : forall ls ms l pre,
  sorted_desc ms ->
  (forall m, In m ms -> l <= line m <= l + List.length ls) ->      (* every mutation addresses a line of the file, or the line just after it *)
  List.length pre = l - 1 -> 1 <= l ->
  apply_all ms (pre ++ ls) = pre ++ spec ms l ls.
Proof.
  induction ls as [|x xs IH]; intros ms l pre Hs Hrange Hp Hl1.
  - assert (Hall : forall m, In m ms -> line m = l) by (intros m Hin; specialize (Hrange m Hin); cbn in Hrange; lia).
    cbn [spec]. rewrite (at_line_all ms l Hall). apply (apply_all_same_line ms l pre [] Hall Hp).
  - destruct (split_desc ms l Hs (fun m Hin => proj1 (Hrange m Hin))) as [hi [lo [E [Hhi [Hlo Shi]]]]]. subst ms.
    unfold apply_all. rewrite fold_left_app.
    fold (apply_all hi (pre ++ x :: xs)). fold (apply_all lo (apply_all hi (pre ++ x :: xs))).
    replace (pre ++ x :: xs) with ((pre ++ [x]) ++ xs) by (rewrite <- app_assoc; reflexivity).
    rewrite (IH hi (S l) (pre ++ [x])).
    + rewrite <- app_assoc. cbn [app].
      rewrite (apply_all_same_line lo l pre _ Hlo Hp).
      cbn [spec]. rewrite at_line_app, (at_line_above hi l Hhi), (at_line_all lo l Hlo). cbn [app].
      rewrite (spec_ignore hi lo l xs Hlo). reflexivity.
    + exact Shi.
    + intros m Hin. specialize (Hhi m Hin).
      assert (Hin' : In m (hi ++ lo)) by (apply in_or_app; left; exact Hin).
      specialize (Hrange m Hin'). cbn [List.length] in Hrange. lia.
    + rewrite app_length. cbn. lia.
    + lia.
Qed.

(* the transformer's use: whole file, line numbers from 1 *)
Corollary transformer_apply ms ls :
  sorted_desc ms -> (forall m, In m ms -> 1 <= line m <= 1 + List.length ls) ->
  apply_all ms ls = spec ms 1 ls.
Proof. intros Hs Hr. apply (bottom_up ls ms 1 [] Hs Hr); [reflexivity|lia]. Qed.


(* ---------- the sort of _apply_mutations produces a list that is descending by line ---------- *)
Lemma key_lt_line a b : key_lt a b = false -> line b <= line a.
Proof.
  unfold key_lt. intro H. apply orb_false_iff in H. destruct H as [H _]. apply Nat.ltb_ge in H. exact H.
Qed.
Lemma key_lt_true_line a b : key_lt a b = true -> line a <= line b.
Proof.
  unfold key_lt. intro H. apply orb_true_iff in H. destruct H as [H|H].
  - apply Nat.ltb_lt in H. lia.
  - apply andb_true_iff in H. destruct H as [H _]. apply Nat.eqb_eq in H. lia.
Qed.
Lemma insert_desc_in m l x : In x (insert_desc m l) <-> x = m \/ In x l.
Proof.
  induction l as [|y t IH]; cbn; [split; [intros [H|[]]; left; symmetry; exact H|intros [H|[]]; left; symmetry; exact H]|].
  destruct (key_lt m y); cbn; [rewrite IH|]; intuition congruence.
Qed.
Lemma insert_desc_sorted m l : sorted_desc l -> sorted_desc (insert_desc m l).
Proof.
  induction 1 as [|y t Hle Hs IH]; cbn; [constructor; [intros ? []|constructor]|].
  destruct (key_lt m y) eqn:E.
  - constructor; [|exact IH]. intros m' Hin. apply insert_desc_in in Hin. destruct Hin as [->|Hin]; [apply key_lt_true_line; exact E|apply Hle; exact Hin].
  - constructor; [|constructor; assumption]. intros m' [<-|Hin]; [apply key_lt_line; exact E|].
    specialize (Hle m' Hin). apply key_lt_line in E. lia.
Qed.
Lemma sort_desc_sorted l : sorted_desc (sort_desc l).
Proof. induction l as [|m t IH]; cbn; [constructor|apply insert_desc_sorted; exact IH]. Qed.
Lemma sort_desc_in l x : In x (sort_desc l) <-> In x l.
Proof. induction l as [|m t IH]; cbn; [tauto|]. rewrite insert_desc_in, IH. intuition congruence. Qed.

(* the transformer: whatever order the mutations were collected in *)
Theorem apply_mutations_spec ms ls :
  (forall m, In m ms -> 1 <= line m <= 1 + List.length ls) ->
  apply_mutations ms ls = spec (sort_desc ms) 1 ls.
Proof.
  intro Hr. unfold apply_mutations. apply (transformer_apply (sort_desc ms) ls (sort_desc_sorted ms)).
  intros m Hin. apply Hr. apply sort_desc_in. exact Hin.
Qed.
