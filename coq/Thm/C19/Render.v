(* Thm/C19/Render.v -- closed form of _apply_mutations under the per-line well-formedness conditions the planner is meant to
   respect: (W1) at most one Remove per line, (W2) a line that receives an AppendText receives nothing else.  Then the output
   is, line by line:   inserted texts (InsertText before InsertContract, each group in reverse collection order)
                       ++ the original line unless removed (with the appended comments)
   -- i.e. no original line is altered except by removal or by an appended comment, and no line of the file other than the
   removed ones disappears.  When (W1) fails the line *after* the removed one disappears as well: [double_remove_eats_next]. *)
From Coq Require Import List Arith Lia String Bool.
Import ListNotations.
Require Import Transformer Lines.
Local Open Scope list_scope.
Local Open Scope nat_scope.

Definition is_remove (m : mut) := match m with MRemove _ => true | _ => false end.
Definition is_append (m : mut) := match m with MAppend _ _ => true | _ => false end.
Definition is_insert (m : mut) := match m with MInsert _ _ | MInsertContract _ _ => true | _ => false end.
Definition ins_text (m : mut) : list string := match m with MInsert _ t | MInsertContract _ t => [t] | _ => [] end.
Definition ins_texts (ml : list mut) : list string := flat_map ins_text ml.
Definition app_texts (ml : list mut) : list string := flat_map (fun m => match m with MAppend _ t => [t] | _ => [] end) ml.
Definition cnt (p : mut -> bool) (ml : list mut) : nat := List.length (filter p ml).

Definition wf_line (ml : list mut) : bool :=
  (cnt is_remove ml <=? 1) && ((cnt is_append ml =? 0) || (cnt (fun m => negb (is_append m)) ml =? 0)).
Definition wf_at (l : nat) (ms : list mut) : bool := wf_line (at_line l ms).

Definition render_line (ml : list mut) (x : string) : list string :=
  if 0 <? cnt is_append ml then [fold_left String.append (app_texts ml) x]
  else rev (ins_texts ml) ++ (if 0 <? cnt is_remove ml then [] else [x]).
Fixpoint render (ms : list mut) (l : nat) (ls : list string) : list string :=
  match ls with
  | [] => rev (ins_texts (at_line l ms))
  | x :: xs => render_line (at_line l ms) x ++ render ms (S l) xs
  end.

(* in range: insertions may address the line just after the file, Remove / AppendText must address a line of the file *)
Definition in_range (n : nat) (m : mut) : Prop := 1 <= line m /\ (if is_insert m then line m <= S n else line m <= n).

(* ---------- the key order ---------- *)
Lemma key_lt_spec a b : key_lt a b = true <-> (line a < line b \/ (line a = line b /\ prio a < prio b)).
Proof.
  unfold key_lt. rewrite orb_true_iff, andb_true_iff, !Nat.ltb_lt, Nat.eqb_eq. tauto.
Qed.
Lemma key_lt_false a b : key_lt a b = false <-> (line b < line a \/ (line a = line b /\ prio b <= prio a)).
Proof.
  destruct (key_lt a b) eqn:E.
  - apply key_lt_spec in E. split; [discriminate|lia].
  - split; [intros _|reflexivity].
    assert (N : ~ (line a < line b \/ (line a = line b /\ prio a < prio b))) by (intro H; apply key_lt_spec in H; congruence). lia.
Qed.

Inductive ksorted : list mut -> Prop :=
| ks_nil : ksorted []
| ks_cons m ms : (forall m', In m' ms -> key_lt m m' = false) -> ksorted ms -> ksorted (m :: ms).

Lemma insert_desc_ksorted m l : ksorted l -> ksorted (insert_desc m l).
Proof.
  induction 1 as [|y t Hy Hs IH]; cbn; [constructor; [intros ? []|constructor]|].
  destruct (key_lt m y) eqn:E.
  - constructor; [|exact IH]. intros m' Hin. apply insert_desc_in in Hin. destruct Hin as [->|Hin]; [|apply Hy; exact Hin].
    apply key_lt_spec in E. apply key_lt_false. lia.
  - constructor; [|constructor; assumption]. intros m' [<-|Hin]; [exact E|].
    specialize (Hy m' Hin). apply key_lt_false in E. apply key_lt_false in Hy. apply key_lt_false. lia.
Qed.
Lemma sort_desc_ksorted l : ksorted (sort_desc l).
Proof. induction l as [|m t IH]; cbn; [constructor|apply insert_desc_ksorted; exact IH]. Qed.

(* within one line: priorities never increase *)
Inductive psorted : list mut -> Prop :=
| ps_nil : psorted []
| ps_cons m ms : (forall m', In m' ms -> prio m' <= prio m) -> psorted ms -> psorted (m :: ms).
Lemma at_line_in l ms m : In m (at_line l ms) <-> In m ms /\ line m = l.
Proof. unfold at_line. rewrite filter_In, Nat.eqb_eq. tauto. Qed.
Lemma at_line_psorted l ms : ksorted ms -> psorted (at_line l ms).
Proof.
  induction 1 as [|m ms Hm Hs IH]; cbn; [constructor|].
  destruct (Nat.eqb_spec (line m) l) as [E|E]; [|exact IH].
  constructor; [|exact IH]. intros m' Hin. apply at_line_in in Hin. destruct Hin as [Hin El].
  specialize (Hm m' Hin). apply key_lt_false in Hm. lia.
Qed.

(* counting is insensitive to the sort *)
Lemma cnt_cons p m l : cnt p (m :: l) = (if p m then 1 else 0) + cnt p l.
Proof. unfold cnt. cbn. destruct (p m); reflexivity. Qed.
Lemma cnt_insert_desc p m l : cnt p (insert_desc m l) = cnt p (m :: l).
Proof.
  induction l as [|y t IH]; cbn [insert_desc]; [reflexivity|].
  destruct (key_lt m y); [|reflexivity]. rewrite (cnt_cons p y), IH, !cnt_cons. lia.
Qed.
Lemma cnt_sort p ms : cnt p (sort_desc ms) = cnt p ms.
Proof.
  induction ms as [|m t IH]; [reflexivity|]. cbn [sort_desc fold_right]. fold (sort_desc t).
  rewrite cnt_insert_desc, !cnt_cons, IH. reflexivity.
Qed.
Lemma cnt_filter p q l : cnt p (filter q l) = cnt (fun x => q x && p x) l.
Proof.
  induction l as [|y t IH]; [reflexivity|]. cbn [filter]. rewrite (cnt_cons (fun x => q x && p x)).
  destruct (q y); cbn [andb]; [rewrite cnt_cons, IH; reflexivity|exact IH].
Qed.
Lemma cnt_at_line_sort p l ms : cnt p (at_line l (sort_desc ms)) = cnt p (at_line l ms).
Proof. unfold at_line. rewrite !cnt_filter. apply cnt_sort. Qed.
Lemma wf_at_sort l ms : wf_at l (sort_desc ms) = wf_at l ms.
Proof. unfold wf_at, wf_line. rewrite !cnt_at_line_sort. reflexivity. Qed.

(* ---------- what the mutations of one line do ---------- *)
Lemma cnt0_forall p ml : cnt p ml = 0 -> forall m, In m ml -> p m = false.
Proof.
  unfold cnt. induction ml as [|y t IH]; cbn; intros H m Hin; [destruct Hin|].
  destruct (p y) eqn:E; [discriminate|]. destruct Hin as [<-|Hin]; [exact E|apply IH; assumption].
Qed.
Lemma acts_inserts ml s : (forall m, In m ml -> is_insert m = true) -> acts ml s = rev (ins_texts ml) ++ s.
Proof.
  revert s. induction ml as [|m t IH]; intros s H; [reflexivity|].
  assert (Hm := H m (or_introl eq_refl)). unfold acts. cbn [fold_left]. fold (acts t (act m s)).
  rewrite IH by (intros m' Hin; apply H; right; exact Hin).
  unfold ins_texts. cbn [flat_map]. fold (ins_texts t).
  destruct m as [l0 t0|l0 t0|l0 t0|l0]; try discriminate; cbn [act ins_text app rev]; rewrite <- app_assoc; reflexivity.
Qed.
Lemma acts_appends ml x s : (forall m, In m ml -> is_append m = true) -> acts ml (x :: s) = fold_left String.append (app_texts ml) x :: s.
Proof.
  revert x. induction ml as [|m t IH]; intros x H; [reflexivity|].
  assert (Hm := H m (or_introl eq_refl)). unfold acts. cbn [fold_left]. fold (acts t (act m (x :: s))).
  destruct m as [l0 t0|l0 t0|l0 t0|l0]; try discriminate. cbn [act].
  rewrite IH by (intros m' Hin; apply H; right; exact Hin). reflexivity.
Qed.
Lemma cnt_pos_exists p ml : 0 < cnt p ml -> exists m, In m ml /\ p m = true.
Proof.
  unfold cnt. induction ml as [|y t IH]; cbn; [lia|]. destruct (p y) eqn:E; [intros _; exists y; auto|].
  intro H. destruct (IH H) as [m [Hin Hp]]. exists m; auto.
Qed.
Lemma kind_cases m : is_remove m = true \/ is_insert m = true \/ is_append m = true.
Proof. destruct m; cbn; auto. Qed.

Lemma acts_line ml x s :
  psorted ml -> wf_line ml = true ->
  acts ml (x :: s) = render_line ml x ++ s.
Proof.
  intros Hs Hw. unfold wf_line in Hw. apply andb_true_iff in Hw. destruct Hw as [Hr Ha].
  apply Nat.leb_le in Hr. apply orb_true_iff in Ha. unfold render_line.
  destruct (Nat.ltb_spec 0 (cnt is_append ml)) as [Hap|Hap].
  - (* only appends *)
    destruct Ha as [Ha|Ha]; apply Nat.eqb_eq in Ha; [lia|].
    rewrite acts_appends; [reflexivity|]. intros m Hin. apply (cnt0_forall _ _ Ha) in Hin. apply negb_false_iff in Hin. exact Hin.
  - assert (Hna : forall m, In m ml -> is_append m = false) by (apply cnt0_forall; lia).
    clear Ha Hap. destruct ml as [|m t]; [reflexivity|].
    destruct (is_remove m) eqn:Em.
    + (* the Remove comes first; the rest are insertions *)
      assert (Ht : cnt is_remove t = 0) by (unfold cnt in *; cbn in Hr; rewrite Em in Hr; cbn in Hr; lia).
      assert (Hins : forall m', In m' t -> is_insert m' = true).
      { intros m' Hin. destruct (kind_cases m') as [K|[K|K]]; [|exact K|].
        - rewrite (cnt0_forall _ _ Ht m' Hin) in K. discriminate.
        - rewrite (Hna m' (or_intror Hin)) in K. discriminate. }
      destruct m; try discriminate. unfold acts. cbn [fold_left act]. fold (acts t s).
      rewrite (acts_inserts t s Hins).
      replace (0 <? cnt is_remove (MRemove l :: t)) with true by (symmetry; apply Nat.ltb_lt; unfold cnt; cbn; lia).
      unfold ins_texts. cbn [flat_map ins_text app]. rewrite app_nil_r. reflexivity.
    + (* no Remove at the head: none later either, priorities never increase *)
      inversion Hs as [|m0 t0 Hp Hs']; subst.
      assert (Hm : is_insert m = true).
      { destruct (kind_cases m) as [K|[K|K]]; [congruence|exact K|rewrite (Hna m (or_introl eq_refl)) in K; discriminate]. }
      assert (Hins : forall m', In m' (m :: t) -> is_insert m' = true).
      { intros m' [<-|Hin]; [exact Hm|]. destruct (kind_cases m') as [K|[K|K]]; [|exact K|rewrite (Hna m' (or_intror Hin)) in K; discriminate].
        specialize (Hp m' Hin). destruct m'; try discriminate. destruct m; try discriminate; cbn in Hp; lia. }
      rewrite (acts_inserts (m :: t) (x :: s) Hins).
      assert (Hz : cnt is_remove (m :: t) = 0).
      { clear - Hins. unfold cnt. induction (m :: t) as [|a r IHr]; [reflexivity|]. cbn.
        assert (Ha := Hins a (or_introl eq_refl)). destruct a; try discriminate; cbn; apply IHr; intros m' Hin; apply Hins; right; exact Hin. }
      rewrite Hz. cbn [Nat.ltb Nat.leb]. rewrite <- app_assoc. reflexivity.
Qed.

Lemma spec_render ms l ls :
  ksorted ms -> (forall l', wf_at l' ms = true) ->
  (forall m, In m ms -> line m = l + List.length ls -> is_insert m = true) ->
  spec ms l ls = render ms l ls.
Proof.
  intros Hk Hw. revert l. induction ls as [|x xs IH]; intros l Hend; cbn [spec render].
  - rewrite acts_inserts; [apply app_nil_r|]. intros m Hin. apply at_line_in in Hin. destruct Hin as [Hin El].
    apply Hend; [exact Hin|cbn; lia].
  - rewrite IH by (intros m Hin El; apply Hend; [exact Hin|cbn [List.length]; lia]).
    apply acts_line; [apply at_line_psorted; exact Hk|apply Hw].
Qed.

Theorem apply_mutations_render ms ls :
  (forall m, In m ms -> in_range (List.length ls) m) ->
  (forall l, wf_at l ms = true) ->
  apply_mutations ms ls = render (sort_desc ms) 1 ls.
Proof.
  intros Hr Hw. rewrite apply_mutations_spec.
  - apply spec_render; [apply sort_desc_ksorted|intro l; rewrite wf_at_sort; apply Hw|].
    intros m Hin El. apply (proj1 (sort_desc_in _ _)) in Hin. destruct (Hr m Hin) as [_ H]. destruct (is_insert m); [reflexivity|lia].
  - intros m Hin. destruct (Hr m Hin) as [H1 H2]. destruct (is_insert m); lia.
Qed.

(* every original line that is not removed survives, in order, only ever extended by appended text: the output restricted to
   "original" positions. [origin] tags each output line of [render] with where it came from. *)
Inductive origin := Orig (l : nat) | Added (l : nat).
Definition origin_line (ml : list mut) (l : nat) : list origin :=
  if 0 <? cnt is_append ml then [Orig l] else map (fun _ => Added l) (rev (ins_texts ml)) ++ (if 0 <? cnt is_remove ml then [] else [Orig l]).
Fixpoint origins (ms : list mut) (l : nat) (n : nat) : list origin :=
  match n with
  | O => map (fun _ => Added l) (rev (ins_texts (at_line l ms)))
  | S k => origin_line (at_line l ms) l ++ origins ms (S l) k
  end.
Lemma origins_length ms l ls : List.length (origins ms l (List.length ls)) = List.length (render ms l ls).
Proof.
  revert l. induction ls as [|x xs IH]; intro l; cbn [origins render List.length]; [apply map_length|].
  rewrite !app_length, IH. f_equal. unfold origin_line, render_line.
  destruct (0 <? cnt is_append (at_line l ms)); [reflexivity|]. rewrite !app_length, map_length.
  destruct (0 <? cnt is_remove (at_line l ms)); reflexivity.
Qed.
(* the original lines that survive are exactly the non-removed ones, in order *)
Definition orig_of (o : origin) : list nat := match o with Orig l => [l] | Added _ => [] end.
Definition removed_at (ms : list mut) (l : nat) : bool := (0 <? cnt is_remove (at_line l ms)) && negb (0 <? cnt is_append (at_line l ms)).
Lemma origins_survivors ms l n :
  flat_map orig_of (origins ms l n) = filter (fun k => negb (removed_at ms k)) (seq l n).
Proof.
  revert l. induction n as [|n IH]; intro l; cbn [origins seq filter].
  - induction (rev (ins_texts (at_line l ms))) as [|a t IHt]; [reflexivity|exact IHt].
  - rewrite flat_map_app, IH. unfold origin_line, removed_at.
    destruct (0 <? cnt is_append (at_line l ms)); [rewrite andb_false_r; reflexivity|]. rewrite andb_true_r.
    rewrite flat_map_app.
    assert (E : flat_map orig_of (map (fun _ : string => Added l) (rev (ins_texts (at_line l ms)))) = []).
    { induction (rev (ins_texts (at_line l ms))) as [|a t IHt]; [reflexivity|exact IHt]. }
    rewrite E. destruct (0 <? cnt is_remove (at_line l ms)); reflexivity.
Qed.

(* ---------- when W1 fails: the second Remove deletes the line that followed ---------- *)
Lemma double_remove_eats_next l x y s : acts [MRemove l; MRemove l] (x :: y :: s) = s.
Proof. reflexivity. Qed.
