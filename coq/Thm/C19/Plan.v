(* Thm/C19/Plan.v -- what the planner (Sem/DecorateModel.v) decides: declarations only grow; removals address existing contracts
   only and come with their replacement; and the two defects of the planner as refutations with concrete witnesses. *)
From Coq Require Import List Arith Bool String Lia.
Import ListNotations.
Require Import Transformer DecorateModel Lines Render.
Open Scope string_scope.
Local Open Scope list_scope.

Definition no_head : head := {| doc_end := None; shebang := false |}.
Definition all_types : types := {| t_raises := true; t_has := true; t_safe := true; t_pure := true; t_import := true |}.

Lemma in_remove_contract c m : In m (remove_contract c) -> exists l, m = PRemove l /\ c_line c <= l <= c_line c + (c_last c - c_line c).
Proof.
  unfold remove_contract. intro H. apply in_map_iff in H. destruct H as [l [E Hin]]. apply in_seq in Hin. exists l. split; [auto|lia].
Qed.

(* (1) a new raises contract lists every exception declared before, then the new ones *)
Theorem excs_grow ty f :
  f_new_excs f <> [] -> t_raises ty = true ->
  In (PInsertC (get_insert_line f) CRaises (declared_excs f ++ f_new_excs f) (f_col f)) (mutations_excs ty f).
Proof.
  intros Hn Ht. unfold mutations_excs. destruct (f_new_excs f) as [|e es] eqn:E; [contradiction|].
  rewrite Ht. cbn [negb]. apply in_or_app. right. left. reflexivity.
Qed.
(* (2) exception contracts are only ever removed together with that replacement, and only existing contracts are removed *)
Theorem excs_remove_replaced ty f l :
  In (PRemove l) (mutations_excs ty f) ->
  (exists c, In c (f_contracts f) /\ exc_cat c = true /\ c_inherited c = false /\ c_line c <= l <= c_line c + (c_last c - c_line c)) /\
  In (PInsertC (get_insert_line f) CRaises (declared_excs f ++ f_new_excs f) (f_col f)) (mutations_excs ty f).
Proof.
  unfold mutations_excs. destruct (f_new_excs f) as [|e es] eqn:E.
  - destruct (nonempty (declared_excs f)); [intros []|]. destruct (negb (t_safe ty || t_pure ty)); [intros []|].
    destruct (has_contract f [CPure; CSafe]); [intros []|]. intros [H|[]]. discriminate.
  - destruct (negb (t_raises ty)); [intros []|]. intro H. split.
    + apply in_app_or in H. destruct H as [H|[H|[]]]; [|discriminate].
      apply in_flat_map in H. destruct H as [c [Hc Hin]]. exists c. destruct (exc_cat c) eqn:Ec; [|destruct Hin].
      destruct (c_inherited c) eqn:Ei; [destruct Hin|]. cbn [negb andb] in Hin.
      apply in_app_or in Hin. destruct Hin as [Hin|Hin].
      * apply in_remove_contract in Hin. destruct Hin as [l' [El Hl]]. inversion El; subst l'. auto.
      * destruct (cat_eqb (c_cat c) CPure); [destruct Hin as [Hin|[]]; discriminate|destruct Hin].
    + apply in_or_app. right. left. reflexivity.
Qed.
(* (3) the same for markers: the new has contract lists every marker declared before (quoted), then the new ones *)
Theorem markers_grow q ty f acc :
  f_new_markers f <> [] -> t_has ty = true ->
  In (PInsertC (get_insert_line f) CHas (map (quoted q) (declared_markers f ++ f_new_markers f)) (f_col f)) (collect_markers q ty f acc).
Proof.
  intros Hn Ht. unfold collect_markers. rewrite Ht. cbn [negb orb]. destruct (f_new_markers f) as [|e es] eqn:E; [contradiction|].
  apply in_or_app. right. left. reflexivity.
Qed.
Lemma in_remove_first m x l : In x (remove_first m l) -> In x l.
Proof.
  induction l as [|y t IH]; cbn; [auto|]. destruct (pmut_eqb y m); [auto|]. intros [H|H]; [auto|right; apply IH; exact H].
Qed.
Lemma markers_fold_remove il col cs acc l :
  In (PRemove l) (fold_left (markers_step il col) cs acc) ->
  In (PRemove l) acc \/ exists c, In c cs /\ has_cat c = true /\ c_inherited c = false /\ c_line c <= l <= c_line c + (c_last c - c_line c).
Proof.
  revert acc. induction cs as [|c t IH]; intros acc H; [left; exact H|]. cbn [fold_left] in H.
  apply IH in H. destruct H as [H|[c' [Hin Hc]]]; [|right; exists c'; split; [right; exact Hin|exact Hc]].
  unfold markers_step in H. destruct (has_cat c) eqn:Ec; cbn [negb] in H; [|left; exact H].
  destruct (c_inherited c) eqn:Ei; [left; exact H|].
  destruct (existsb (pmut_eqb (PRemove (c_line c))) acc).
  - left. apply in_remove_first in H. exact H.
  - apply in_app_or in H. destruct H as [H|H]; [left; exact H|]. apply in_app_or in H. destruct H as [H|H].
    + right. exists c. split; [left; reflexivity|]. split; [exact Ec|]. split; [exact Ei|].
      apply in_remove_contract in H. destruct H as [l' [El Hl]]. inversion El; subst l'. exact Hl.
    + destruct (cat_eqb (c_cat c) CPure); [destruct H as [H|[]]; discriminate|destruct H].
Qed.
(* a has / pure contract is only removed together with its replacement; only lines of existing contracts are removed *)
Theorem markers_remove_replaced q ty f acc l :
  In (PRemove l) (collect_markers q ty f acc) -> ~ In (PRemove l) acc ->
  (exists c, In c (f_contracts f) /\ has_cat c = true /\ c_inherited c = false /\ c_line c <= l <= c_line c + (c_last c - c_line c)) /\
  In (PInsertC (get_insert_line f) CHas (map (quoted q) (declared_markers f ++ f_new_markers f)) (f_col f)) (collect_markers q ty f acc).
Proof.
  unfold collect_markers. destruct (negb (t_has ty || t_pure ty)); [intros H N; contradiction|].
  destruct (f_new_markers f) as [|e es] eqn:E.
  - destruct (has_contract f [CPure; CHas]); [intros H N; contradiction|]. intros H N. apply in_app_or in H. destruct H as [H|[H|[]]]; [contradiction|discriminate].
  - destruct (negb (t_has ty)); [intros H N; contradiction|]. intros H N. split.
    + apply in_app_or in H. destruct H as [H|[H|[]]]; [|discriminate].
      apply markers_fold_remove in H. destruct H as [H|H]; [contradiction|exact H].
    + apply in_or_app. right. left. reflexivity.
Qed.
(* (4) a function without anything new and with declarations keeps them: no mutation at all for exceptions *)
Theorem excs_nothing_new ty f : f_new_excs f = [] -> declared_excs f <> [] -> mutations_excs ty f = [].
Proof. intros E D. unfold mutations_excs. rewrite E. destruct (declared_excs f); [contradiction|reflexivity]. Qed.
(* (5) the insertion line: never above the function's own line when the decorators lie above it (CPython >= 3.8: def line) *)
Lemma gil_early fl ds line : (forall d, In d ds -> deco_line d < fl) -> ds <> [] -> gil fl ds line = fl.
Proof.
  intros H Hn. destruct ds as [|d r]; [contradiction|]. cbn [gil].
  assert (Hd := H d (or_introl eq_refl)). apply Nat.ltb_lt in Hd. rewrite Hd. reflexivity.
Qed.
Theorem insert_line_is_def_line f : (forall d, In d (f_decos f) -> deco_line d < f_line f) -> get_insert_line f = f_line f.
Proof.
  intro H. unfold get_insert_line. destruct (f_decos f) as [|d r] eqn:E; [reflexivity|].
  apply gil_early; [exact H|discriminate].
Qed.
(* new contracts go below deal.inherit when it is the innermost decorator (above it they would wrap the descriptor) *)
Lemma gil_last_inherit fl ds ln line : (forall d, In d ds -> fl <= deco_line d) -> fl <= ln -> gil fl (ds ++ [DInherit ln]) line = ln + 1.
Proof.
  intros Hd Hl. revert line. induction ds as [|d r IH]; intro line; cbn [app gil deco_line].
  - assert (E : Nat.ltb ln fl = false) by (apply Nat.ltb_ge; exact Hl). rewrite E. reflexivity.
  - assert (E : Nat.ltb (deco_line d) fl = false) by (apply Nat.ltb_ge; apply Hd; left; reflexivity). rewrite E.
    assert (Hr : forall d', In d' r -> fl <= deco_line d') by (intros d' H; apply Hd; right; exact H).
    destruct d as [l0 n|l0|l0]; [destruct (is_static_or_class n)| |]; apply IH; exact Hr.
Qed.
Theorem insert_below_inherit f ds ln :
  f_decos f = ds ++ [DInherit ln] -> (forall d, In d ds -> f_line f <= deco_line d) -> f_line f <= ln -> get_insert_line f = ln + 1.
Proof. intros E Hd Hl. unfold get_insert_line. rewrite E. apply gil_last_inherit; assumption. Qed.
(* (6) the import goes to line 1 or right after an import statement / a __future__ import *)
Theorem import_line_pos h body : 1 <= import_line h body.
Proof.
  unfold import_line. assert (G : forall l st, 1 <= fst st -> 1 <= fst (fold_left import_step l st)).
  { induction l as [|s t IH]; intros st Hn; [exact Hn|]. cbn [fold_left]. apply IH. unfold import_step.
    destruct (snd st); [exact Hn|]. destruct s as [ln ns|ln m|]; cbn [fst]; [lia| |exact Hn].
    destruct (String.eqb m "__future__"); lia. }
  apply G. cbn [fst]. unfold import_start. destruct (doc_end h); [lia|destruct (shebang h); lia].
Qed.
(* an import below the first other statement (a function, an assignment) does not move the line: import deal stays above the decorators *)
Theorem import_line_stops h pre rest : import_line h (pre ++ SOther :: rest) = import_line h (pre ++ [SOther]).
Proof.
  unfold import_line. rewrite !fold_left_app. cbn [fold_left].
  assert (S : forall l st, snd st = true -> fold_left import_step l st = st).
  { induction l as [|s t IH]; intros st H; [reflexivity|]. cbn [fold_left]. unfold import_step at 2. rewrite H. apply IH. exact H. }
  rewrite S; [reflexivity|]. generalize (fold_left import_step pre (import_start h, false)). intros [n b]. unfold import_step. cbn [snd fst].
  destruct b; reflexivity.
Qed.
(* without imports the line is the one after the docstring (or after the shebang) *)
Theorem import_after_docstring h e : doc_end h = Some e -> import_line h [] = e + 1.
Proof. intro H. unfold import_line, import_start. rewrite H. reflexivity. Qed.
(* with the has transformation disabled no has / pure contract is ever removed *)
Theorem has_disabled_keeps_declared q ty f acc l : t_has ty = false -> In (PRemove l) (collect_markers q ty f acc) -> In (PRemove l) acc.
Proof.
  intros Ht H. unfold collect_markers in H. destruct (negb (t_has ty || t_pure ty)); [exact H|].
  destruct (f_new_markers f).
  - destruct (has_contract f [CPure; CHas]); [exact H|]. apply in_app_or in H. destruct H as [H|[H|[]]]; [exact H|discriminate].
  - rewrite Ht in H. exact H.
Qed.
(* a removed contract disappears completely: every line from its first to its last *)
Theorem remove_contract_all_lines c l : c_line c <= l <= c_last c -> In (PRemove l) (remove_contract c).
Proof. intro H. unfold remove_contract. apply in_map. apply in_seq. lia. Qed.

(* ---------- witnesses ---------- *)
(* @deal.pure over a function with a new exception and a new marker is split once: raises + has *)
Definition pure_fn : func :=
  {| f_line := 2; f_col := 0; f_decos := [DOther 2]; f_contracts := [{| c_cat := CPure; c_line := 2; c_last := 2; c_excs := []; c_markers := []; c_inherited := false |}];
     f_new_excs := ["ValueError"]; f_new_markers := ["stdout"] |}.
Definition pure_src : list string := ["import deal"; "@deal.pure"; "def f():"; "    print(1)"; "    raise ValueError"].
Example pure_split_once :
  plan "'" all_types no_head [SImport 1 ["deal"]] [pure_fn]
  = Some [PRemove 2; PInsertC 2 CRaises ["ValueError"] 0; PInsertC 2 CHas ["'stdout'"] 0] /\
  transform "'" all_types no_head [SImport 1 ["deal"]] [pure_fn] pure_src
  = Some ["import deal"; "@deal.has('stdout')"; "@deal.raises(ValueError)"; "def f():"; "    print(1)"; "    raise ValueError"].
Proof. split; reflexivity. Qed.
(* what two Removes of one line would do (the planner no longer produces them): the line after the decorator disappears as well *)
Example double_remove_eats_def :
  apply_mutations [MRemove 2; MRemove 2; MInsertContract 2 "@deal.raises(ValueError)"] pure_src
  = ["import deal"; "@deal.raises(ValueError)"; "    print(1)"; "    raise ValueError"]
  /\ wf_at 2 [MRemove 2; MRemove 2] = false.
Proof. split; reflexivity. Qed.
(* with HAS disabled but PURE enabled nothing is planned for a function that only has new markers *)
Definition has_fn : func :=
  {| f_line := 2; f_col := 0; f_decos := [DOther 2]; f_contracts := [{| c_cat := CHas; c_line := 2; c_last := 2; c_excs := []; c_markers := ["io"]; c_inherited := false |}];
     f_new_excs := []; f_new_markers := ["stdout"] |}.
Definition only_pure : types := {| t_raises := false; t_has := false; t_safe := false; t_pure := true; t_import := false |}.
Example has_disabled_plans_nothing : plan "'" only_pure no_head [SImport 1 ["deal"]] [has_fn] = Some [].
Proof. reflexivity. Qed.
(* a decorator that spans several lines is removed completely *)
Definition multi_fn : func :=
  {| f_line := 2; f_col := 0; f_decos := [DOther 2]; f_contracts := [{| c_cat := CRaises; c_line := 2; c_last := 4; c_excs := ["KeyError"]; c_markers := []; c_inherited := false |}];
     f_new_excs := ["ValueError"]; f_new_markers := [] |}.
Definition only_raises : types := {| t_raises := true; t_has := false; t_safe := false; t_pure := false; t_import := false |}.
Example multiline_decorator_removed :
  transform "'" only_raises no_head [SImport 1 ["deal"]] [multi_fn] ["import deal"; "@deal.raises("; "    KeyError,"; ")"; "def f():"; "    raise ValueError"]
  = Some ["import deal"; "@deal.raises(KeyError, ValueError)"; "def f():"; "    raise ValueError"].
Proof. reflexivity. Qed.

(* ---------- (7) the planner meets W1: under the layout fact that the decorators of a function occupy disjoint line ranges, no
   line is removed twice ---------- *)
Definition in_rangeb (c : contract) (l : nat) : bool := Nat.leb (c_line c) l && Nat.leb l (c_line c + (c_last c - c_line c)).
Definition is_rm (l : nat) (m : pmut) : bool := match m with PRemove l' => Nat.eqb l' l | _ => false end.
Definition removes (l : nat) (ms : list pmut) : nat := List.length (filter (is_rm l) ms).
Lemma removes_app l a b : removes l (a ++ b) = removes l a + removes l b.
Proof. unfold removes. rewrite filter_app, app_length. reflexivity. Qed.
Lemma removes_seq l a n : removes l (map PRemove (seq a n)) = if Nat.leb a l && Nat.ltb l (a + n) then 1 else 0.
Proof.
  revert a. induction n as [|n IH]; intro a.
  - cbn [seq map]. unfold removes. cbn [filter List.length].
    destruct (Nat.leb_spec a l), (Nat.ltb_spec l (a + 0)); cbn [andb]; try reflexivity; lia.
  - cbn [seq map]. unfold removes in *. cbn [filter is_rm]. specialize (IH (S a)).
    destruct (Nat.eqb_spec a l) as [E|E].
    + cbn [List.length]. rewrite IH. subst a.
      destruct (Nat.leb_spec (S l) l), (Nat.leb_spec l l), (Nat.ltb_spec l (S l + n)), (Nat.ltb_spec l (l + S n)); cbn [andb]; try reflexivity; lia.
    + rewrite IH.
      destruct (Nat.leb_spec (S a) l), (Nat.leb_spec a l), (Nat.ltb_spec l (S a + n)), (Nat.ltb_spec l (a + S n)); cbn [andb]; try reflexivity; lia.
Qed.
Lemma removes_contract l c : removes l (remove_contract c) = if in_rangeb c l then 1 else 0.
Proof.
  unfold remove_contract. rewrite removes_seq. unfold in_rangeb. destruct (Nat.leb (c_line c) l); cbn [andb]; [|reflexivity].
  destruct (Nat.ltb_spec l (c_line c + S (c_last c - c_line c))), (Nat.leb_spec l (c_line c + (c_last c - c_line c))); try reflexivity; lia.
Qed.
Definition hits (S : contract -> bool) (cs : list contract) (l : nat) : nat := List.length (filter (fun c => S c && in_rangeb c l) cs).
(* the contracts whose decorator is on this function: inherited ones are never removed *)
Definition rm_exc (c : contract) : bool := exc_cat c && negb (c_inherited c).
Definition rm_has (c : contract) : bool := has_cat c && negb (c_inherited c).
Lemma removes_excs_part l il col cs :
  removes l (flat_map (fun c => if exc_cat c && negb (c_inherited c) then remove_contract c ++ (if cat_eqb (c_cat c) CPure then [PInsertC il CHas [] col] else []) else []) cs)
  = hits rm_exc cs l.
Proof.
  induction cs as [|c t IH]; [reflexivity|]. cbn [flat_map]. rewrite removes_app, IH. unfold hits, rm_exc. cbn [filter].
  destruct (exc_cat c && negb (c_inherited c)); cbn [andb].
  - rewrite removes_app, removes_contract. destruct (in_rangeb c l); cbn [List.length]; destruct (cat_eqb (c_cat c) CPure); cbn; lia.
  - reflexivity.
Qed.
Definition excs_active (ty : types) (f : func) : bool := nonempty (f_new_excs f) && t_raises ty.
Lemma removes_excs l ty f : removes l (mutations_excs ty f) = if excs_active ty f then hits rm_exc (f_contracts f) l else 0.
Proof.
  unfold mutations_excs, excs_active. destruct (f_new_excs f) as [|e es] eqn:E; cbn [nonempty andb].
  - destruct (nonempty (declared_excs f)); [reflexivity|]. destruct (negb (t_safe ty || t_pure ty)); [reflexivity|].
    destruct (has_contract f [CPure; CSafe]); reflexivity.
  - destruct (t_raises ty); cbn [negb]; [|reflexivity]. rewrite removes_app, removes_excs_part. cbn. lia.
Qed.
Lemma removes_remove_first l m acc : is_rm l m = false -> removes l (remove_first m acc) = removes l acc.
Proof.
  intro Hm. induction acc as [|x t IH]; [reflexivity|]. cbn [remove_first]. destruct (pmut_eqb x m) eqn:E.
  - unfold removes. cbn [filter]. destruct (is_rm l x) eqn:Ex; [|reflexivity].
    exfalso. destruct x, m; cbn in E, Ex, Hm; try discriminate. apply Nat.eqb_eq in E. subst. congruence.
  - unfold removes in *. cbn [filter]. destruct (is_rm l x); cbn [List.length]; rewrite IH; reflexivity.
Qed.
Lemma has_remove_mono x acc extra : existsb (pmut_eqb (PRemove x)) acc = true -> existsb (pmut_eqb (PRemove x)) (acc ++ extra) = true.
Proof. intro H. rewrite existsb_app, H. reflexivity. Qed.
Lemma has_remove_remove_first x m acc : (forall y, m <> PRemove y) ->
  existsb (pmut_eqb (PRemove x)) (remove_first m acc) = existsb (pmut_eqb (PRemove x)) acc.
Proof.
  intro Hm. induction acc as [|a t IH]; [reflexivity|]. cbn [remove_first]. destruct (pmut_eqb a m) eqn:E.
  - cbn [existsb]. destruct (pmut_eqb (PRemove x) a) eqn:Ea; [|reflexivity].
    exfalso. destruct a; cbn in Ea; try discriminate. destruct m; cbn in E; try discriminate. apply (Hm l0). reflexivity.
  - cbn [existsb]. rewrite IH. reflexivity.
Qed.
Lemma hits_cons S c t l : hits S (c :: t) l = (if S c && in_rangeb c l then 1 else 0) + hits S t l.
Proof. unfold hits. cbn [filter]. destruct (S c && in_rangeb c l); reflexivity. Qed.
(* the markers half adds, for line l, at most the has-family contracts in range that are not already removed *)
Lemma removes_markers_fold l il col cs acc (R : contract -> bool) :
  (forall c, In c cs -> R c = true -> existsb (pmut_eqb (PRemove (c_line c))) acc = true) ->
  removes l (fold_left (markers_step il col) cs acc) <= removes l acc + hits (fun c => rm_has c && negb (R c)) cs l.
Proof.
  revert acc. induction cs as [|c t IH]; intros acc HR; [unfold hits; cbn [fold_left filter List.length]; lia|]. cbn [fold_left].
  assert (Ht : forall acc', (forall x, existsb (pmut_eqb (PRemove x)) acc = true -> existsb (pmut_eqb (PRemove x)) acc' = true) ->
               forall c', In c' t -> R c' = true -> existsb (pmut_eqb (PRemove (c_line c'))) acc' = true).
  { intros acc' Hm c' Hin Hr. apply Hm. apply HR; [right; exact Hin|exact Hr]. }
  rewrite hits_cons. unfold markers_step at 2. change (rm_has c) with (has_cat c && negb (c_inherited c)). destruct (has_cat c) eqn:Eh; cbn [negb andb].
  - destruct (c_inherited c) eqn:Ei; cbn [negb andb].
    { eapply Nat.le_trans; [apply IH; apply Ht; auto|]. lia. }
    destruct (existsb (pmut_eqb (PRemove (c_line c))) acc) eqn:Ex.
    + eapply Nat.le_trans; [apply IH; apply Ht; intros x Hx; rewrite has_remove_remove_first; [exact Hx|intros y; discriminate]|].
      rewrite removes_remove_first by reflexivity. lia.
    + assert (Rc : R c = false).
      { destruct (R c) eqn:Er; [|reflexivity]. rewrite (HR c (or_introl eq_refl) Er) in Ex. discriminate. }
      rewrite Rc. cbn [negb andb].
      eapply Nat.le_trans; [apply IH; apply Ht; intros x Hx; apply has_remove_mono; exact Hx|].
      rewrite !removes_app, removes_contract.
      assert (Z : removes l (if cat_eqb (c_cat c) CPure then [PInsertC il CSafe [] col] else []) = 0) by (destruct (cat_eqb (c_cat c) CPure); reflexivity).
      rewrite Z. destruct (in_rangeb c l); lia.
  - eapply Nat.le_trans; [apply IH; apply Ht; auto|]. lia.
Qed.
Lemma hits_disjoint_sum A B cs l : (forall c, A c && B c = false) -> hits A cs l + hits B cs l <= hits (fun _ => true) cs l.
Proof.
  intro H. induction cs as [|c t IH]; [unfold hits; cbn; lia|]. rewrite !hits_cons. specialize (H c).
  destruct (A c), (B c); try discriminate; cbn [andb]; destruct (in_rangeb c l); lia.
Qed.
Lemma hits_le_all A cs l : hits A cs l <= hits (fun _ => true) cs l.
Proof. induction cs as [|c t IH]; [unfold hits; cbn; lia|]. rewrite !hits_cons. destruct (A c); cbn [andb]; destruct (in_rangeb c l); lia. Qed.
Lemma excs_has_first_line ty f c :
  excs_active ty f = true -> In c (f_contracts f) -> rm_exc c = true -> existsb (pmut_eqb (PRemove (c_line c))) (mutations_excs ty f) = true.
Proof.
  unfold excs_active, mutations_excs, rm_exc. intros Ha Hin Hc. destruct (f_new_excs f) as [|e es]; [discriminate|]. cbn [nonempty andb] in Ha. rewrite Ha. cbn [negb].
  apply existsb_exists. exists (PRemove (c_line c)). split; [|cbn; apply Nat.eqb_refl].
  apply in_or_app. left. apply in_flat_map. exists c. split; [exact Hin|]. rewrite Hc. apply in_or_app. left.
  unfold remove_contract. cbn [seq map]. left. reflexivity.
Qed.
(* the layout fact: at most one decorator of the function covers a given line *)
Definition disjoint_ranges (cs : list contract) : Prop := forall l, hits (fun _ => true) cs l <= 1.
Theorem planner_meets_w1 q ty f l :
  disjoint_ranges (f_contracts f) -> removes l (collect q ty [] f) <= 1.
Proof.
  intro Hd. specialize (Hd l). unfold collect. cbn [app].
  assert (HE : removes l (mutations_excs ty f) <= hits (fun c => rm_exc c && excs_active ty f) (f_contracts f) l).
  { rewrite removes_excs. destruct (excs_active ty f).
    - unfold hits. rewrite (filter_ext (fun c => rm_exc c && true && in_rangeb c l) (fun c => rm_exc c && in_rangeb c l)); [lia|].
      intro c. rewrite andb_true_r. reflexivity.
    - lia. }
  unfold collect_markers. destruct (negb (t_has ty || t_pure ty)).
  { eapply Nat.le_trans; [exact HE|]. eapply Nat.le_trans; [apply hits_le_all|exact Hd]. }
  destruct (f_new_markers f) as [|m ms].
  { destruct (has_contract f [CPure; CHas]).
    - eapply Nat.le_trans; [exact HE|]. eapply Nat.le_trans; [apply hits_le_all|exact Hd].
    - rewrite removes_app. cbn. eapply Nat.le_trans; [|exact Hd]. eapply Nat.le_trans; [|apply (hits_le_all (fun c => rm_exc c && excs_active ty f))]. lia. }
  destruct (negb (t_has ty)).
  { eapply Nat.le_trans; [exact HE|]. eapply Nat.le_trans; [apply hits_le_all|exact Hd]. }
  rewrite removes_app. cbn [removes filter is_rm List.length]. rewrite Nat.add_0_r.
  eapply Nat.le_trans.
  - apply (removes_markers_fold l _ _ (f_contracts f) (mutations_excs ty f) (fun c => rm_exc c && excs_active ty f)).
    intros c Hin Hr. apply andb_true_iff in Hr. destruct Hr as [Hc Ha]. apply excs_has_first_line; assumption.
  - eapply Nat.le_trans; [|exact Hd]. eapply Nat.le_trans; [apply Nat.add_le_mono_r; exact HE|].
    apply hits_disjoint_sum. intro c. destruct (rm_exc c && excs_active ty f); cbn; [rewrite andb_false_r|]; reflexivity.
Qed.
