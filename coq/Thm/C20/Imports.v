(* Thm/C20/Imports.v -- on the import state machine Sem/ImportModel.v. *)
From Coq Require Import List Bool String.
Import ListNotations.
Require Import Base Show HasPatcher ImportModel.
Open Scope string_scope.

Lemma replace_installs l : existsb (finder_eqb PathFinderF) l = true -> existsb (finder_eqb DealFinderF) (replace_finder PathFinderF DealFinderF l) = true.
Proof. induction l as [|x t IH]; cbn; [discriminate|]. destruct x; cbn; auto. Qed.
Lemma replace_back l : existsb (finder_eqb DealFinderF) l = false ->
  replace_finder DealFinderF PathFinderF (replace_finder PathFinderF DealFinderF l) = l.
Proof.
  induction l as [|x t IH]; cbn; [reflexivity|]. destruct x; cbn.
  - intros _. reflexivity.
  - discriminate.
Qed.

(* activation is idempotent: a second activate changes nothing and says so *)
Theorem activate_idempotent s :
  (active s = true \/ existsb (finder_eqb PathFinderF) (meta_path s) = true) ->
  let s1 := fst (activate s) in activate s1 = (s1, false).
Proof.
  intro Hp. cbv zeta.
  assert (Hcase : fst (activate s) = s \/
                  (enabled s = true /\ fst (activate s) = {| meta_path := replace_finder PathFinderF DealFinderF (meta_path s); enabled := enabled s; loaded := loaded s |}
                   /\ active s = false)).
  { unfold activate. destruct (enabled s); cbn; [|left; reflexivity]. destruct (active s); cbn; [left; reflexivity|right; auto]. }
  destruct Hcase as [E|(He & E & Ha)]; rewrite E.
  - unfold activate. destruct (enabled s) eqn:He; cbn; [|reflexivity].
    destruct (active s) eqn:Ha; cbn; [reflexivity|].
    exfalso. unfold activate in E. rewrite He, Ha in E. cbn in E.
    destruct Hp as [Hp|Hp]; [discriminate|].
    apply (f_equal meta_path) in E. cbn in E.
    unfold active in Ha. rewrite <- E in Ha. rewrite (replace_installs _ Hp) in Ha. discriminate.
  - destruct Hp as [Hp|Hp]; [congruence|].
    unfold activate. cbn [enabled]. rewrite He. cbn [negb].
    unfold active. cbn [meta_path]. rewrite (replace_installs _ Hp). reflexivity.
Qed.
(* ... and reversible *)
Theorem deactivate_inverse s :
  enabled s = true -> active s = false -> existsb (finder_eqb PathFinderF) (meta_path s) = true ->
  let s1 := fst (activate s) in snd (activate s) = true /\ active s1 = true /\
  snd (deactivate s1) = true /\ meta_path (fst (deactivate s1)) = meta_path s.
Proof.
  intros He Ha Hp. unfold activate. rewrite He, Ha. cbn [negb fst snd].
  match goal with |- context [active ?r = true] => set (s1 := r) end.
  assert (H1 : active s1 = true) by (unfold active, s1; cbn [meta_path]; apply replace_installs; exact Hp).
  split; [reflexivity|]. split; [exact H1|]. unfold deactivate. rewrite H1. cbn [negb fst snd meta_path]. split; [reflexivity|].
  unfold s1. cbn [meta_path]. apply replace_back. exact Ha.
Qed.
(* with contracts disabled, activation is inert *)
Theorem activate_disabled s : enabled s = false -> activate s = (s, false).
Proof. intro H. unfold activate. rewrite H. reflexivity. Qed.

(* a module that declares module-load contracts (the statement runs, its arguments evaluate) imported without activation:
   RuntimeError, and nothing is registered *)
Theorem requires_activation s name src n cs :
  enabled s = true -> active s = false -> m_calls_module_load src = Some (S n) -> m_arg_error src = None ->
  exec_body s src cs = (if existsb restricts_exc cs then IExc "RaisesContractError" else IExc "RuntimeError") /\
  import_module s name src = (s, IExc "RuntimeError").
Proof.
  intros He Ha Hc Hn.
  assert (Hr : run_time_call s src = Some (IExc "RuntimeError")) by (unfold run_time_call; rewrite Hc, Hn, He, Ha; reflexivity).
  split.
  - unfold exec_body. rewrite Hr. reflexivity.
  - unfold import_module. rewrite Ha. cbn. unfold exec_body. rewrite Hr. reflexivity.
Qed.

(* a module without declaration imports exactly as without deal, activated or not *)
Theorem no_declaration_activated s name src :
  active s = true -> get_contracts (m_body src) = [] ->
  fst (import_module s name src) = fst (let r := exec_body s src [] in match r with IOk => ({| meta_path := meta_path s; enabled := enabled s; loaded := name :: loaded s |}, IOk) | e => (s, e) end)
  /\ snd (import_module s name src) = exec_body s src [].
Proof. intros Ha H. unfold import_module. rewrite Ha, H. cbn. destruct (enabled s); cbn; destruct (exec_body s src []); split; reflexivity. Qed.

(* an unsupported declaration is rejected loudly: the import fails and nothing is registered *)
Theorem unsupported_loud s name src e rest :
  active s = true -> enabled s = true -> get_contracts (m_body src) = e :: rest -> exec_contract e = CNone ->
  import_module s name src = (s, IExc "RuntimeError").
Proof. intros Ha Hen Hg He. unfold import_module. rewrite Ha, Hen, Hg. cbn. rewrite He. reflexivity. Qed.
(* with contracts disabled the loader is inert: the import is the plain import, whatever the source declares (supported or not) *)
Theorem disabled_import_plain s name src :
  enabled s = false ->
  import_module s name src =
    (let r := exec_body s src [] in
     match r with IOk => ({| meta_path := meta_path s; enabled := enabled s; loaded := name :: loaded s |}, IOk) | x => (s, x) end).
Proof. intro Hen. unfold import_module. rewrite Hen. destruct (active s); cbn; destruct (exec_body s src []); reflexivity. Qed.

(* a failed import leaves no module registered; a successful one registers exactly that module *)
Theorem failed_import_not_registered s name src s1 c :
  import_module s name src = (s1, IExc c) -> s1 = s.
Proof.
  unfold import_module. destruct (active s).
  - cbn [negb]. destruct (enabled s); cbn [negb]; [|destruct (exec_body s src []); intro H; inversion H; reflexivity].
    destruct (get_contracts (m_body src)) as [|e rest].
    + cbn. destruct (exec_body s src []); intro H; inversion H; reflexivity.
    + cbn. match goal with |- context [match ?x with inl _ => _ | inr _ => _ end] => destruct x end.
      * destruct (exec_body s src _); intro H; inversion H; reflexivity.
      * intro H; inversion H; reflexivity.
  - cbn. destruct (exec_body s src []); intro H; inversion H; reflexivity.
Qed.

(* enforcement: a single supported declaration, loader installed, contracts enabled: the module body runs under exactly those contracts;
   a module that prints under a declaration that forbids stdout fails to import and is not registered; while contracts are
   disabled the declaration is inert (the contracts are ordinary runtime contracts over exec_module) *)
Theorem declared_enforced s name src e c :
  active s = true -> get_contracts (m_body src) = [e] -> exec_contract e = CSome c ->
  import_module s name src =
    (let r := exec_body s src (if enabled s then [c] else []) in
     match r with IOk => ({| meta_path := meta_path s; enabled := enabled s; loaded := name :: loaded s |}, IOk) | x => (s, x) end).
Proof. intros Ha Hg He. unfold import_module. rewrite Ha, Hg. cbn. destruct (enabled s); cbn; [rewrite He; cbn|]; reflexivity. Qed.
Theorem print_under_pure_fails s name src e :
  active s = true -> enabled s = true -> get_contracts (m_body src) = [e] -> exec_contract e = CSome KPure ->
  run_time_call s src = None -> m_prints src = true ->
  import_module s name src = (s, IExc "SilentContractError").
Proof.
  intros Ha Hen Hg He Hr Hp. rewrite (declared_enforced s name src e KPure Ha Hg He). rewrite Hen. cbv zeta.
  unfold exec_body. rewrite Hr, Hp. reflexivity.
Qed.

(* a contract that needs arguments, written without a call (deal.module_load(deal.has)), is no declaration the loader accepts:
   without a call only deal.pure and deal.safe are contracts -- everything else is rejected loudly (and never applied to exec_module) *)
Theorem bare_contract_pure_or_safe base attr c :
  exec_contract (CAttr base attr) = CSome c -> base = "deal" /\ ((attr = "pure" /\ c = KPure) \/ (attr = "safe" /\ c = KSafe)).
Proof.
  unfold exec_contract, deal_attr.
  destruct (String.eqb base "deal") eqn:Eb; cbn [negb]; [|discriminate].
  apply String.eqb_eq in Eb.
  destruct (String.eqb attr "pure") eqn:Ep.
  { apply String.eqb_eq in Ep. intro H; inversion H. auto. }
  destruct (String.eqb attr "safe") eqn:Es.
  { apply String.eqb_eq in Es. intro H; inversion H. auto. }
  destruct (String.eqb attr "has"); [discriminate|].
  destruct (String.eqb attr "raises"); [discriminate|].
  destruct (existsb (String.eqb attr) deal_names); discriminate.
Qed.
Theorem bare_factory_rejected s name src attr rest :
  active s = true -> enabled s = true -> get_contracts (m_body src) = CAttr "deal" attr :: rest -> attr <> "pure" -> attr <> "safe" ->
  import_module s name src = (s, IExc "RuntimeError").
Proof.
  intros Ha Hen Hg Hp Hs. apply (unsupported_loud s name src (CAttr "deal" attr) rest Ha Hen Hg).
  destruct (exec_contract (CAttr "deal" attr)) as [c| |] eqn:E; [|reflexivity|].
  - apply bare_contract_pure_or_safe in E. destruct E as [_ [[E _]|[E _]]]; contradiction.
  - exfalso. revert E. unfold exec_contract, deal_attr. cbn [String.eqb Ascii.eqb Bool.eqb negb].
    destruct (String.eqb attr "pure"); [discriminate|]. destruct (String.eqb attr "safe"); [discriminate|].
    destruct (String.eqb attr "has"); [discriminate|]. destruct (String.eqb attr "raises"); [discriminate|].
    destruct (existsb (String.eqb attr) deal_names); discriminate.
Qed.
