(* Thm/C15/Cases.v -- deal.cases as generated from deal/_testing.py: which candidates become test cases, and how one case is judged.
   hypothesis is an oracle: it hands candidates (args, kwargs) to the wrapper. *)
From Coq Require Import List ZArith Bool String.
Import ListNotations.
Require Import Base Prog Sig Interp InterpFacts StmtFacts Model Validators Loops Testing.
Set Implicit Arguments.

Section Cases.
  Variable ftab : fid -> option fdef.
  Notation I := (interp ftab).
  Notation run_vals := (run_vals ftab).

  (* ---------- judging one case ---------- *)
  Section Judge.
    Import TestCaseCall.
    Variable tc : testcase.
    Theorem case_returns n w v w1 :
      I n (call_decorated (tc_func tc) (tc_args tc) (tc_kwargs tc)) w = Done (inl v) w1 -> I n (run tc) w = Done (inl v) w1.
    Proof.
      intro H. unfold run, body, tail0. erewrite run_body_seq_normal.
      2:{ unfold stmt0, s_try. apply interp_try_except_ret. apply assign_done. exact H. }
      unfold tail1. apply run_body_seq_return with (e1 := set_result v env0). unfold stmt1. apply return_done. apply interp_ret.
    Qed.
    Theorem case_no_return n w e w1 :
      I n (call_decorated (tc_func tc) (tc_args tc) (tc_kwargs tc)) w = Done (inr e) w1 -> suppressed tc e = true ->
      I n (run tc) w = Done (inl NoReturnV) w1.
    Proof.
      intros H Hs. unfold run, body, tail0. apply run_body_seq_return with (e1 := env0).
      unfold stmt0, s_try. erewrite interp_try_except_raise by (apply assign_raise; exact H).
      cbn [pick]. rewrite Hs. erewrite interp_in_handler_done by (apply return_done; apply interp_ret). reflexivity.
    Qed.
    Theorem case_propagates n w e w1 :
      I n (call_decorated (tc_func tc) (tc_args tc) (tc_kwargs tc)) w = Done (inr e) w1 -> suppressed tc e = false ->
      I n (run tc) w = Done (inr e) w1.
    Proof.
      intros H Hs. unfold run, body, tail0. apply run_body_seq_raise.
      unfold stmt0, s_try. erewrite interp_try_except_raise by (apply assign_raise; exact H).
      cbn [pick]. rewrite Hs. reflexivity.
    Qed.
  End Judge.

  (* ---------- which candidates are handed to the test ---------- *)
  Section Wrapper.
    Import CasesWrapper.
    Variables (test_func : testcase -> prog value) (cs : casesobj).
    Let body1 : stmt env unit :=
      fun env => try_except (s_do (R:=unit) (fun env => validate (l_validator env) (fst (l_ex env)) (snd (l_ex env)) None) env)
                            (fun e => if own_error (l_validator env) e then Some reject else None).

    Lemma filter_accept n l : forall e w w1,
      run_vals n l (fst (l_ex e)) (snd (l_ex e)) None w = Done (inl tt) w1 ->
      exists e1, I n (s_for_list set_validator l body1 e) w = Done (inl (CNormal, e1)) w1 /\ l_ex e1 = l_ex e.
    Proof.
      induction l as [|v t IH]; intros e w w1 H.
      - cbn in H. inversion H; subst. exists e. rewrite for_nil. auto.
      - cbn [run_vals] in H.
        destruct (I n (validate v (fst (l_ex e)) (snd (l_ex e)) None) w) as [[[]|x] w2|? ? w2|] eqn:E; try discriminate.
        assert (Hb : I n (body1 (set_validator v e)) w = Done (inl (CNormal, set_validator v e)) w2).
        { unfold body1. apply interp_try_except_ret. apply do_done. exact E. }
        erewrite for_cons_normal by exact Hb.
        destruct (IH (set_validator v e) w2 w1 H) as (e1 & H1 & H2). exists e1. split; [exact H1|exact H2].
    Qed.
    (* the first precondition that does not accept raises its own violation error: the candidate is rejected *)
    Lemma filter_reject n l1 v l2 : forall e w w1 x w2,
      run_vals n l1 (fst (l_ex e)) (snd (l_ex e)) None w = Done (inl tt) w1 ->
      I n (validate v (fst (l_ex e)) (snd (l_ex e)) None) w1 = Done (inr x) w2 -> own_error v x = true ->
      I n (s_for_list set_validator (l1 ++ v :: l2) body1 e) w = Done (inr (mk_exn RejectC [])) w2.
    Proof.
      induction l1 as [|u t IH]; intros e w w1 x w2 H Hv Ho.
      - cbn in H. inversion H; subst. cbn [app]. apply for_cons_raise. unfold body1.
        erewrite interp_try_except_raise by (apply do_raise; exact Hv). cbn [l_validator set_validator]. rewrite Ho.
        apply interp_raise.
      - cbn [run_vals] in H.
        destruct (I n (validate u (fst (l_ex e)) (snd (l_ex e)) None) w) as [[[]|y] w3|? ? w3|] eqn:E; try discriminate.
        assert (Hb : I n (body1 (set_validator u e)) w = Done (inl (CNormal, set_validator u e)) w3).
        { unfold body1. apply interp_try_except_ret. apply do_done. exact E. }
        cbn [app]. erewrite for_cons_normal by exact Hb. eapply IH; eassumption.
    Qed.

    Lemma head n a k w : I n (run test_func cs (a, k)) w = I n (run_body (tail1 test_func cs) (set_ex (a, k) env0) tt) w.
    Proof.
      unfold run, body, tail0. erewrite run_body_seq_normal; [reflexivity|].
      unfold stmt0. erewrite if_done by apply interp_ret. apply interp_ret.
    Qed.
    (* every precondition accepts the candidate: it becomes a test case carrying exactly (args, kwargs), the function and the
       exception classes of the cases object, and the test function runs on it (its failure is the failure of the test) *)
    Theorem candidate_accepted n a k w w1 r w2 :
      run_vals n (c_pres (cs_contracts cs)) a k None w = Done (inl tt) w1 ->
      I n (test_func {| tc_func := cs_func cs; tc_args := a; tc_kwargs := k; tc_exceptions := cs_exceptions cs |}) w1 = Done r w2 ->
      I n (run test_func cs (a, k)) w = Done (match r with inl _ => inl tt | inr x => inr x end) w2.
    Proof.
      intros Hp Ht. rewrite head. unfold tail1.
      destruct (@filter_accept n (c_pres (cs_contracts cs)) (set_ex (a, k) env0) w w1 Hp) as (e1 & H1 & Hex).
      erewrite run_body_seq_normal by (unfold stmt1, s_for; exact H1).
      unfold tail2. erewrite run_body_seq_normal by (unfold stmt2; apply assign_done; apply interp_ret).
      rewrite Hex. cbn [l_ex set_ex fst snd].
      unfold tail3. destruct r as [v|x].
      - erewrite run_body_seq_normal.
        2:{ unfold stmt3. apply do_done. cbn [l_case set_case]. erewrite interp_bind_done by exact Ht. apply interp_ret. }
        unfold tail4. apply run_body_skip.
      - apply run_body_seq_raise. unfold stmt3. apply do_raise. cbn [l_case set_case]. erewrite interp_bind_raise by exact Ht. reflexivity.
    Qed.
    (* a precondition rejects it with its own violation error: hypothesis is told to discard the candidate; the test function
       does not run on it (the outcome is determined without it) *)
    Theorem candidate_rejected n a k w l1 v l2 w1 x w2 :
      c_pres (cs_contracts cs) = (l1 ++ v :: l2)%list ->
      run_vals n l1 a k None w = Done (inl tt) w1 ->
      I n (validate v a k None) w1 = Done (inr x) w2 -> own_error v x = true ->
      I n (run test_func cs (a, k)) w = Done (inr (mk_exn RejectC [])) w2.
    Proof.
      intros Hl Hp Hv Ho. rewrite head. unfold tail1. apply run_body_seq_raise. unfold stmt1, s_for. rewrite Hl.
      eapply filter_reject; eassumption.
    Qed.
  End Wrapper.
End Cases.
