(* Thm/Common/PatchBracket.v -- patch ... unpatch as a bracket: re-entrant use only counts; the outermost pair restores the streams. *)
From Coq Require Import List ZArith Bool String Lia.
Import ListNotations.
Require Import Base Prog Sig Interp InterpFacts StmtFacts Model HasPatcher PatchFacts.
Set Implicit Arguments.

(* ---------- algebra of slots ---------- *)
Lemma nlookup_nupd_same X (l : list (nat * X)) n v : nlookup n (nupd l n v) = Some v.
Proof. induction l as [|[k x] t IH]; cbn; [rewrite Nat.eqb_refl; reflexivity|]. destruct (Nat.eqb k n) eqn:E; cbn; rewrite ?E; [reflexivity|exact IH]. Qed.
Lemma nlookup_nupd_other X (l : list (nat * X)) n m v : n <> m -> nlookup m (nupd l n v) = nlookup m l.
Proof.
  intro H. induction l as [|[k x] t IH]; cbn.
  - destruct (Nat.eqb n m) eqn:E; [apply Nat.eqb_eq in E; contradiction|reflexivity].
  - destruct (Nat.eqb k n) eqn:E; cbn.
    + apply Nat.eqb_eq in E; subst k. destruct (Nat.eqb n m) eqn:E2; [apply Nat.eqb_eq in E2; contradiction|reflexivity].
    + destruct (Nat.eqb k m); [reflexivity|exact IH].
Qed.
Lemma get_put_same id x s : get_slot id (put_slot id x s) = x.
Proof. unfold get_slot, put_slot. cbn. rewrite nlookup_nupd_same. reflexivity. Qed.
Lemma get_put_other id id' x s : id <> id' -> get_slot id' (put_slot id x s) = get_slot id' s.
Proof. intro H. unfold get_slot, put_slot. cbn. rewrite nlookup_nupd_other by exact H. reflexivity. Qed.

Lemma get_set_out id x s : get_slot id (set_out x s) = get_slot id s. Proof. reflexivity. Qed.
Lemma get_set_err id x s : get_slot id (set_err x s) = get_slot id s. Proof. reflexivity. Qed.
Lemma get_set_sock id x s : get_slot id (set_sock x s) = get_slot id s. Proof. reflexivity. Qed.
Ltac norm := repeat first [ rewrite get_put_same | rewrite get_set_out | rewrite get_set_err | rewrite get_set_sock ].

Definition streams (s : st) := (s_out s, s_err s, s_sock s).
Definition depth (id : pid) (s : st) := sv_depth (get_slot id s).

(* nested use of a patcher that is already active: patch and unpatch only count *)
Lemma patch_nested p s : 1 <= depth (p_id p) s ->
  patch_st p s = bump_depth (p_id p) S s.
Proof.
  intro H. unfold patch_st. cbv zeta. unfold bump_depth at 1. rewrite get_put_same. cbn [sv_depth slot_depth].
  unfold depth in H. destruct (sv_depth (get_slot (p_id p) s)) as [|d]; [inversion H|]. reflexivity.
Qed.
Lemma unpatch_nested p s : 2 <= depth (p_id p) s ->
  unpatch_st p s = bump_depth (p_id p) Nat.pred s.
Proof.
  intro H. unfold unpatch_st. cbv zeta. unfold bump_depth at 1. rewrite get_put_same. cbn [sv_depth slot_depth].
  unfold depth in H. destruct (sv_depth (get_slot (p_id p) s)) as [|[|d]]; [inversion H|inversion H as [|? H1]; inversion H1|]. reflexivity.
Qed.
Lemma bump_globals id f s : debug (bump_depth id f s) = debug s /\ streams (bump_depth id f s) = streams s /\ removed (bump_depth id f s) = removed s.
Proof. repeat split. Qed.
Lemma bump_bump id s : sv_depth (get_slot id s) >= 1 ->
  get_slot id (bump_depth id Nat.pred (bump_depth id S s)) = get_slot id s.
Proof.
  intro H. unfold bump_depth. rewrite !get_put_same. destruct (get_slot id s) as [a b c d]. cbn. reflexivity.
Qed.

(* outermost use: whatever happens in between, as long as the streams and this patcher's slot are the same at the
   end of the bracket as at its start, unpatch restores the streams that patch found *)
Lemma patch_unpatch_outer p s s2 :
  depth (p_id p) s = 0 ->
  streams s2 = streams (patch_st p s) -> get_slot (p_id p) s2 = get_slot (p_id p) (patch_st p s) ->
  streams (unpatch_st p s2) = streams s /\ depth (p_id p) (unpatch_st p s2) = 0 /\ debug (unpatch_st p s2) = debug s2.
Proof.
  intros Hd Hs Hg. unfold depth in *.
  assert (Hslot : get_slot (p_id p) (patch_st p s) =
          {| sv_sock := if has_network (p_markers p) then sv_sock (get_slot (p_id p) s) else s_sock s;
             sv_out := if has_stdout (p_markers p) then sv_out (get_slot (p_id p) s) else s_out s;
             sv_err := if has_stderr (p_markers p) then sv_err (get_slot (p_id p) s) else s_err s;
             sv_depth := 1 |}).
  { unfold patch_st. cbv zeta. unfold bump_depth. rewrite !get_put_same. rewrite Hd. cbn [Nat.ltb Nat.leb slot_depth sv_depth].
    destruct (get_slot (p_id p) s) as [a b c d] eqn:Eg. cbn in Hd. subst d.
    destruct (has_network (p_markers p)), (has_stdout (p_markers p)), (has_stderr (p_markers p));
      cbn; norm; cbn; norm; reflexivity. }
  assert (Hst : streams (patch_st p s) =
                (if has_stdout (p_markers p) then s_out s else Patched (p_id p) (get_exception_spec p SilentContractErrorC),
                 if has_stderr (p_markers p) then s_err s else Patched (p_id p) (get_exception_spec p SilentContractErrorC),
                 if has_network (p_markers p) then s_sock s else Patched (p_id p) (get_exception_spec p OfflineContractErrorC))).
  { unfold patch_st. cbv zeta. unfold bump_depth. rewrite !get_put_same. rewrite Hd. cbn [Nat.ltb Nat.leb slot_depth sv_depth].
    destruct (has_network (p_markers p)), (has_stdout (p_markers p)), (has_stderr (p_markers p)); reflexivity. }
  rewrite Hst in Hs. unfold streams in Hs. inversion Hs as [[Ho He Hk]]. clear Hs Hst.
  rewrite Hslot in Hg. clear Hslot.
  unfold unpatch_st. cbv zeta.
  assert (H1 : get_slot (p_id p) (bump_depth (p_id p) Nat.pred s2) =
               {| sv_sock := if has_network (p_markers p) then sv_sock (get_slot (p_id p) s) else s_sock s;
                  sv_out := if has_stdout (p_markers p) then sv_out (get_slot (p_id p) s) else s_out s;
                  sv_err := if has_stderr (p_markers p) then sv_err (get_slot (p_id p) s) else s_err s;
                  sv_depth := 0 |}).
  { unfold bump_depth. rewrite get_put_same, Hg. reflexivity. }
  rewrite H1. cbn [sv_depth Nat.ltb Nat.leb].
  destruct (has_network (p_markers p)), (has_stdout (p_markers p)), (has_stderr (p_markers p));
    unfold streams;
    repeat (rewrite ?get_set_out, ?get_set_err, ?get_set_sock, ?H1; cbn [sv_sock sv_out sv_err sv_depth]);
    cbn; rewrite ?Ho, ?He, ?Hk; repeat split; reflexivity.
Qed.

(* patch / unpatch touch no other patcher's slot, nor the switch *)
Lemma bump_other id id' f s : id <> id' -> get_slot id' (bump_depth id f s) = get_slot id' s.
Proof. intro H. unfold bump_depth. apply get_put_other. exact H. Qed.
Lemma patch_other p id s : p_id p <> id -> get_slot id (patch_st p s) = get_slot id s.
Proof.
  intro H. unfold patch_st. cbv zeta.
  destruct (Nat.ltb 1 _); [apply bump_other; exact H|].
  destruct (has_network (p_markers p)), (has_stdout (p_markers p)), (has_stderr (p_markers p));
    repeat first [rewrite get_set_out | rewrite get_set_err | rewrite get_set_sock | rewrite get_put_other by exact H];
    apply bump_other; exact H.
Qed.
Lemma unpatch_other p id s : p_id p <> id -> get_slot id (unpatch_st p s) = get_slot id s.
Proof.
  intro H. unfold unpatch_st. cbv zeta.
  destruct (Nat.ltb 0 _); [apply bump_other; exact H|].
  destruct (has_network (p_markers p)), (has_stdout (p_markers p)), (has_stderr (p_markers p));
    repeat first [rewrite get_set_out | rewrite get_set_err | rewrite get_set_sock];
    apply bump_other; exact H.
Qed.
Lemma patch_switch p s : debug (patch_st p s) = debug s /\ removed (patch_st p s) = removed s.
Proof.
  unfold patch_st. cbv zeta. destruct (Nat.ltb 1 _); [split; reflexivity|].
  destruct (has_network (p_markers p)), (has_stdout (p_markers p)), (has_stderr (p_markers p)); split; reflexivity.
Qed.
Lemma unpatch_switch p s : debug (unpatch_st p s) = debug s /\ removed (unpatch_st p s) = removed s.
Proof.
  unfold unpatch_st. cbv zeta. destruct (Nat.ltb 0 _); [split; reflexivity|].
  destruct (has_network (p_markers p)), (has_stdout (p_markers p)), (has_stderr (p_markers p)); split; reflexivity.
Qed.
Lemma patch_depth_outer p s : depth (p_id p) s = 0 -> depth (p_id p) (patch_st p s) = 1.
Proof.
  intro Hd. unfold depth in *. unfold patch_st. cbv zeta. unfold bump_depth. rewrite !get_put_same. rewrite Hd.
  cbn [Nat.ltb Nat.leb slot_depth sv_depth].
  destruct (has_network (p_markers p)), (has_stdout (p_markers p)), (has_stderr (p_markers p));
    repeat first [rewrite get_set_out | rewrite get_set_err | rewrite get_set_sock | rewrite get_put_same]; reflexivity.
Qed.
